#!/usr/bin/env python3
"""Regenerates /verif/known_findings.json: 'fixed' entries are resolved from /repo's fix: commits
(by subject), 'open' entries are listed here by hand. Never run by a check."""
import json, subprocess, os

HERE = os.path.dirname(os.path.abspath(__file__))

# subject prefix (after "fix: ") -> list of (property, what failed, witness)
FIXED = {
 "send the byte count announced by the ordinary read": [
   ("C02", "ordinary READ never sent its 4-byte length announcement (and sent nothing for empty reads)", "READ n=5 off=0 on a 5000-byte file: first 4 bytes were file data (read-announce/plain)"),
   ("C03", "ordinary READ reply lacked the length field; READ n=0 left the client waiting", "session [OPEN file, READ 0@0]: no-response/READ")],
 "do not pass entry names to binary.Write": [
   ("C06", "RDE/RDEv2 dropped the connection after the first named entry (sendResult(string) fell through to binary.Write)", "session [OPENDIR dir, RDE, RDE]: short-response/RDE"),
   ("C03", "RDE/RDEv2 reply with a name ended the connection", "session [OPENDIR dir, RDE, STAT]: unexpected-close after RDE")],
 "dir-size walks the requested directory": [
   ("C06", "DIRSIZE walked \".\" so every path reported the total of the whole root", "DIRSIZE /dir: dirsize/plain-path")],
 "create-file accepts paths that do not exist yet": [
   ("C05", "CREATE of a not yet existing file failed on the preliminary Stat", "CREATE /w/new.bin with writing enabled answered -1: create-truth/new-file")],
 "consume the whole write-file payload": [
   ("C03", "refused/failed WRITE left its payload in the stream (desync / dropped connection)", "session [WRITE 5 (refused), STAT]: unexpected-close/WRITE"),
   ("C05", "with writing disabled a WRITE's payload was parsed as commands", "session [WRITE 70000, STAT]: desync")],
 "read-cd-2048 returns (start sector, sector count)": [
   ("C17", "READCD start sector and sector count were swapped between proto.Reader and server", "READCD start=0 count=1 sent nothing: no-response/READCD")],
 "probe the CD sector-size signature at 24+16*S": [
   ("C17", "sector-size signature probed at 24+16*2048+S instead of 24+16*S: sizes other than 2048/2352 never recognised", "READCD on S in {2328,2336,2340,2368,2448}: wrong-bytes")],
 "keep the AES block cipher in EncryptedISO": [
   ("C10", "EncryptedISO.ReadAt dereferenced a nil cipher.Block", "ReadAt touching an encrypted sector: panic nil pointer dereference"),
   ("C04", "opening an encrypted image of 2 MiB..848 MiB whose sectors 16..19 are encrypted crashed the server (sector-size probe uses ReadAt)", "process-died")],
 "the last sector of a plain region is not encrypted": [
   ("C10", "the inclusive end sector of every plain region was decrypted", "wrong-bytes at the last sector of plain region 0")],
 "decrypt whole sectors so that unaligned": [
   ("C10", "unaligned / short / positional reads of the decrypting view panicked (slice bounds out of range) or returned half-decrypted sectors", "Read(n=5000) at unaligned offset: panic / wrong-bytes"),
   ("C04", "an unaligned critical read inside an encrypted region killed the server", "process-died: slice bounds out of range in decryptData")],
 "3k3y masking of a read that starts inside the masked area": [
   ("C11", "a read starting inside 0xF70..0x1070 of a 3k3y image indexed the buffer with a negative offset (panic)", "window read 0xF80+0x10: panic index out of range [-N]"),
   ("C04", "READ at offset 0xF80 of a 3k3y image killed the server", "process-died")],
 "3k3y masking also applies to data returned together with an error": [
   ("C11", "data returned together with io.EOF was handed out unmasked", "window 0x7ff+0x1002 crossing EOF of a 0x1800-byte 3k3y image: watermark visible")],
 "load the config file named by PS3NETSRV_CONFIG_FILE": [
   ("C19", "PS3NETSRV_CONFIG_FILE had no effect for any setting", "no-effect <setting>/envfile for all 9 settings")],
 "take root from config files and refuse an invalid one": [
   ("C19", "root given in an INI file was ignored (server ran with an empty root) and an invalid root in INI was accepted", "no-effect root/{ini,cwdini,userini}; invalid-accepted root/ini")],
 "generated image reads return the image bytes for every offset and length": [
   ("C07", "an empty file in the tree made the sequential image read stop", "sequential-read-failed/has-empty-file"),
   ("C09", "padding clamp reversed (index out of range panics, shifted data), pad-area reads beyond the announced size, Seek(0,SeekEnd)=size-1, seek past the end refused", "panic index out of range; readat/beyond-size; seek/whence2-result"),
   ("C04", "small-buffer reads ending in inter-file padding killed the server", "process-died: index out of range in VirtualISO.read")],
 "'..' records of non-root directories carry the parent directory's length": [
   ("C08", "'..' records of non-root directories had data length 0", "V06 on every tree with a sub-directory")],
 "directory records no longer cross sector borders": [
   ("C08", "directory records straddled sector borders in directories larger than one sector", "V05 on wide directories")],
 "refuse to build an image for names that do not fit": [
   ("C08", "names longer than 110 UTF-16 units / 221 bytes wrapped the record length byte; colliding directory names corrupted child links", "V04/V05/V09 on longfile128; R-rec"),
   ("C04", "directory names > 127 characters hit the 'path table entry size mismatch' panic (server and make-iso)", "cli-crash make-iso; process-died")],
 "a PARAM.SFO with a too short or too long TITLE_ID": [
   ("C04", "TITLE_ID shorter than 4 or longer than 31 characters panicked (slice bounds / encoded data too large) and killed the server / make-iso", "process-died sfo: titleid-3chars, titleid-40chars")],
 "volume identifiers are cut to their field size": [
   ("C04", "opening ***DVD*** on a directory whose name exceeds 16 characters panicked ('encoded data too large') and killed the server / make-iso", "process-died names: VVVVVVVVVVVVVVVVV")],
 "bound the region count of an encrypted image": [
   ("C04", "a region count of up to 2^32-1 sized an allocation of up to 32 GiB: out of memory in server and decrypt tool", "process-died region-table: count-2^32-1")],
 "ordinary read streams the data": [
   ("C04", "READ buffered 'limit' bytes in memory: a 2 GiB limit on a large file exhausted an 8 GiB address space", "process-died hostile-session: READ n=2147483647 on /sparse9g.bin")],
 "do not share one UTF-16 encoder": [
   ("C12", "package-level UTF-16 encoder shared by concurrently built images (data race, occasionally failed opens)", "data-race fs.mangleStrD1 <-> fs.mangleStrD1 under concurrent opens of one directory"),
   ("C18", "concurrent opens of the same directory raced on the shared encoder", "C18 race build: 5 distinct race reports in mangleStr*")],
 "a generated image keeps one member file open": [
   ("C18", "concurrent opens of a directory with thousands of files exhausted the descriptor limit: transfers cut mid-way ('too many open files')", "network-fetch-failed/concurrent: READ body 768000/1048576 then closed"),
   ("C13", "every member file ever read stayed open until the image was closed", "handle ledger: open set grows with the number of files read")],
 "close the just opened file when its Stat fails": [
   ("C13", "handle leak when Stat fails after Open in FS.OpenFile (handler, dir-size walk) and in HandleOpenDir", "leak plain-file: eio on fstat /big.bin; leak listing-rde: eio on fstat /dir")],
 "a key file that exists but cannot be opened": [
   ("C13", "an I/O error opening the adjacent key file made the server serve the still-encrypted bytes", "wrong-answer-under-fault encrypted-adjacent-key: EIO at op #3 (open)")],
 "request paths are made root-relative and cleaned": [
   ("C01", "paths with '..' reached sibling directories whose name starts with the root's name (afero BasePathFs tests a bare string prefix): stat/list/open/create/delete/mkdir/rmdir/dir-size outside the root", "STAT /../root-other/x.txt answered the sibling's file; os-path-outside-root sibling:root-other; syscall-path-outside-root")],
 "decrypt prints its progress line to stderr": [
   ("C20", "decrypt wrote its progress message to standard output in front of the image when the output is '-'", "decrypt-output-differs redump-to-stdout / 3k3y-to-stdout")],
 "decrypting view answers reads beyond the 32-bit sector range": [
   ("C04", "a critical or ordinary read on a decrypted image at an offset just below 2^42 (2^31 sectors) made EncryptedISO.readAt call make() with a negative length: panic, whole server down (regression of the whole-sector rewrite, found by a sub-agent while writing property-preserving changes; the far-offset family was then added to C02/C04/C09/C10)", "process-died hostile-session READCRIT n=2048 off=13194139531263 on /PS3ISO/enc.iso; not-serving"),
   ("C10", "Read/ReadAt of the decrypting view far beyond the image: panic (makeslice / slice bounds) near 2^42 and 2^63, 'negative offset' errors instead of EOF, sector number wrapped above 2^43", "panic makeslice: len out of range; read past-end")],
 "a directory is linked to its own record when a sibling file": [
   ("C07", "a file and a sibling directory whose names differ only in case ('name' next to 'NAME/', both portable): in the primary hierarchy the directory's children were unreachable and the file record pointed at the directory extent (noticed by a sub-agent writing property-preserving generator changes; my trees used case-insensitively unique names; shapes file-dir-case / dir-file-case added first, C07 and C08 then fired)", "tree-mismatch shape:file-dir-case / dir-file-case / file-dir-case-ps3"),
   ("C08", "same trees: directory record with extent length 0, path table pointing at a directory without '.'/'..', file extents overlapping", "V05/V06/V07/V08/V09 shape:file-dir-case")],
 "open-dir does not keep a non-directory": [
   ("C03", "OPENDIR on a generated-image path below the first level (/***DVD***/dir/sub) answers -1 but installed the VirtualISO as open directory; a following READ_DIR_ENTRY(_V2) was never answered (endless loop in the handler). Found by bug-hunting sub-agents; symbols 'OPENDIR ***DVD***/dir(/sub)' and scripted histories added to C03 first", "no-response RDE / RDE2"),
   ("C13", "same history: the goroutine keeps spinning after the client has gone, its handles and client slot are never released", "leak virtual-as-directory")],
 "a write-file request whose payload is cut off is not answered": [
   ("C03", "WRITE announcing n bytes, cut inside the payload and half-closed, was answered with a 4-byte result (io.Copy takes EOF as success); the check had explicitly tolerated this answer, which the statement does not (the payload is part of the request)", "stray-bytes truncated-request WRITE 5 cut at byte 16..20/21")],
 "delete-file removes only files, rmdir only directories": [
   ("C05", "RMDIR on a regular file deleted it, DELETE on an empty directory removed it (both answer 0), either of them on an empty served root removed the root itself (Fs.Remove removes whatever the name points to); the model had admitted removal of the other kind", "remove-truth RMDIR-wrong-kind / DELETE-wrong-kind; remove-root empty-root")],
 "region borders at or beyond sector 2^31 no longer wrap": [
   ("C10", "valid region tables whose later plain regions start at or beyond sector 2^31 (far behind the data): int32 conversion made the encrypted region before them end at a negative sector, its sectors were served still encrypted", "wrong-bytes read/readat shape far-border")],
 "a key file that cannot exist is a missing key file": [
   ("C11", "image without applicable key refused instead of served: REDKEY (or REDKEY/sub) is a regular file (ENOTDIR), 255-byte image name (ENAMETOOLONG for its .dkey), a directory named like the key file (EISDIR; with a valid REDKEY key behind it)", "wrong-transformation key=redkey-is-file / redkey-sub-is-file / name-255-bytes / adjacent-dkey-is-dir+redkey / redkey-dkey-is-dir")],
 "PS3ISO directory and .iso extension are matched by ASCII case only": [
   ("C11", "directory 'PS3\u0130SO' or extension '.\u0130SO' (U+0130 lower-cases to ASCII i) counted as PS3ISO/.iso: the image was 'decrypted' with another image's key", "wrong-transformation key=dir-PS3\u0130SO+redkey / ext-.\u0130SO+adjacent")],
 "output file is created exclusively": [
   ("C20", "the output path is checked with Stat and then opened with O_CREATE only: a file created by another process in between was overwritten in place. Made deterministic with strace (stat-family calls held after the kernel answered; the monitor creates the file exclusively as soon as the tool has been told ENOENT)", "clobbered appeared-after-lookup (make-iso, decrypt redump, decrypt 3k3y)")],
 "open-file fails when the CD sector-size probe cannot be read": [
   ("C13", "an I/O error at the sector-size probe was only logged and 2352 kept: every READ_CD_2048 on a 2448/2336-byte image then returned bytes of the wrong offsets as a normal answer (scenario psx-cd-image added first)", "wrong-answer-under-fault psx-cd-image: READCD, EIO at the probe's readat")],
 "a sub-command name is not taken for a dropped directory": [
   ("C19", "`ps3netsrv-go server` in a directory that holds a sub-directory named server was rewritten to `server --root=server`: a root given via PS3NETSRV_ROOT, ./config.ini or the env-selected file had no effect", "no-effect root/env+dir-named-server, root/cwdini+dir-named-server, root/envfile+dir-named-server")],
 "the volume is named after the directory however its path is spelled": [
   ("C20", "make-iso with the directory written with a trailing slash, '/.' or doubled separators produced blank or '_' volume identifiers: not the image the server serves for that directory", "make-iso-differs ps3=false,dir=absolute, trailing slash / trailing /. / with /./ and //")],
 "a tree that does not fit into 32-bit sector numbers is refused": [
   ("C09", "sparse members of 4 TiB in all: int32 sector sums wrap, the image announces a negative size (and over the network READ announces bytes that never come); a member of 8 TiB overlaps the next file", "size huge-tree members [2 TiB, 2 TiB] / [4 TiB] / [4 TiB - 198656]")],
 "named pipes and other special files under the root are refused": [
   ("C04", "OPEN / OPENDIR on a FIFO lying under the root, or a PARAM.SFO that is a FIFO: the handler blocks in open(2) for ever, neither an answer nor a close, also after the client has gone (and thread exhaustion kills the process after ~10^4 such requests)", "neither-answered-nor-closed shape/fifo OPEN, fifo OPENDIR, fifo as PARAM.SFO")],
 "a temporary accept error does not stop the server": [
   ("C04", "with RLIMIT_NOFILE=48 (or 90), that many idle connections make accept4 fail with EMFILE: Serve returned and the process exited with status 1, cutting every client", "process-died many-clients")],
 "dir-size answers the failure code when the tree cannot be read": [
   ("C13", "an I/O error below the directory was skipped and the sum of the rest answered as the total (the check had admitted partial sums; they are now admitted only when the injected fault says the object is gone)", "wrong-answer-under-fault stat-dirsize: DIRSIZE, EIO at stat/open/readdir")],
 "a prefix length with a sign is not a prefix length": [
   ("C14", "'10.0.0.0/-0', '/+0' accepted as the whole address space, '/+24' as /24 (strconv.Atoi takes a sign); the check had left signed prefixes unclassified", "accepts-invalid cidr-v4/+24, cidr-v4/+0, '10.0.0.0/-0', '2001:db8::/-0'")],
 "sizes declared inside PARAM.SFO are bounded before they are used": [
   ("C04", "TITLE_ID with DataLen 0xFFFFFFFF / 0x7FFFFFFF in a sparse 4 GiB PARAM.SFO: server and make-iso die with 'fatal error: out of memory'; entries count 0xFFFFFFFF without the wanted key: the handler walks the index for hours (neither answered nor closed)", "process-died sfo titleid-datalen=0xffffffff,file=4GiB; cli-crash make-iso-ps3; neither-answered-nor-closed sfo count=0xffffffff,file=4GiB")],
 "volume descriptor set terminator has version 1": [
   ("C08", "sector 18 begins ff 'CD001' 00: the set terminator carries version 0 (ECMA-119 8.3.3: 1); my validator had checked the version of the primary and supplementary descriptors only. V03 extended first", "V03 sector 18: type 255 descriptor version 0"),
   ("C07", "a reader that validates the terminator (libarchive's bsdtar, added to C07 as an optional third-party decoder) does not recognise the volume and finds no entry in either hierarchy", "tree-mismatch-third-party-reader random / deep / wide")],
 "a PARAM.SFO value is read in full": [
   ("C08", "TITLE_ID stored in string format 0x0004 (not NUL-terminated, length = characters): the last character was dropped, sector 1 carried 'BCES-0010 ' instead of 'BCES-00104'", "V11 shape:sfo-titleid-format-0004")],
 "a named pipe in the place of a key file is refused as well": [
   ("C04", "second bug-hunt round: the special-file refusal covered the requested path only; with a FIFO named like the image's .dkey (beside it or in REDKEY) OPEN of the image blocked for ever in the key lookup", "neither-answered-nor-closed shape/fifo as adjacent key file, fifo as REDKEY key file")],
 "a plain region of one sector is a valid region": [
   ("C10", "tables with a plain region {s,s} (the end is the region's last sector; with {0,0} first the encrypted data starts at sector 1, a case the quantifier names) were rejected as 'end less than start'; the check had declared such tables unjudged", "valid-table-rejected one-sector-plain")],
 "rmdir refuses symbolic links, delete-file never removes the served root": [
   ("C05", "regression/gap of the delete/rmdir fix: its lstat helper never saw an Lstater (fs.FS embeds the afero.Fs interface) and followed links, so RMDIR on a link to a directory removed the link and answered 0; with the link visible, DELETE '' on a symlinked served root would unlink the root's link (caught by the symlinked-root scenario while fixing)", "remove-truth RMDIR-symlink; remove-root symlinked-root")],
 "dir-size skips symbolic links that lead nowhere": [
   ("C06", "regression of the dir-size fix: a symbolic link through a regular file (ENOTDIR), to itself (ELOOP) or to an over-long name made DIRSIZE answer -1 for its directory and all ancestors, while listings and stat omit such links as dangling", "dirsize plain-path DIRSIZE /tNNNN_links answered -1")],
 "the size check of a tree does not wrap for a member of nearly 2^63 bytes": [
   ("C04", "regression/gap of the tree-size fix: (size+2047)/2048 wraps for a sparse member of more than MaxInt64-2047 bytes (tmpfs/xfs/btrfs accept it), the member passed the refusal and the builder allocated without bound: out of memory in the server and in make-iso (probed in a child process under an address-space cap, tree on /dev/shm)", "process-died huge-member; cli-crash make-iso: huge-member")],
 "a request that arrived in time is not lost to a deadline the busy server noticed late": [
   ("C16", "third bug-hunt round: an active connection (complete STAT requests every 0.8 T) was cut when the server was busy (GOMAXPROCS=1, clients streaming an encrypted image): the command was read in time, the read of its path started after the absolute deadline and failed without looking at the socket. Not reachable by a workload in virtual time (nothing delays a goroutine there), so a verif-tagged hook between command and argument reads was added (commit 67def34) and the synctest monitor injects the delay a busy scheduler causes: deterministic", "active-cut active-0.800T-server-late-0.300T / active-0.500T-server-late-0.600T")],
 "decrypt 3k3y also removes the watermark": [
   ("C20", "decrypt 3k3y output kept watermark+key with a cleared region table: placed under a served root it could not be opened (second transformation attempted)", "serve-back-failed 3k3y-from-PS3ISO / 3k3y-from-GAMES")],
}

OPEN = [
]

def main():
    log = subprocess.run(["git", "-C", "/repo", "log", "--format=%h\t%s"], capture_output=True, text=True).stdout.splitlines()
    subj = {}
    for l in log:
        h, s = l.split("\t", 1)
        if s.startswith("fix: "):
            subj[s[5:]] = h
    findings = []
    used = set()
    for prefix, items in FIXED.items():
        match = [(s, h) for s, h in subj.items() if s.startswith(prefix)]
        if len(match) != 1:
            raise SystemExit(f"fix commit for {prefix!r}: {len(match)} matches")
        s, h = match[0]
        used.add(s)
        for prop, what, witness in items:
            findings.append({"status": "fixed", "property": prop, "commit": h,
                             "line": f"fixed: property={prop} {h} {what}", "what": what, "witness": witness})
    missing = set(subj) - used
    if missing:
        raise SystemExit(f"fix commits without an entry: {missing}")
    findings.sort(key=lambda f: (f["property"], f["commit"]))
    for o in OPEN:
        findings.append(o)
    out = {"_comment": "Committed; never written at run time. status=open entries are matched by {property, rule, feature} and downgrade exactly that violation to a KNOWN-FINDING line; status=fixed entries suppress nothing (a returning violation is reported again).",
           "findings": findings}
    json.dump(out, open(os.path.join(HERE, "known_findings.json"), "w"), indent=1)
    print(len(findings), "entries;", len(OPEN), "open")

main()
