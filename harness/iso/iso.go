// Package iso is an independent ISO 9660 (ECMA-119) + Joliet reader and a
// strict structural validator, written from the specifications.
//
// The reader is tolerant: it never panics, bounds-checks everything, and
// reports trouble as issues with an ID starting with "R". The validator
// (validate.go) checks the invariants V01..V11 and nothing else.
package iso

import (
	"bytes"
	"encoding/binary"
	"errors"
	"fmt"
	"io"
	"sort"
	"strings"
	"unicode/utf16"
)

// SectorSize is the logical sector (and logical block) size assumed everywhere.
const SectorSize = 2048

const (
	maxDescs    = 16
	maxDirs     = 200000
	maxRecords  = 2000000
	maxDirBytes = 64 << 20 // one directory extent is never read beyond this
	maxPTBytes  = 32 << 20 // 65535 entries * (8+255+1) is ~17 MiB
	issueCap    = 5
)

// Source is random access to the image.
type Source interface {
	ReadAt(p []byte, off int64) (int, error)
}

// Extent is one directory record's extent.
type Extent struct {
	LBA uint32
	Len uint32
}

// File is a file of one hierarchy (multi-extent parts merged).
type File struct {
	Path    string
	Size    int64
	Extents []Extent
}

// Dir is a directory of one hierarchy.
type Dir struct {
	Path     string
	LBA, Len uint32
	Parent   *Dir
	Subdirs  []*Dir
	Files    []*File
	Records  []Record

	raw    []byte // extent bytes as read (rounded up to whole sectors, bounded by the image)
	linkID []byte // identifier of the record that links to this directory (nil for root)
	loaded bool   // extent was read and walked
}

// Record is one raw directory record.
type Record struct {
	Offset       int64
	RecLen       int
	LBA, Len     uint32
	LBAbe, LenBE uint32
	Flags        byte
	SeqLE, SeqBE uint16
	IDRaw        []byte
	IDLen        int

	bad bool // could not be decoded (too short / runs past the extent); fields other than Offset, RecLen are unreliable
}

// VolDesc is one volume descriptor.
type VolDesc struct {
	Sector                                               int64
	Type                                                 byte
	Version                                              byte
	ID                                                   string
	Raw                                                  []byte
	SpaceLE, SpaceBE                                     uint32
	SetSizeLE, SetSizeBE, SeqLE, SeqBE, BlockLE, BlockBE uint16
	PTSizeLE, PTSizeBE                                   uint32
	LTable, MTable                                       uint32
	Escape                                               []byte
	Root                                                 Record
}

// PathEntry is one decoded path table entry.
type PathEntry struct {
	Index  int // 1-based directory number
	IDLen  int
	ExtLen byte
	LBA    uint32
	Parent uint16
	IDRaw  []byte
	Offset int64 // absolute byte offset in the image
}

// Hierarchy is one directory hierarchy (primary or Joliet).
type Hierarchy struct {
	VD         *VolDesc
	Root       *Dir
	Dirs       []*Dir
	LTab, MTab []PathEntry
	LRaw, MRaw []byte

	joliet                 bool
	lConsumed, mConsumed   int  // bytes consumed by the decoded entries
	lTruncated, mTruncated bool // an entry ran past the declared size
}

// Image is a decoded image.
type Image struct {
	Size            int64
	Descs           []*VolDesc
	Primary, Joliet *Hierarchy
}

// Issue is one finding.
type Issue struct {
	ID     string
	Detail string
}

func (i Issue) String() string { return i.ID + ": " + i.Detail }

// issueList collects issues, at most issueCap per ID.
type issueList struct {
	list []Issue
	n    map[string]int
}

func (l *issueList) add(id, format string, args ...any) {
	if l.n == nil {
		l.n = map[string]int{}
	}
	l.n[id]++
	if l.n[id] > issueCap {
		return
	}
	l.list = append(l.list, Issue{ID: id, Detail: fmt.Sprintf(format, args...)})
}

// safeReadAt fills p from src at off. Short reads are retried; a panic inside
// the source is converted to an error. Returns the number of bytes read.
func safeReadAt(src Source, p []byte, off int64) (n int, err error) {
	defer func() {
		if r := recover(); r != nil {
			err = fmt.Errorf("source panicked: %v", r)
		}
	}()
	if off < 0 {
		return 0, errors.New("negative offset")
	}
	for n < len(p) {
		m, e := src.ReadAt(p[n:], off+int64(n))
		if m < 0 || m > len(p)-n {
			return n, fmt.Errorf("source returned impossible count %d for a %d byte buffer", m, len(p)-n)
		}
		n += m
		if e != nil {
			if n == len(p) {
				return n, nil
			}
			if e == io.EOF {
				return n, io.ErrUnexpectedEOF
			}
			return n, e
		}
		if m == 0 {
			return n, io.ErrNoProgress
		}
	}
	return n, nil
}

type reader struct {
	src     Source
	size    int64
	iss     issueList
	dirs    int
	records int
	limited bool
}

// readRange reads [off, off+n) bounded by the image size. The returned slice
// may be shorter than n.
func (r *reader) readRange(off int64, n int64, what string) []byte {
	if off < 0 || off >= r.size || n <= 0 {
		return nil
	}
	if off+n > r.size {
		n = r.size - off
	}
	buf := make([]byte, n)
	got, err := safeReadAt(r.src, buf, off)
	if err != nil {
		r.iss.add("R-read", "%s: read of %d bytes at offset %d failed after %d bytes: %v", what, n, off, got, err)
	}
	return buf[:got]
}

func isJolietEscape(esc []byte) bool {
	if len(esc) < 3 || esc[0] != '%' || esc[1] != '/' {
		return false
	}
	return esc[2] == '@' || esc[2] == 'C' || esc[2] == 'E'
}

// parseRecord decodes a directory record from b (b starts at the length
// byte and holds at least the record, or what is left of the buffer).
func parseRecord(b []byte, abs int64) Record {
	rec := Record{Offset: abs}
	if len(b) == 0 {
		rec.bad = true
		return rec
	}
	rec.RecLen = int(b[0])
	if len(b) < 33 || rec.RecLen < 33 {
		rec.bad = true
		return rec
	}
	rec.LBA = binary.LittleEndian.Uint32(b[2:6])
	rec.LBAbe = binary.BigEndian.Uint32(b[6:10])
	rec.Len = binary.LittleEndian.Uint32(b[10:14])
	rec.LenBE = binary.BigEndian.Uint32(b[14:18])
	rec.Flags = b[25]
	rec.SeqLE = binary.LittleEndian.Uint16(b[28:30])
	rec.SeqBE = binary.BigEndian.Uint16(b[30:32])
	rec.IDLen = int(b[32])
	end := 33 + rec.IDLen
	if end > len(b) {
		end = len(b)
	}
	if end > rec.RecLen {
		// identifier claims to run past the record: keep what the record holds
		end = rec.RecLen
	}
	rec.IDRaw = append([]byte(nil), b[33:end]...)
	return rec
}

func parseVolDesc(raw []byte, sector int64) *VolDesc {
	vd := &VolDesc{Sector: sector, Raw: raw}
	if len(raw) < SectorSize {
		// caller guarantees 2048 bytes; be defensive anyway
		p := make([]byte, SectorSize)
		copy(p, raw)
		raw = p
		vd.Raw = raw
	}
	le, be := binary.LittleEndian, binary.BigEndian
	vd.Type = raw[0]
	vd.ID = string(raw[1:6])
	vd.Version = raw[6]
	vd.SpaceLE = le.Uint32(raw[80:84])
	vd.SpaceBE = be.Uint32(raw[84:88])
	vd.Escape = append([]byte(nil), raw[88:120]...)
	vd.SetSizeLE = le.Uint16(raw[120:122])
	vd.SetSizeBE = be.Uint16(raw[122:124])
	vd.SeqLE = le.Uint16(raw[124:126])
	vd.SeqBE = be.Uint16(raw[126:128])
	vd.BlockLE = le.Uint16(raw[128:130])
	vd.BlockBE = be.Uint16(raw[130:132])
	vd.PTSizeLE = le.Uint32(raw[132:136])
	vd.PTSizeBE = be.Uint32(raw[136:140])
	vd.LTable = le.Uint32(raw[140:144])
	vd.MTable = be.Uint32(raw[148:152])
	vd.Root = parseRecord(raw[156:190], sector*SectorSize+156)
	return vd
}

// Read decodes the image.
func Read(src Source, size int64) (img *Image, issues []Issue) {
	r := &reader{src: src, size: size}
	img = &Image{Size: size}
	defer func() {
		if p := recover(); p != nil {
			r.iss.add("R-panic", "reader panicked: %v", p)
		}
		issues = r.iss.list
	}()
	if src == nil {
		r.iss.add("R-read", "nil source")
		return img, nil
	}

	for i := 0; i < maxDescs; i++ {
		sector := int64(16 + i)
		raw := r.readRange(sector*SectorSize, SectorSize, fmt.Sprintf("volume descriptor at sector %d", sector))
		if len(raw) < SectorSize {
			r.iss.add("R-desc", "volume descriptor at sector %d unreadable (%d of 2048 bytes, image size %d)", sector, len(raw), size)
			break
		}
		vd := parseVolDesc(raw, sector)
		img.Descs = append(img.Descs, vd)
		if vd.Type == 255 {
			break
		}
		if i == maxDescs-1 {
			r.iss.add("R-desc", "no volume descriptor set terminator within %d descriptors from sector 16", maxDescs)
		}
	}

	var pvd, svd, svdAny *VolDesc
	for _, vd := range img.Descs {
		if vd.ID != "CD001" {
			continue
		}
		switch vd.Type {
		case 1:
			if pvd == nil {
				pvd = vd
			}
		case 2:
			if svdAny == nil {
				svdAny = vd
			}
			if svd == nil && isJolietEscape(vd.Escape) {
				svd = vd
			}
		}
	}
	if svd == nil && svdAny != nil {
		// a supplementary descriptor without a Joliet escape: decode it as
		// Joliet anyway so that the validator can look at it (V03 reports the escape)
		svd = svdAny
		r.iss.add("R-escape", "supplementary descriptor at sector %d has no Joliet escape sequence (% x); decoding identifiers as UTF-16BE anyway", svd.Sector, svd.Escape[:3])
	}
	if pvd == nil {
		r.iss.add("R-nopvd", "no primary volume descriptor (type 1, CD001) among %d descriptors", len(img.Descs))
	} else {
		img.Primary = r.readHierarchy(pvd, false)
	}
	if svd != nil {
		img.Joliet = r.readHierarchy(svd, true)
	}
	return img, nil
}

func decodeName(id []byte, joliet bool) string {
	if joliet {
		n := len(id) / 2
		u := make([]uint16, n)
		for i := 0; i < n; i++ {
			u[i] = binary.BigEndian.Uint16(id[2*i:])
		}
		return string(utf16.Decode(u))
	}
	return strings.TrimSuffix(string(id), ";1")
}

func isDot(rec *Record) bool {
	return !rec.bad && rec.IDLen == 1 && len(rec.IDRaw) == 1 && rec.IDRaw[0] == 0
}
func isDotDot(rec *Record) bool {
	return !rec.bad && rec.IDLen == 1 && len(rec.IDRaw) == 1 && rec.IDRaw[0] == 1
}

func joinPath(dir, name string) string {
	if dir == "/" {
		return "/" + name
	}
	return dir + "/" + name
}

func (r *reader) readHierarchy(vd *VolDesc, joliet bool) *Hierarchy {
	h := &Hierarchy{VD: vd, joliet: joliet}
	kind := "primary"
	if joliet {
		kind = "joliet"
	}
	if vd.Root.bad {
		r.iss.add("R-root", "%s: root directory record in descriptor at sector %d is undecodable (length byte %d)", kind, vd.Sector, vd.Root.RecLen)
	} else {
		root := &Dir{Path: "/", LBA: vd.Root.LBA, Len: vd.Root.Len}
		h.Root = root
		h.Dirs = append(h.Dirs, root)
		r.dirs++
		visited := map[uint32]bool{}
		for qi := 0; qi < len(h.Dirs); qi++ {
			d := h.Dirs[qi]
			if d.Len == 0 {
				continue // nothing to read
			}
			if visited[d.LBA] {
				r.iss.add("R-loop", "%s: directory %q names extent LBA %d which was already walked as another directory; not descending", kind, d.Path, d.LBA)
				continue
			}
			visited[d.LBA] = true
			r.loadDir(h, d, kind)
			if r.limited {
				break
			}
		}
	}
	h.LRaw, h.LTab, h.lConsumed, h.lTruncated = r.readPathTable(vd, vd.LTable, binary.LittleEndian, kind+" L path table")
	h.MRaw, h.MTab, h.mConsumed, h.mTruncated = r.readPathTable(vd, vd.MTable, binary.BigEndian, kind+" M path table")
	return h
}

func (r *reader) loadDir(h *Hierarchy, d *Dir, kind string) {
	start := int64(d.LBA) * SectorSize
	if start >= r.size {
		r.iss.add("R-dir", "%s: directory %q extent LBA %d (offset %d) lies outside the image (size %d)", kind, d.Path, d.LBA, start, r.size)
		return
	}
	walkLen := int64(d.Len)
	if start+walkLen > r.size {
		r.iss.add("R-dir", "%s: directory %q extent LBA %d length %d runs past the image end %d; truncated", kind, d.Path, d.LBA, d.Len, r.size)
		walkLen = r.size - start
	}
	if walkLen > maxDirBytes {
		r.iss.add("R-dir", "%s: directory %q extent length %d exceeds the reader cap %d; truncated", kind, d.Path, d.Len, maxDirBytes)
		walkLen = maxDirBytes
	}
	readLen := (walkLen + SectorSize - 1) / SectorSize * SectorSize
	raw := r.readRange(start, readLen, fmt.Sprintf("%s directory %q", kind, d.Path))
	d.raw = raw
	d.loaded = true
	if int64(len(raw)) < walkLen {
		walkLen = int64(len(raw))
	}

	var prev *Record // previous non-dot record
	var prevFile *File
	off := int64(0)
	for off < walkLen {
		b := raw[off]
		if b == 0 {
			off = (off/SectorSize + 1) * SectorSize
			continue
		}
		if r.records >= maxRecords {
			r.iss.add("R-limit", "more than %d directory records; stopped in %s directory %q", maxRecords, kind, d.Path)
			r.limited = true
			return
		}
		r.records++
		end := off + int64(b)
		if end > int64(len(raw)) {
			rec := Record{Offset: start + off, RecLen: int(b), bad: true}
			d.Records = append(d.Records, rec)
			r.iss.add("R-rec", "%s: directory %q record at offset %d (length byte %d) runs past the end of the directory data; stopped walking this directory", kind, d.Path, rec.Offset, b)
			return
		}
		rec := parseRecord(raw[off:end], start+off)
		d.Records = append(d.Records, rec)
		off = end
		if rec.bad {
			r.iss.add("R-rec", "%s: directory %q record at offset %d has length byte %d < 33; skipped", kind, d.Path, rec.Offset, rec.RecLen)
			prev, prevFile = nil, nil
			continue
		}
		if 33+rec.IDLen > rec.RecLen {
			r.iss.add("R-rec", "%s: directory %q record at offset %d: identifier length %d does not fit in record length %d", kind, d.Path, rec.Offset, rec.IDLen, rec.RecLen)
		}
		cur := &d.Records[len(d.Records)-1]
		if isDot(cur) || isDotDot(cur) {
			continue
		}
		name := decodeName(rec.IDRaw, h.joliet)
		if rec.Flags&0x02 != 0 {
			prev, prevFile = nil, nil
			if r.dirs >= maxDirs {
				if !r.limited {
					r.iss.add("R-limit", "more than %d directories; stopped at %s directory %q", maxDirs, kind, joinPath(d.Path, name))
				}
				r.limited = true
				return
			}
			r.dirs++
			child := &Dir{Path: joinPath(d.Path, name), LBA: rec.LBA, Len: rec.Len, Parent: d, linkID: rec.IDRaw}
			d.Subdirs = append(d.Subdirs, child)
			h.Dirs = append(h.Dirs, child)
			continue
		}
		if prev != nil && prevFile != nil && prev.Flags&0x80 != 0 && bytes.Equal(prev.IDRaw, rec.IDRaw) {
			prevFile.Extents = append(prevFile.Extents, Extent{LBA: rec.LBA, Len: rec.Len})
			prevFile.Size += int64(rec.Len)
		} else {
			prevFile = &File{Path: joinPath(d.Path, name), Size: int64(rec.Len), Extents: []Extent{{LBA: rec.LBA, Len: rec.Len}}}
			d.Files = append(d.Files, prevFile)
		}
		prev = cur
	}
}

// declaredPTSize returns the path table size to use for reading.
func declaredPTSize(vd *VolDesc) uint32 {
	if vd.PTSizeLE != 0 {
		return vd.PTSizeLE
	}
	return vd.PTSizeBE
}

func (r *reader) readPathTable(vd *VolDesc, lba uint32, order binary.ByteOrder, what string) (raw []byte, tab []PathEntry, consumed int, truncated bool) {
	size := int64(declaredPTSize(vd))
	if size == 0 {
		r.iss.add("R-pt", "%s: declared size is 0", what)
		return nil, nil, 0, false
	}
	start := int64(lba) * SectorSize
	if lba == 0 || start >= r.size {
		r.iss.add("R-pt", "%s: location LBA %d lies outside the image (size %d)", what, lba, r.size)
		return nil, nil, 0, false
	}
	if size > maxPTBytes {
		r.iss.add("R-pt", "%s: declared size %d exceeds the reader cap %d; truncated", what, size, maxPTBytes)
		size = maxPTBytes
	}
	raw = r.readRange(start, size, what)
	if int64(len(raw)) < size {
		r.iss.add("R-pt", "%s: only %d of %d bytes readable at LBA %d", what, len(raw), size, lba)
	}
	off := 0
	for off < len(raw) {
		if len(raw)-off < 8 {
			truncated = true
			break
		}
		idlen := int(raw[off])
		if idlen == 0 {
			// an identifier length of zero cannot be an entry; stop here
			truncated = true
			break
		}
		e := PathEntry{
			Index:  len(tab) + 1,
			IDLen:  idlen,
			ExtLen: raw[off+1],
			LBA:    order.Uint32(raw[off+2:]),
			Parent: order.Uint16(raw[off+6:]),
			Offset: start + int64(off),
		}
		end := off + 8 + idlen
		if end > len(raw) {
			truncated = true
			break
		}
		e.IDRaw = append([]byte(nil), raw[off+8:end]...)
		if idlen%2 == 1 {
			end++
		}
		tab = append(tab, e)
		off = end
	}
	if off > len(raw) {
		// the pad byte of the last entry lies beyond the declared size
		truncated = true
	}
	return raw, tab, off, truncated
}

// FileMap returns all files of a hierarchy keyed by Path. When a path occurs
// more than once the first occurrence (in directory BFS / record order) wins.
func (h *Hierarchy) FileMap() map[string]*File {
	m := map[string]*File{}
	if h == nil {
		return m
	}
	for _, d := range h.Dirs {
		for _, f := range d.Files {
			if _, dup := m[f.Path]; !dup {
				m[f.Path] = f
			}
		}
	}
	return m
}

// DirPaths returns all directory paths (root as "/"), sorted.
func (h *Hierarchy) DirPaths() []string {
	if h == nil {
		return nil
	}
	out := make([]string, 0, len(h.Dirs))
	for _, d := range h.Dirs {
		out = append(out, d.Path)
	}
	sort.Strings(out)
	return out
}

// ReadFileAt fills p with the file bytes [off, off+len(p)). The file content
// is the concatenation of its extents, each Len bytes starting at LBA*2048.
func ReadFileAt(src Source, f *File, off int64, p []byte) error {
	if f == nil {
		return errors.New("iso: nil file")
	}
	if off < 0 {
		return errors.New("iso: negative offset")
	}
	if off+int64(len(p)) > f.Size {
		return fmt.Errorf("iso: read [%d,%d) beyond file %q size %d: %w", off, off+int64(len(p)), f.Path, f.Size, io.ErrUnexpectedEOF)
	}
	base := int64(0) // file offset of the current extent
	for _, e := range f.Extents {
		if len(p) == 0 {
			return nil
		}
		elen := int64(e.Len)
		if off >= base+elen {
			base += elen
			continue
		}
		in := off - base
		n := elen - in
		if n > int64(len(p)) {
			n = int64(len(p))
		}
		got, err := safeReadAt(src, p[:n], int64(e.LBA)*SectorSize+in)
		if err != nil {
			return fmt.Errorf("iso: file %q extent LBA %d +%d: read %d of %d bytes: %w", f.Path, e.LBA, in, got, n, err)
		}
		p = p[n:]
		off += n
		base += elen
	}
	if len(p) != 0 {
		return fmt.Errorf("iso: file %q: extents exhausted with %d bytes missing: %w", f.Path, len(p), io.ErrUnexpectedEOF)
	}
	return nil
}
