package iso

import (
	"bytes"
	"encoding/binary"
	"fmt"
	"sort"
	"strings"
)

// ValidateOpts describes the source tree for the checks that need it.
type ValidateOpts struct {
	AnnouncedSize int64          // size reported by Stat/OPEN (V01); 0 = skip that comparison
	PS3           bool           // check V11
	TitleID       string         // e.g. "BLES12345" -> product code "BLES-12345"
	ChildCount    map[string]int // directory path (exact source path, "/" root) -> number of children; nil = skip count check
}

type namedHier struct {
	name string
	h    *Hierarchy
}

// srange is a run of whole sectors occupied by one structure.
type srange struct {
	start, n int64 // in sectors
	what     string
}

func (r srange) end() int64 { return r.start + r.n }

type validator struct {
	src        Source
	img        *Image
	o          ValidateOpts
	iss        issueList
	hs         []namedHier
	volSectors int64 // sectors of the volume: min(volume space size, image sectors)
	ranges     []srange
	merged     []srange // coverage: sorted, merged
}

// Validate checks exactly the invariants V01..V11 on an already-read image.
func Validate(src Source, img *Image, o ValidateOpts) (out []Issue) {
	v := &validator{src: src, img: img, o: o}
	defer func() {
		if p := recover(); p != nil {
			v.iss.add("R-panic", "validator panicked: %v", p)
		}
		out = v.iss.list
	}()
	if img == nil {
		v.iss.add("V03", "no image")
		return nil
	}
	if img.Primary != nil {
		v.hs = append(v.hs, namedHier{"primary", img.Primary})
	}
	if img.Joliet != nil {
		v.hs = append(v.hs, namedHier{"joliet", img.Joliet})
	}
	v.volSectors = img.Size / SectorSize
	for _, nh := range v.hs {
		if s := int64(nh.h.VD.SpaceLE); s > 0 && s < v.volSectors {
			v.volSectors = s
		}
		break
	}

	v.v01()
	v.v02()
	v.v03()
	v.v04()
	for _, nh := range v.hs {
		v.v05(nh)
		v.v06(nh)
		v.v07(nh)
		v.v08(nh)
	}
	v.v09()
	v.v10()
	if o.PS3 {
		v.v11()
	}
	return nil
}

// ---------------------------------------------------------------- V01..V03

func (v *validator) v01() {
	if v.img.Size%SectorSize != 0 {
		v.iss.add("V01", "image length %d is not a multiple of 2048 (remainder %d)", v.img.Size, v.img.Size%SectorSize)
	}
	if v.o.AnnouncedSize != 0 && v.img.Size != v.o.AnnouncedSize {
		v.iss.add("V01", "image length %d differs from announced size %d", v.img.Size, v.o.AnnouncedSize)
	}
}

func (v *validator) v02() {
	for _, nh := range v.hs {
		vd := nh.h.VD
		if int64(vd.SpaceLE)*SectorSize != v.img.Size {
			v.iss.add("V02", "%s descriptor (sector %d): volume space size LE %d x 2048 = %d, image length %d", nh.name, vd.Sector, vd.SpaceLE, int64(vd.SpaceLE)*SectorSize, v.img.Size)
		}
		if vd.SpaceBE != vd.SpaceLE && int64(vd.SpaceBE)*SectorSize != v.img.Size {
			v.iss.add("V02", "%s descriptor (sector %d): volume space size BE %d x 2048 = %d, image length %d", nh.name, vd.Sector, vd.SpaceBE, int64(vd.SpaceBE)*SectorSize, v.img.Size)
		}
	}
}

func (v *validator) v03() {
	ds := v.img.Descs
	want := []struct {
		typ  byte
		name string
	}{{1, "primary"}, {2, "supplementary (Joliet)"}, {255, "terminator"}}
	for i, w := range want {
		sector := 16 + i
		if i >= len(ds) {
			v.iss.add("V03", "sector %d: no descriptor read, want type %d (%s)", sector, w.typ, w.name)
			continue
		}
		d := ds[i]
		if d.Type != w.typ {
			v.iss.add("V03", "sector %d: descriptor type %d, want %d (%s)", sector, d.Type, w.typ, w.name)
		}
		if (d.Type == 1 || d.Type == 2 || d.Type == 255) && d.Version != 1 {
			// ECMA-119 8.1.3 / 8.3.3 / 8.4.3 / 8.5.3: the version of these descriptors is 1 (readers that
			// validate the set terminator, e.g. libarchive, otherwise do not recognise the volume at all)
			v.iss.add("V03", "sector %d: type %d descriptor version %d, want 1", sector, d.Type, d.Version)
		}
		if i == 1 && d.Type == 2 && !isJolietEscape(d.Escape) {
			v.iss.add("V03", "sector %d: supplementary descriptor escape sequences start with % x, want 25 2f 40 / 43 / 45 (%%/@, %%/C, %%/E)", sector, d.Escape[:3])
		}
	}
	for _, d := range ds {
		if d.ID != "CD001" {
			v.iss.add("V03", "sector %d: standard identifier %q, want \"CD001\"", d.Sector, d.ID)
		}
		if d.Sector >= 19 && (d.Type == 1 || d.Type == 2) && d.Version != 1 {
			v.iss.add("V03", "sector %d: type %d descriptor version %d, want 1", d.Sector, d.Type, d.Version)
		}
	}
}

// ---------------------------------------------------------------- V04

func (v *validator) recBothEndian(where string, r *Record) {
	if r.bad {
		return
	}
	if r.LBA != r.LBAbe {
		v.iss.add("V04", "%s record at offset %d (id % x): extent location LE %d != BE %d", where, r.Offset, r.IDRaw, r.LBA, r.LBAbe)
	}
	if r.Len != r.LenBE {
		v.iss.add("V04", "%s record at offset %d (id % x): data length LE %d != BE %d", where, r.Offset, r.IDRaw, r.Len, r.LenBE)
	}
	if r.SeqLE != r.SeqBE {
		v.iss.add("V04", "%s record at offset %d (id % x): volume sequence number LE %d != BE %d", where, r.Offset, r.IDRaw, r.SeqLE, r.SeqBE)
	}
}

func (v *validator) v04() {
	for _, d := range v.img.Descs {
		if d.Type != 1 && d.Type != 2 {
			continue
		}
		w := fmt.Sprintf("descriptor type %d at sector %d", d.Type, d.Sector)
		if d.SpaceLE != d.SpaceBE {
			v.iss.add("V04", "%s: volume space size LE %d != BE %d", w, d.SpaceLE, d.SpaceBE)
		}
		if d.SetSizeLE != d.SetSizeBE {
			v.iss.add("V04", "%s: volume set size LE %d != BE %d", w, d.SetSizeLE, d.SetSizeBE)
		}
		if d.SeqLE != d.SeqBE {
			v.iss.add("V04", "%s: volume sequence number LE %d != BE %d", w, d.SeqLE, d.SeqBE)
		}
		if d.BlockLE != d.BlockBE {
			v.iss.add("V04", "%s: logical block size LE %d != BE %d", w, d.BlockLE, d.BlockBE)
		}
		if d.BlockLE != SectorSize {
			v.iss.add("V04", "%s: logical block size %d, want 2048", w, d.BlockLE)
		}
		if d.PTSizeLE != d.PTSizeBE {
			v.iss.add("V04", "%s: path table size LE %d != BE %d", w, d.PTSizeLE, d.PTSizeBE)
		}
		v.recBothEndian(w+" root", &d.Root)
	}
	for _, nh := range v.hs {
		for _, d := range nh.h.Dirs {
			w := fmt.Sprintf("%s directory %q", nh.name, d.Path)
			for i := range d.Records {
				v.recBothEndian(w, &d.Records[i])
			}
		}
	}
}

// ---------------------------------------------------------------- V05

// dirTail describes non-zero bytes after the last record of a directory sector.
type dirTail struct {
	sector  int   // sector index inside the extent
	from    int64 // absolute offset where the zero tail should begin
	nonzero int64 // absolute offset of the first non-zero byte
	val     byte
}

// dirTails finds, for every sector of the directory extent, non-zero bytes
// after the end of the last record touching that sector.
func dirTails(d *Dir) []dirTail {
	n := int64(len(d.raw))
	if int64(d.Len) < n {
		n = int64(d.Len)
	}
	if n <= 0 {
		return nil
	}
	base := int64(d.LBA) * SectorSize
	nsec := int((n + SectorSize - 1) / SectorSize)
	ends := make([]int64, nsec)
	for i := range d.Records {
		r := &d.Records[i]
		rel := r.Offset - base
		if rel < 0 {
			continue
		}
		s := int(rel / SectorSize)
		e := rel%SectorSize + int64(r.RecLen)
		for e > SectorSize && s < nsec {
			ends[s] = SectorSize
			s++
			e -= SectorSize
		}
		if s < nsec && e > ends[s] {
			ends[s] = e
		}
	}
	var out []dirTail
	for s := 0; s < nsec; s++ {
		lo := int64(s)*SectorSize + ends[s]
		hi := int64(s+1) * SectorSize
		if hi > n {
			hi = n
		}
		for p := lo; p < hi; p++ {
			if d.raw[p] != 0 {
				out = append(out, dirTail{sector: s, from: base + lo, nonzero: base + p, val: d.raw[p]})
				break
			}
		}
	}
	return out
}

func (v *validator) v05(nh namedHier) {
	h := nh.h
	// pairing of primary directories with Joliet directories so that ChildCount, which is keyed by
	// source paths, can be applied to the primary hierarchy as well. The two hierarchies need not list
	// their records in the same order, so children are paired by name (primary = upper-cased Joliet
	// name) where that is unambiguous; directories that cannot be paired (mangled names) are covered by
	// the order-independent comparison of the multiset of child counts below.
	var pair map[*Dir]*Dir
	if v.o.ChildCount != nil && !h.joliet && v.img.Joliet != nil && h.Root != nil && v.img.Joliet.Root != nil {
		pair = map[*Dir]*Dir{h.Root: v.img.Joliet.Root}
		base := func(p string) string {
			if i := strings.LastIndexByte(p, '/'); i >= 0 {
				return p[i+1:]
			}
			return p
		}
		for _, d := range h.Dirs {
			j := pair[d]
			if j == nil {
				continue
			}
			byUpper := map[string][]*Dir{}
			for _, jc := range j.Subdirs {
				k := strings.ToUpper(base(jc.Path))
				byUpper[k] = append(byUpper[k], jc)
			}
			matched := 0
			for _, c := range d.Subdirs {
				if m := byUpper[strings.ToUpper(base(c.Path))]; len(m) == 1 {
					pair[c] = m[0]
					matched++
				}
			}
		}
	}

	var allCounts []int
	unresolved := 0
	defer func() {
		// order- and name-independent: the child counts of all directories of the hierarchy, as a
		// multiset, are those of the source directories
		if v.o.ChildCount == nil || unresolved == 0 || len(allCounts) != len(v.o.ChildCount) {
			return
		}
		var want []int
		for _, n := range v.o.ChildCount {
			want = append(want, n)
		}
		sort.Ints(want)
		sort.Ints(allCounts)
		for i := range want {
			if want[i] != allCounts[i] {
				v.iss.add("V05", "%s hierarchy: child counts of its %d directories (sorted) %v differ from those of the source directories %v", nh.name, len(allCounts), allCounts, want)
				return
			}
		}
	}()
	for _, d := range h.Dirs {
		w := fmt.Sprintf("%s directory %q (LBA %d)", nh.name, d.Path, d.LBA)
		children := 0
		var prev *Record
		for i := range d.Records {
			r := &d.Records[i]
			inSec := r.Offset % SectorSize
			if r.bad {
				if r.RecLen < 33 {
					v.iss.add("V05", "%s: record #%d at offset %d has length byte %d, want >= 34", w, i, r.Offset, r.RecLen)
				} else {
					v.iss.add("V05", "%s: record #%d at offset %d (length %d) runs past the end of the directory extent (length %d)", w, i, r.Offset, r.RecLen, d.Len)
				}
				prev = nil
				continue
			}
			pad := 0
			if r.IDLen%2 == 0 {
				pad = 1
			}
			if need := 33 + r.IDLen + pad; r.RecLen < need {
				v.iss.add("V05", "%s: record #%d at offset %d (id % x): length byte %d < 33 + idlen %d + pad %d = %d", w, i, r.Offset, r.IDRaw, r.RecLen, r.IDLen, pad, need)
			}
			if r.RecLen%2 != 0 {
				v.iss.add("V05", "%s: record #%d at offset %d (id % x): length byte %d is odd", w, i, r.Offset, r.IDRaw, r.RecLen)
			}
			if inSec+int64(r.RecLen) > SectorSize {
				v.iss.add("V05", "%s: record #%d at offset %d (id % x) starts at in-sector offset %d with length %d and straddles the sector boundary by %d bytes", w, i, r.Offset, r.IDRaw, inSec, r.RecLen, inSec+int64(r.RecLen)-SectorSize)
			}
			if isDot(r) || isDotDot(r) {
				continue
			}
			cont := prev != nil && prev.Flags&0x80 != 0 && bytes.Equal(prev.IDRaw, r.IDRaw)
			if !cont {
				children++
			}
			prev = r
		}
		for _, t := range dirTails(d) {
			v.iss.add("V05", "%s: sector %d of the extent: byte 0x%02x at offset %d after the last record (records end at offset %d)", w, t.sector, t.val, t.nonzero, t.from)
		}
		if v.o.ChildCount != nil {
			key, ok := "", false
			if h.joliet {
				key = d.Path
				_, ok = v.o.ChildCount[key]
			} else {
				if j := pair[d]; j != nil {
					key = j.Path
					_, ok = v.o.ChildCount[key]
				}
				if !ok {
					key = d.Path
					_, ok = v.o.ChildCount[key]
				}
			}
			allCounts = append(allCounts, children)
			if !ok {
				unresolved++
			}
			if ok {
				if want := v.o.ChildCount[key]; children != want {
					v.iss.add("V05", "%s: %d child records (%d records in total), source directory %q has %d children", w, children, len(d.Records), key, want)
				}
			}
		}
	}
}

// ---------------------------------------------------------------- V06, V07

func (v *validator) v06(nh namedHier) {
	for _, d := range nh.h.Dirs {
		w := fmt.Sprintf("%s directory %q", nh.name, d.Path)
		if len(d.Records) < 2 {
			v.iss.add("V06", "%s (LBA %d, length %d): %d records, want at least \".\" and \"..\"", w, d.LBA, d.Len, len(d.Records))
		}
		if len(d.Records) >= 1 {
			r := &d.Records[0]
			switch {
			case !isDot(r):
				v.iss.add("V06", "%s: first record at offset %d has identifier % x (idlen %d), want 00 (\".\")", w, r.Offset, r.IDRaw, r.IDLen)
			case r.LBA != d.LBA || r.Len != d.Len:
				link := "its parent's child record"
				if d.Parent == nil {
					link = "the descriptor's root record"
				}
				v.iss.add("V06", "%s: \".\" record at offset %d names extent (LBA %d, length %d), %s names (LBA %d, length %d)", w, r.Offset, r.LBA, r.Len, link, d.LBA, d.Len)
			}
		}
		if len(d.Records) >= 2 {
			r := &d.Records[1]
			p := d.Parent
			if p == nil {
				p = d
			}
			wantLBA, wantLen := p.LBA, p.Len
			if len(p.Records) > 0 && isDot(&p.Records[0]) {
				wantLBA, wantLen = p.Records[0].LBA, p.Records[0].Len
			}
			switch {
			case !isDotDot(r):
				v.iss.add("V06", "%s: second record at offset %d has identifier % x (idlen %d), want 01 (\"..\")", w, r.Offset, r.IDRaw, r.IDLen)
			case r.LBA != wantLBA || r.Len != wantLen:
				v.iss.add("V06", "%s: \"..\" record at offset %d names extent (LBA %d, length %d), parent %q \".\" is (LBA %d, length %d)", w, r.Offset, r.LBA, r.Len, p.Path, wantLBA, wantLen)
			}
		}
	}
}

func (v *validator) v07(nh namedHier) {
	for _, d := range nh.h.Dirs {
		w := fmt.Sprintf("%s directory %q", nh.name, d.Path)
		if d.Len == 0 {
			v.iss.add("V07", "%s: extent (LBA %d) has length 0", w, d.LBA)
			continue
		}
		if d.Len%SectorSize != 0 {
			v.iss.add("V07", "%s: extent (LBA %d) length %d is not a multiple of 2048", w, d.LBA, d.Len)
		}
		secs := (int64(d.Len) + SectorSize - 1) / SectorSize
		if int64(d.LBA)+secs > v.volSectors {
			v.iss.add("V07", "%s: extent sectors [%d,%d) not inside the volume of %d sectors", w, d.LBA, int64(d.LBA)+secs, v.volSectors)
		}
	}
}

// ---------------------------------------------------------------- V08

func (v *validator) v08(nh namedHier) {
	h := nh.h
	vd := h.VD
	size := int(declaredPTSize(vd))
	w := nh.name + " path tables"

	check := func(name string, lba uint32, raw []byte, consumed int, truncated bool) {
		if len(raw) != size {
			v.iss.add("V08", "%s: %s table at LBA %d: %d bytes readable, declared size %d", w, name, lba, len(raw), size)
			return
		}
		if consumed != size || truncated {
			v.iss.add("V08", "%s: %s table at LBA %d: entries decode to %d bytes, declared size %d", w, name, lba, consumed, size)
		}
	}
	check("L", vd.LTable, h.LRaw, h.lConsumed, h.lTruncated)
	check("M", vd.MTable, h.MRaw, h.mConsumed, h.mTruncated)

	if len(h.LTab) != len(h.MTab) {
		v.iss.add("V08", "%s: L table has %d entries, M table has %d", w, len(h.LTab), len(h.MTab))
	}
	for i := 0; i < len(h.LTab) && i < len(h.MTab); i++ {
		l, m := h.LTab[i], h.MTab[i]
		if l.IDLen != m.IDLen || l.ExtLen != m.ExtLen || l.LBA != m.LBA || l.Parent != m.Parent || !bytes.Equal(l.IDRaw, m.IDRaw) {
			v.iss.add("V08", "%s: entry %d differs: L at offset %d {idlen %d, ext %d, LBA %d, parent %d, id % x}, M at offset %d {idlen %d, ext %d, LBA %d, parent %d, id % x}",
				w, i+1, l.Offset, l.IDLen, l.ExtLen, l.LBA, l.Parent, l.IDRaw, m.Offset, m.IDLen, m.ExtLen, m.LBA, m.Parent, m.IDRaw)
		}
	}

	tab, tname := h.LTab, "L"
	if len(tab) == 0 {
		tab, tname = h.MTab, "M"
	}
	if len(tab) != len(h.Dirs) {
		v.iss.add("V08", "%s: %s table has %d entries, hierarchy has %d directories", w, tname, len(tab), len(h.Dirs))
	}
	if len(tab) == 0 {
		return
	}
	if e := tab[0]; e.Parent != 1 || e.IDLen != 1 || len(e.IDRaw) != 1 || e.IDRaw[0] != 0 {
		v.iss.add("V08", "%s: entry 1 at offset %d is {idlen %d, id % x, parent %d}, want the root {idlen 1, id 00, parent 1}", w, e.Offset, e.IDLen, e.IDRaw, e.Parent)
	}

	byLBA := map[uint32][]*Dir{}
	for _, d := range h.Dirs {
		byLBA[d.LBA] = append(byLBA[d.LBA], d)
	}
	linkID := func(d *Dir) []byte {
		if d.Parent == nil {
			return []byte{0}
		}
		return d.linkID
	}
	entryDir := make([]*Dir, len(tab))
	claimed := map[*Dir]int{}
	for i, e := range tab {
		cands := byLBA[e.LBA]
		if len(cands) == 0 {
			v.iss.add("V08", "%s: entry %d at offset %d (id % x): LBA %d is not the extent of any directory of this hierarchy", w, e.Index, e.Offset, e.IDRaw, e.LBA)
			continue
		}
		var pick *Dir
		for _, c := range cands {
			if claimed[c] == 0 && bytes.Equal(linkID(c), e.IDRaw) {
				pick = c
				break
			}
		}
		if pick == nil {
			for _, c := range cands {
				if claimed[c] == 0 {
					pick = c
					break
				}
			}
		}
		if pick == nil {
			pick = cands[0]
			v.iss.add("V08", "%s: entry %d at offset %d (id % x, LBA %d) duplicates entry %d for directory %q", w, e.Index, e.Offset, e.IDRaw, e.LBA, claimed[pick], pick.Path)
		} else {
			claimed[pick] = e.Index
		}
		entryDir[i] = pick
	}
	for _, d := range h.Dirs {
		if claimed[d] == 0 {
			v.iss.add("V08", "%s: directory %q (LBA %d) has no entry in the %s table", w, d.Path, d.LBA, tname)
		}
	}
	for i, e := range tab {
		d := entryDir[i]
		if d == nil {
			continue
		}
		if want := linkID(d); !bytes.Equal(want, e.IDRaw) || e.IDLen != len(want) {
			v.iss.add("V08", "%s: entry %d at offset %d for directory %q: identifier % x (idlen %d), linking directory record has % x (idlen %d)", w, e.Index, e.Offset, d.Path, e.IDRaw, e.IDLen, want, len(want))
		}
		if i == 0 {
			continue // entry 1 checked above
		}
		if e.Parent < 1 || int(e.Parent) > len(tab) {
			v.iss.add("V08", "%s: entry %d at offset %d for directory %q: parent number %d outside 1..%d", w, e.Index, e.Offset, d.Path, e.Parent, len(tab))
			continue
		}
		pd := entryDir[e.Parent-1]
		if pd != d.Parent {
			got, wantP, wantN := "<no directory>", "<none>", 0
			if pd != nil {
				got = pd.Path
			}
			if d.Parent != nil {
				wantP, wantN = d.Parent.Path, claimed[d.Parent]
			}
			v.iss.add("V08", "%s: entry %d at offset %d for directory %q: parent number %d names %q, want entry %d (%q)", w, e.Index, e.Offset, d.Path, e.Parent, got, wantN, wantP)
		}
	}
}

// ---------------------------------------------------------------- V09

func sectorsOf(n int64) int64 { return (n + SectorSize - 1) / SectorSize }

func (v *validator) collectRanges() {
	add := func(start, n int64, what string) {
		if n <= 0 {
			return
		}
		v.ranges = append(v.ranges, srange{start, n, what})
	}
	for _, d := range v.img.Descs {
		add(d.Sector, 1, fmt.Sprintf("volume descriptor type %d at sector %d", d.Type, d.Sector))
	}
	type key struct{ lba, n int64 }
	primaryFiles := map[key]bool{}
	for _, nh := range v.hs {
		h := nh.h
		if size := int64(declaredPTSize(h.VD)); size > 0 {
			add(int64(h.VD.LTable), sectorsOf(size), nh.name+" L path table")
			add(int64(h.VD.MTable), sectorsOf(size), nh.name+" M path table")
		}
		for _, d := range h.Dirs {
			add(int64(d.LBA), sectorsOf(int64(d.Len)), fmt.Sprintf("%s directory %q", nh.name, d.Path))
		}
		for _, d := range h.Dirs {
			for _, f := range d.Files {
				for i, e := range f.Extents {
					if e.Len == 0 {
						continue
					}
					k := key{int64(e.LBA), sectorsOf(int64(e.Len))}
					if h.joliet {
						if primaryFiles[k] {
							continue // same file seen through the primary hierarchy
						}
					} else {
						primaryFiles[k] = true
					}
					add(k.lba, k.n, fmt.Sprintf("%s file %q extent #%d", nh.name, f.Path, i))
				}
			}
		}
	}
	sort.SliceStable(v.ranges, func(i, j int) bool { return v.ranges[i].start < v.ranges[j].start })
	for _, r := range v.ranges {
		if k := len(v.merged); k > 0 && r.start <= v.merged[k-1].end() {
			if r.end() > v.merged[k-1].end() {
				v.merged[k-1].n = r.end() - v.merged[k-1].start
			}
			continue
		}
		v.merged = append(v.merged, srange{start: r.start, n: r.n})
	}
}

func (v *validator) v09() {
	v.collectRanges()
	for _, r := range v.ranges {
		if r.end() > v.volSectors {
			v.iss.add("V09", "%s: sectors [%d,%d) not inside the volume of %d sectors", r.what, r.start, r.end(), v.volSectors)
		}
	}
	var cur *srange
	for i := range v.ranges {
		r := &v.ranges[i]
		if cur != nil && r.start < cur.end() {
			v.iss.add("V09", "%s sectors [%d,%d) overlaps %s sectors [%d,%d)", r.what, r.start, r.end(), cur.what, cur.start, cur.end())
		}
		if cur == nil || r.end() > cur.end() {
			cur = r
		}
	}
}

// ---------------------------------------------------------------- V10

// zeroBytes checks that image bytes [start,end) are zero.
func (v *validator) zeroBytes(start, end int64, what string) {
	if end > v.img.Size {
		end = v.img.Size
	}
	if start < 0 || start >= end || v.iss.n["V10"] >= issueCap {
		return
	}
	const chunk = 1 << 20
	n := end - start
	if n > chunk {
		n = chunk
	}
	buf := make([]byte, n)
	for off := start; off < end; {
		b := buf
		if int64(len(b)) > end-off {
			b = b[:end-off]
		}
		got, err := safeReadAt(v.src, b, off)
		for i := 0; i < got; i++ {
			if b[i] != 0 {
				v.iss.add("V10", "%s [%d,%d): byte 0x%02x at offset %d (sector %d +%d), want 0", what, start, end, b[i], off+int64(i), (off+int64(i))/SectorSize, (off+int64(i))%SectorSize)
				return
			}
		}
		if err != nil {
			v.iss.add("V10", "%s [%d,%d): cannot be verified, read at offset %d failed after %d bytes: %v", what, start, end, off, got, err)
			return
		}
		off += int64(len(b))
	}
}

// zeroGap checks the parts of sectors [start,end) that no structure covers.
func (v *validator) zeroGap(start, end int64, what string) {
	pos := start
	for _, m := range v.merged {
		if m.end() <= pos {
			continue
		}
		if m.start >= end {
			break
		}
		if m.start > pos {
			v.zeroBytes(pos*SectorSize, m.start*SectorSize, what)
		}
		pos = m.end()
	}
	if pos < end {
		v.zeroBytes(pos*SectorSize, end*SectorSize, what)
	}
}

func (v *validator) v10() {
	imgSectors := sectorsOf(v.img.Size)
	// system area
	first := int64(0)
	if v.o.PS3 {
		first = 2
	}
	v.zeroGap(first, 16, "system area")

	// between the terminator and the first path table
	if n := len(v.img.Descs); n > 0 && v.img.Descs[n-1].Type == 255 {
		after := v.img.Descs[n-1].Sector + 1
		firstPT := int64(-1)
		for _, nh := range v.hs {
			for _, l := range []uint32{nh.h.VD.LTable, nh.h.VD.MTable} {
				if l != 0 && (firstPT < 0 || int64(l) < firstPT) {
					firstPT = int64(l)
				}
			}
		}
		if firstPT > after {
			if firstPT > imgSectors {
				firstPT = imgSectors
			}
			v.zeroGap(after, firstPT, "area between the terminator and the first path table")
		}
	}

	// tails of path tables
	for _, nh := range v.hs {
		size := int64(declaredPTSize(nh.h.VD))
		if size == 0 || size%SectorSize == 0 {
			continue
		}
		for _, t := range []struct {
			name string
			lba  uint32
		}{{"L", nh.h.VD.LTable}, {"M", nh.h.VD.MTable}} {
			if t.lba == 0 {
				continue
			}
			s := int64(t.lba)*SectorSize + size
			v.zeroBytes(s, (int64(t.lba)+sectorsOf(size))*SectorSize, fmt.Sprintf("%s %s path table tail", nh.name, t.name))
		}
	}

	// tails of directory sectors
	for _, nh := range v.hs {
		for _, d := range nh.h.Dirs {
			for _, t := range dirTails(d) {
				v.iss.add("V10", "%s directory %q sector %d tail [%d,%d): byte 0x%02x at offset %d, want 0", nh.name, d.Path, t.sector, t.from, (t.from/SectorSize+1)*SectorSize, t.val, t.nonzero)
			}
		}
	}

	// padding after file data
	seen := map[Extent]bool{}
	for _, nh := range v.hs {
		for _, d := range nh.h.Dirs {
			for _, f := range d.Files {
				for i, e := range f.Extents {
					if e.Len%SectorSize == 0 || seen[e] {
						continue
					}
					seen[e] = true
					s := int64(e.LBA)*SectorSize + int64(e.Len)
					v.zeroBytes(s, (s/SectorSize+1)*SectorSize, fmt.Sprintf("%s file %q extent #%d (LBA %d, length %d) padding", nh.name, f.Path, i, e.LBA, e.Len))
				}
			}
		}
	}

	// trailing area
	last := int64(16)
	if k := len(v.merged); k > 0 && v.merged[k-1].end() > last {
		last = v.merged[k-1].end()
	}
	if last < imgSectors {
		v.zeroBytes(last*SectorSize, v.img.Size, fmt.Sprintf("trailing area after the last structure (sector %d) up to the image end", last))
	}
}

// ---------------------------------------------------------------- V11

func spaceOrNUL(b []byte) (int, bool) {
	for i, c := range b {
		if c != ' ' && c != 0 {
			return i, false
		}
	}
	return 0, true
}

func (v *validator) v11() {
	buf := make([]byte, 2*SectorSize)
	if got, err := safeReadAt(v.src, buf, 0); err != nil {
		v.iss.add("V11", "sectors 0-1 unreadable (%d of 4096 bytes): %v", got, err)
		return
	}
	s0, s1 := buf[:SectorSize], buf[SectorSize:]
	sectors := v.img.Size / SectorSize
	want := [4]uint32{1, 0, 0, uint32(sectors - 1)}
	names := [4]string{"range count", "reserved word", "first sector", "last sector"}
	for i, w := range want {
		if g := binary.BigEndian.Uint32(s0[4*i:]); g != w {
			v.iss.add("V11", "sector 0 word %d (%s, offset %d): got %d, want %d", i, names[i], 4*i, g, w)
		}
	}
	for i := 16; i < SectorSize; i++ {
		if s0[i] != 0 {
			v.iss.add("V11", "sector 0: byte 0x%02x at offset %d after the range entry, want 0", s0[i], i)
			break
		}
	}
	const console = "PlayStation3"
	if !bytes.HasPrefix(s1, []byte(console)) {
		v.iss.add("V11", "sector 1 bytes 0..12: got %q, want %q", s1[:len(console)], console)
	} else if i, ok := spaceOrNUL(s1[len(console):16]); !ok {
		v.iss.add("V11", "sector 1 console id padding: byte 0x%02x at offset %d, want space or NUL", s1[len(console)+i], len(console)+i)
	}
	id := v.o.TitleID
	code := id
	if len(id) > 4 {
		code = id[:4] + "-" + id[4:]
	}
	if len(code) > 32 {
		v.iss.add("V11", "title id %q gives a product code longer than 32 bytes", id)
		return
	}
	if !bytes.Equal(s1[16:16+len(code)], []byte(code)) {
		v.iss.add("V11", "sector 1 bytes 16..%d: got product code %q, want %q", 16+len(code), s1[16:16+len(code)], code)
	} else if i, ok := spaceOrNUL(s1[16+len(code) : 48]); !ok {
		v.iss.add("V11", "sector 1 product code padding: byte 0x%02x at offset %d, want space or NUL", s1[16+len(code)+i], 16+len(code)+i)
	}
}
