package iso

import (
	"bytes"
	"encoding/binary"
	"errors"
	"io"
	"math/rand"
	"os"
	"sort"
	"strings"
	"testing"
	"unicode/utf16"
)

// ---------------------------------------------------------------- helpers

type memSrc []byte

func (m memSrc) ReadAt(p []byte, off int64) (int, error) {
	if off < 0 || off >= int64(len(m)) {
		return 0, io.EOF
	}
	n := copy(p, m[off:])
	if n < len(p) {
		return n, io.EOF
	}
	return n, nil
}

func ids(iss []Issue) []string {
	set := map[string]bool{}
	for _, i := range iss {
		set[i.ID] = true
	}
	var out []string
	for k := range set {
		out = append(out, k)
	}
	sort.Strings(out)
	return out
}

func logIssues(t *testing.T, prefix string, iss []Issue) {
	t.Helper()
	for _, i := range iss {
		t.Logf("%s%s", prefix, i)
	}
}

func findRec(t *testing.T, d *Dir, id []byte) *Record {
	t.Helper()
	for i := range d.Records {
		if bytes.Equal(d.Records[i].IDRaw, id) {
			return &d.Records[i]
		}
	}
	t.Fatalf("record % x not found in %q", id, d.Path)
	return nil
}

func findDir(t *testing.T, h *Hierarchy, path string) *Dir {
	t.Helper()
	for _, d := range h.Dirs {
		if d.Path == path {
			return d
		}
	}
	t.Fatalf("directory %q not found", path)
	return nil
}

// ---------------------------------------------------------------- in-test ISO writer

func both32(v uint32) []byte {
	b := make([]byte, 8)
	binary.LittleEndian.PutUint32(b, v)
	binary.BigEndian.PutUint32(b[4:], v)
	return b
}

func both16(v uint16) []byte {
	b := make([]byte, 4)
	binary.LittleEndian.PutUint16(b, v)
	binary.BigEndian.PutUint16(b[2:], v)
	return b
}

func ucs2(s string) []byte {
	u := utf16.Encode([]rune(s))
	b := make([]byte, 2*len(u))
	for i, c := range u {
		binary.BigEndian.PutUint16(b[2*i:], c)
	}
	return b
}

// dirRecord builds an ECMA-119 9.1 directory record.
func dirRecord(lba, length uint32, flags byte, id []byte, sysUse int) []byte {
	var b []byte
	b = append(b, 0, 0) // length (patched), extended attribute record length
	b = append(b, both32(lba)...)
	b = append(b, both32(length)...)
	b = append(b, 126, 9, 29, 12, 0, 0, 0) // recording date and time
	b = append(b, flags, 0, 0)             // flags, file unit size, interleave gap
	b = append(b, both16(1)...)            // volume sequence number
	b = append(b, byte(len(id)))
	b = append(b, id...)
	if len(id)%2 == 0 {
		b = append(b, 0)
	}
	for i := 0; i < sysUse; i++ {
		b = append(b, 'S')
	}
	b[0] = byte(len(b))
	return b
}

// layoutDir places records into whole sectors. Without straddle a record that
// does not fit is moved to the next sector (ECMA-119 6.8.1.1).
func layoutDir(recs [][]byte, straddle bool) []byte {
	var out []byte
	for _, r := range recs {
		if room := SectorSize - len(out)%SectorSize; !straddle && len(r) > room {
			out = append(out, make([]byte, room)...)
		}
		out = append(out, r...)
	}
	if rem := len(out) % SectorSize; rem != 0 {
		out = append(out, make([]byte, SectorSize-rem)...)
	}
	return out
}

func ptEntry(order binary.ByteOrder, id []byte, lba uint32, parent uint16) []byte {
	b := make([]byte, 8)
	b[0] = byte(len(id))
	order.PutUint32(b[2:], lba)
	order.PutUint16(b[6:], parent)
	b = append(b, id...)
	if len(id)%2 == 1 {
		b = append(b, 0)
	}
	return b
}

func padStr(s string, n int) []byte {
	b := bytes.Repeat([]byte{' '}, n)
	copy(b, s)
	return b
}

func volDesc(typ byte, escape string, space, ptSize, lLoc, mLoc uint32, root []byte) []byte {
	b := make([]byte, 0, SectorSize)
	b = append(b, typ)
	b = append(b, "CD001"...)
	b = append(b, 1, 0)
	b = append(b, padStr("TESTSYS", 32)...)
	b = append(b, padStr("TESTVOL", 32)...)
	b = append(b, make([]byte, 8)...)
	b = append(b, both32(space)...)
	esc := make([]byte, 32)
	copy(esc, escape)
	b = append(b, esc...)
	b = append(b, both16(1)...)
	b = append(b, both16(1)...)
	b = append(b, both16(SectorSize)...)
	b = append(b, both32(ptSize)...)
	l := make([]byte, 8)
	binary.LittleEndian.PutUint32(l, lLoc)
	b = append(b, l...)
	m := make([]byte, 8)
	binary.BigEndian.PutUint32(m, mLoc)
	b = append(b, m...)
	if len(b) != 156 || len(root) != 34 {
		panic("descriptor layout")
	}
	b = append(b, root...)
	b = append(b, bytes.Repeat([]byte{' '}, 128*4+37*3)...)
	for i := 0; i < 4; i++ {
		b = append(b, "0000000000000000"...)
		b = append(b, 0)
	}
	b = append(b, 1, 0)
	b = append(b, make([]byte, SectorSize-len(b))...)
	return b
}

type buildOpts struct {
	ps3      bool
	titleID  string
	fillers  bool // pad the primary root with large records so that it needs two sectors
	straddle bool // with fillers: let a record straddle the sector boundary
}

type layout struct {
	priL, priM, jolL, jolM           uint32
	priRoot, priSub, jolRoot, jolSub uint32
	priRootLen, priSubLen            uint32
	jolRootLen, jolSubLen            uint32
	big, empty                       uint32
	total                            uint32
}

var bigContent = func() []byte {
	b := make([]byte, 3000)
	for i := range b {
		b[i] = byte(i*7 + 1)
		if b[i] == 0 {
			b[i] = 0xAA
		}
	}
	return b
}()

// buildImage writes root + "SUB"/"Sub" + BIG.BIN (3000 bytes, root) +
// EMPTY.TXT (0 bytes, in the subdirectory) in both hierarchies.
func buildImage(o buildOpts) ([]byte, layout) {
	dot, dotdot := []byte{0}, []byte{1}
	mk := func(l layout) (pr, ps, jr, js []byte) {
		var recs [][]byte
		recs = append(recs, dirRecord(l.priRoot, l.priRootLen, 2, dot, 0), dirRecord(l.priRoot, l.priRootLen, 2, dotdot, 0))
		if o.fillers {
			for i := 0; i < 8; i++ {
				su := 214 // record length 254
				if i == 7 {
					su = 150 // record length 190: records end at 2036
				}
				recs = append(recs, dirRecord(l.empty, 0, 0, []byte("PAD"+string(rune('0'+i))+";1"), su))
			}
		}
		recs = append(recs, dirRecord(l.big, 3000, 0, []byte("BIG.BIN;1"), 0), dirRecord(l.priSub, l.priSubLen, 2, []byte("SUB"), 0))
		pr = layoutDir(recs, o.straddle)
		ps = layoutDir([][]byte{
			dirRecord(l.priSub, l.priSubLen, 2, dot, 0), dirRecord(l.priRoot, l.priRootLen, 2, dotdot, 0),
			dirRecord(l.empty, 0, 0, []byte("EMPTY.TXT;1"), 0),
		}, false)
		jr = layoutDir([][]byte{
			dirRecord(l.jolRoot, l.jolRootLen, 2, dot, 0), dirRecord(l.jolRoot, l.jolRootLen, 2, dotdot, 0),
			dirRecord(l.big, 3000, 0, ucs2("Big.bin"), 0), dirRecord(l.jolSub, l.jolSubLen, 2, ucs2("Sub"), 0),
		}, false)
		js = layoutDir([][]byte{
			dirRecord(l.jolSub, l.jolSubLen, 2, dot, 0), dirRecord(l.jolRoot, l.jolRootLen, 2, dotdot, 0),
			dirRecord(l.empty, 0, 0, ucs2("Empty.txt"), 0),
		}, false)
		return
	}
	pr, ps, jr, js := mk(layout{})
	var l layout
	next := uint32(20)
	alloc := func(n int) uint32 {
		s := next
		next += uint32((n + SectorSize - 1) / SectorSize)
		return s
	}
	l.priL, l.priM, l.jolL, l.jolM = alloc(1), alloc(1), alloc(1), alloc(1)
	l.priRoot, l.priRootLen = alloc(len(pr)), uint32(len(pr))
	l.priSub, l.priSubLen = alloc(len(ps)), uint32(len(ps))
	l.jolRoot, l.jolRootLen = alloc(len(jr)), uint32(len(jr))
	l.jolSub, l.jolSubLen = alloc(len(js)), uint32(len(js))
	l.big = alloc(3000)
	l.empty = next
	l.total = next + 4
	pr, ps, jr, js = mk(l)

	img := make([]byte, int(l.total)*SectorSize)
	put := func(sector uint32, b []byte) { copy(img[int(sector)*SectorSize:], b) }

	priLT := append(ptEntry(binary.LittleEndian, dot, l.priRoot, 1), ptEntry(binary.LittleEndian, []byte("SUB"), l.priSub, 1)...)
	priMT := append(ptEntry(binary.BigEndian, dot, l.priRoot, 1), ptEntry(binary.BigEndian, []byte("SUB"), l.priSub, 1)...)
	jolLT := append(ptEntry(binary.LittleEndian, dot, l.jolRoot, 1), ptEntry(binary.LittleEndian, ucs2("Sub"), l.jolSub, 1)...)
	jolMT := append(ptEntry(binary.BigEndian, dot, l.jolRoot, 1), ptEntry(binary.BigEndian, ucs2("Sub"), l.jolSub, 1)...)

	put(16, volDesc(1, "", l.total, uint32(len(priLT)), l.priL, l.priM, dirRecord(l.priRoot, l.priRootLen, 2, dot, 0)))
	put(17, volDesc(2, "%/@", l.total, uint32(len(jolLT)), l.jolL, l.jolM, dirRecord(l.jolRoot, l.jolRootLen, 2, dot, 0)))
	term := make([]byte, SectorSize)
	term[0] = 255
	copy(term[1:], "CD001")
	term[6] = 1
	put(18, term)
	put(l.priL, priLT)
	put(l.priM, priMT)
	put(l.jolL, jolLT)
	put(l.jolM, jolMT)
	put(l.priRoot, pr)
	put(l.priSub, ps)
	put(l.jolRoot, jr)
	put(l.jolSub, js)
	put(l.big, bigContent)

	if o.ps3 {
		binary.BigEndian.PutUint32(img[0:], 1)
		binary.BigEndian.PutUint32(img[12:], l.total-1)
		s1 := img[SectorSize:]
		copy(s1, padStr("PlayStation3", 16))
		copy(s1[16:], padStr(o.titleID[:4]+"-"+o.titleID[4:], 32))
		for i := 64; i < 64+0x1B0+0x10; i++ {
			s1[i] = byte(i) | 1 // "random" info and hash
		}
	}
	return img, l
}

func mustRead(t *testing.T, img []byte) *Image {
	t.Helper()
	im, iss := Read(memSrc(img), int64(len(img)))
	if len(iss) != 0 {
		logIssues(t, "read: ", iss)
		t.Fatalf("reader reported %d issues on the synthetic image", len(iss))
	}
	return im
}

var childCount = map[string]int{"/": 2, "/Sub": 1}

// ---------------------------------------------------------------- tests: third-party image

const appleImage = "/repo/internal/testutil/testdata/testimg.iso"

func TestAppleImage(t *testing.T) {
	f, err := os.Open(appleImage)
	if err != nil {
		t.Skipf("third-party image not available: %v", err)
	}
	defer f.Close()
	st, err := f.Stat()
	if err != nil {
		t.Fatal(err)
	}
	img, iss := Read(f, st.Size())
	if len(iss) != 0 {
		logIssues(t, "read: ", iss)
		t.Fatalf("reader reported issues on a well-formed foreign image")
	}
	if img.Primary == nil {
		t.Fatal("no primary hierarchy")
	}
	var found *File
	for p, fl := range img.Primary.FileMap() {
		if strings.ToUpper(strings.TrimSuffix(strings.TrimPrefix(p, "/"), ";1")) == "TEST.TXT" {
			found = fl
		}
	}
	if found == nil {
		t.Fatalf("TEST.TXT not found in primary hierarchy: %v", img.Primary.FileMap())
	}
	// the actual bytes in the image are exactly 13: no trailing newline
	const want = "hello world!!"
	if found.Size != int64(len(want)) {
		t.Fatalf("TEST.TXT size %d, want %d", found.Size, len(want))
	}
	got := make([]byte, found.Size)
	if err := ReadFileAt(f, found, 0, got); err != nil {
		t.Fatal(err)
	}
	if string(got) != want {
		t.Fatalf("TEST.TXT content %q, want %q", got, want)
	}
	part := make([]byte, 5)
	if err := ReadFileAt(f, found, 6, part); err != nil || string(part) != "world" {
		t.Fatalf("partial read: %q, %v", part, err)
	}
	if err := ReadFileAt(f, found, 10, part); err == nil {
		t.Fatal("read beyond the file end did not fail")
	}
	// this particular image also has a Joliet hierarchy with the lower-case name
	if img.Joliet == nil {
		t.Log("no Joliet hierarchy")
	} else if jf := img.Joliet.FileMap()["/test.txt"]; jf == nil || jf.Size != 13 || jf.Extents[0] != found.Extents[0] {
		t.Errorf("joliet /test.txt: %+v, want the same extent as the primary file %+v", jf, found)
	}
	if d := img.Primary.DirPaths(); len(d) != 1 || d[0] != "/" {
		t.Errorf("primary dir paths %v", d)
	}

	// (b) the generic checks must not false-alarm. The file is 921600 bytes
	// long but the volume space size is 26 sectors: the image file is padded
	// with zero sectors beyond the volume (everything from sector 26 on is
	// zero), so V02 legitimately fires with exactly that discrepancy - and
	// nothing else does.
	viss := Validate(f, img, ValidateOpts{AnnouncedSize: st.Size()})
	logIssues(t, "full file: ", viss)
	for _, i := range viss {
		if i.ID != "V02" {
			t.Errorf("unexpected issue on the foreign image: %s", i)
		} else if !strings.Contains(i.Detail, "26 x 2048 = 53248, image length 921600") {
			t.Errorf("unexpected V02 detail: %s", i)
		}
	}
	// Cut at the volume space size every invariant V01..V10 holds.
	vol := int64(img.Primary.VD.SpaceLE) * SectorSize
	sec := io.NewSectionReader(f, 0, vol)
	img2, iss2 := Read(sec, vol)
	if len(iss2) != 0 {
		logIssues(t, "read(vol): ", iss2)
		t.Errorf("reader issues on the image cut to its volume size")
	}
	if v2 := Validate(sec, img2, ValidateOpts{AnnouncedSize: vol}); len(v2) != 0 {
		logIssues(t, "volume-sized: ", v2)
		t.Errorf("validator false alarms on the foreign image cut to its volume size: %v", ids(v2))
	}
}

// ---------------------------------------------------------------- tests: synthetic image

func TestSyntheticClean(t *testing.T) {
	raw, l := buildImage(buildOpts{})
	img := mustRead(t, raw)
	if len(img.Descs) != 3 || img.Primary == nil || img.Joliet == nil {
		t.Fatalf("descs %d primary %v joliet %v", len(img.Descs), img.Primary != nil, img.Joliet != nil)
	}
	if got := img.Primary.DirPaths(); strings.Join(got, ",") != "/,/SUB" {
		t.Errorf("primary dirs %v", got)
	}
	if got := img.Joliet.DirPaths(); strings.Join(got, ",") != "/,/Sub" {
		t.Errorf("joliet dirs %v", got)
	}
	pm, jm := img.Primary.FileMap(), img.Joliet.FileMap()
	if len(pm) != 2 || pm["/BIG.BIN"] == nil || pm["/SUB/EMPTY.TXT"] == nil {
		t.Fatalf("primary files %v", pm)
	}
	if len(jm) != 2 || jm["/Big.bin"] == nil || jm["/Sub/Empty.txt"] == nil {
		t.Fatalf("joliet files %v", jm)
	}
	if f := pm["/SUB/EMPTY.TXT"]; f.Size != 0 {
		t.Errorf("empty file size %d", f.Size)
	}
	for _, f := range []*File{pm["/BIG.BIN"], jm["/Big.bin"]} {
		if f.Size != 3000 || len(f.Extents) != 1 || f.Extents[0] != (Extent{l.big, 3000}) {
			t.Fatalf("big file %+v", f)
		}
		got := make([]byte, 3000)
		if err := ReadFileAt(memSrc(raw), f, 0, got); err != nil || !bytes.Equal(got, bigContent) {
			t.Fatalf("big file content mismatch (%v)", err)
		}
		got = make([]byte, 100)
		if err := ReadFileAt(memSrc(raw), f, 2048-50, got); err != nil || !bytes.Equal(got, bigContent[2048-50:2048+50]) {
			t.Fatalf("big file partial content mismatch (%v)", err)
		}
	}
	sub := findDir(t, img.Primary, "/SUB")
	if sub.Parent != img.Primary.Root || sub.LBA != l.priSub || sub.Len != SectorSize || len(sub.Records) != 3 {
		t.Errorf("sub dir %+v", sub)
	}
	if len(img.Primary.LTab) != 2 || len(img.Primary.MTab) != 2 || img.Primary.LTab[1].LBA != l.priSub || img.Joliet.MTab[1].LBA != l.jolSub {
		t.Errorf("path tables L %+v M %+v", img.Primary.LTab, img.Joliet.MTab)
	}
	iss := Validate(memSrc(raw), img, ValidateOpts{AnnouncedSize: int64(len(raw)), ChildCount: childCount})
	if len(iss) != 0 {
		logIssues(t, "", iss)
		t.Fatalf("validator reported issues on a correct image")
	}
}

func TestSyntheticTwoSectorDirectory(t *testing.T) {
	raw, _ := buildImage(buildOpts{fillers: true})
	img := mustRead(t, raw)
	if img.Primary.Root.Len != 2*SectorSize || len(img.Primary.Root.Records) != 12 {
		t.Fatalf("root len %d records %d", img.Primary.Root.Len, len(img.Primary.Root.Records))
	}
	if last := img.Primary.Root.Records[11]; last.Offset%SectorSize != 42 {
		t.Fatalf("expected the last record in the second sector, offset %d", last.Offset)
	}
	if iss := Validate(memSrc(raw), img, ValidateOpts{AnnouncedSize: int64(len(raw))}); len(iss) != 0 {
		logIssues(t, "", iss)
		t.Fatalf("validator reported issues on a correct image with a two-sector directory")
	}
	// primary has 8 more files than the source in this variant
	iss := Validate(memSrc(raw), img, ValidateOpts{ChildCount: childCount})
	if got := ids(iss); len(got) != 1 || got[0] != "V05" {
		logIssues(t, "", iss)
		t.Fatalf("want only V05 (child count), got %v", got)
	}
}

func TestSyntheticPS3(t *testing.T) {
	raw, _ := buildImage(buildOpts{ps3: true, titleID: "BLES12345"})
	img := mustRead(t, raw)
	o := ValidateOpts{AnnouncedSize: int64(len(raw)), PS3: true, TitleID: "BLES12345", ChildCount: childCount}
	if iss := Validate(memSrc(raw), img, o); len(iss) != 0 {
		logIssues(t, "", iss)
		t.Fatalf("validator reported issues on a correct PS3 image")
	}
	expectOnly := func(name string, raw []byte, o ValidateOpts, want ...string) {
		t.Helper()
		im, _ := Read(memSrc(raw), int64(len(raw)))
		iss := Validate(memSrc(raw), im, o)
		logIssues(t, name+": ", iss)
		if got := ids(iss); strings.Join(got, ",") != strings.Join(want, ",") {
			t.Errorf("%s: got %v, want %v", name, got, want)
		}
	}
	o2 := o
	o2.TitleID = "BCES00104"
	expectOnly("wrong title", raw, o2, "V11")
	// PS3 sectors present but not announced: system area must be zero
	o3 := o
	o3.PS3 = false
	expectOnly("ps3 sectors in plain mode", raw, o3, "V10")
	plain, _ := buildImage(buildOpts{})
	expectOnly("plain image in ps3 mode", plain, o, "V11")
	c := append([]byte(nil), raw...)
	binary.BigEndian.PutUint32(c[12:], uint32(len(raw)/SectorSize)) // last sector off by one
	expectOnly("sector 0 last sector", c, o, "V11")
	c = append([]byte(nil), raw...)
	c[100] = 1
	expectOnly("sector 0 tail", c, o, "V11")
	c = append([]byte(nil), raw...)
	c[SectorSize+16+10] = 'X' // junk in the product code padding
	expectOnly("product code padding", c, o, "V11")
}

func TestCorruptions(t *testing.T) {
	base, l := buildImage(buildOpts{})
	ref := mustRead(t, base)
	pRoot, pSub := ref.Primary.Root, findDir(t, ref.Primary, "/SUB")
	jRoot := ref.Joliet.Root
	le, be := binary.LittleEndian, binary.BigEndian
	setBoth32 := func(b []byte, off int64, v uint32) {
		le.PutUint32(b[off:], v)
		be.PutUint32(b[off+4:], v)
	}

	cases := []struct {
		name    string
		build   func() []byte
		want    []string // exactly these IDs
		atLeast bool     // want is a subset of the IDs that fire
	}{
		{name: "BE/LE mismatch in a file record length", want: []string{"V04"}, build: func() []byte {
			c := append([]byte(nil), base...)
			r := findRec(t, pRoot, []byte("BIG.BIN;1"))
			be.PutUint32(c[r.Offset+14:], 3001)
			return c
		}},
		{name: "BE/LE mismatch in descriptor block size", want: []string{"V04"}, build: func() []byte {
			c := append([]byte(nil), base...)
			be.PutUint16(c[17*SectorSize+130:], 512)
			return c
		}},
		{name: "record straddling a sector", want: []string{"V05"}, build: func() []byte {
			c, _ := buildImage(buildOpts{fillers: true, straddle: true})
			return c
		}},
		{name: "odd record length", want: []string{"V05"}, build: func() []byte {
			// EMPTY.TXT;1 (idlen 11) is the last record of /SUB: 44 -> 45 keeps the walk intact
			c := append([]byte(nil), base...)
			r := findRec(t, pSub, []byte("EMPTY.TXT;1"))
			c[r.Offset] = 45
			return c
		}},
		{name: "wrong .. link", want: []string{"V06"}, build: func() []byte {
			c := append([]byte(nil), base...)
			setBoth32(c, pSub.Records[1].Offset+2, l.priSub)
			return c
		}},
		{name: "wrong . link", want: []string{"V06"}, build: func() []byte {
			c := append([]byte(nil), base...)
			setBoth32(c, pSub.Records[0].Offset+10, 2*SectorSize)
			return c
		}},
		{name: "path table parent wrong", want: []string{"V08"}, build: func() []byte {
			c := append([]byte(nil), base...)
			le.PutUint16(c[ref.Primary.LTab[1].Offset+6:], 2)
			be.PutUint16(c[ref.Primary.MTab[1].Offset+6:], 2)
			return c
		}},
		{name: "path table L/M not twins", want: []string{"V08"}, build: func() []byte {
			c := append([]byte(nil), base...)
			be.PutUint32(c[ref.Joliet.MTab[1].Offset+2:], l.jolRoot)
			return c
		}},
		{name: "path table identifier wrong", want: []string{"V08"}, build: func() []byte {
			c := append([]byte(nil), base...)
			c[ref.Primary.LTab[1].Offset+8] = 'X'
			c[ref.Primary.MTab[1].Offset+8] = 'X'
			return c
		}},
		{name: "overlapping file extents", want: []string{"V09"}, build: func() []byte {
			// the Joliet view of the big file starts one sector late: [big+1,big+3) vs [big,big+2)
			c := append([]byte(nil), base...)
			r := findRec(t, jRoot, ucs2("Big.bin"))
			setBoth32(c, r.Offset+2, l.big+1)
			return c
		}},
		{name: "file extent on a directory", want: []string{"V09"}, atLeast: true, build: func() []byte {
			c := append([]byte(nil), base...)
			for _, r := range []*Record{findRec(t, jRoot, ucs2("Big.bin")), findRec(t, pRoot, []byte("BIG.BIN;1"))} {
				setBoth32(c, r.Offset+2, l.jolSub)
			}
			return c
		}},
		{name: "file extent outside the volume", want: []string{"V09"}, build: func() []byte {
			c := append([]byte(nil), base...)
			for _, r := range []*Record{findRec(t, jRoot, ucs2("Big.bin")), findRec(t, pRoot, []byte("BIG.BIN;1"))} {
				setBoth32(c, r.Offset+2, l.total-1)
			}
			return c
		}},
		{name: "non-zero system area", want: []string{"V10"}, build: func() []byte {
			c := append([]byte(nil), base...)
			c[5*SectorSize+7] = 1
			return c
		}},
		{name: "non-zero sector after the terminator", want: []string{"V10"}, build: func() []byte {
			c := append([]byte(nil), base...)
			c[19*SectorSize+2047] = 1
			return c
		}},
		{name: "non-zero path table tail", want: []string{"V10"}, build: func() []byte {
			c := append([]byte(nil), base...)
			c[int(l.jolM)*SectorSize+1000] = 1
			return c
		}},
		{name: "non-zero file padding", want: []string{"V10"}, build: func() []byte {
			c := append([]byte(nil), base...)
			c[int(l.big)*SectorSize+3000] = 1
			return c
		}},
		{name: "non-zero trailing area", want: []string{"V10"}, build: func() []byte {
			c := append([]byte(nil), base...)
			c[len(c)-1] = 1
			return c
		}},
		{name: "non-zero directory sector tail", want: []string{"V05", "V10"}, build: func() []byte {
			c := append([]byte(nil), base...)
			c[int(l.priSub)*SectorSize+2000] = 1
			return c
		}},
		{name: "length not a sector multiple", want: []string{"V01", "V02"}, build: func() []byte {
			return append(append([]byte(nil), base...), 0)
		}},
		{name: "volume space size too large", want: []string{"V02"}, build: func() []byte {
			c := append([]byte(nil), base...)
			setBoth32(c, 16*SectorSize+80, l.total+1)
			return c
		}},
		{name: "no Joliet escape", want: []string{"V03"}, build: func() []byte {
			c := append([]byte(nil), base...)
			c[17*SectorSize+90] = 'A'
			return c
		}},
		{name: "descriptor version", want: []string{"V03"}, build: func() []byte {
			c := append([]byte(nil), base...)
			c[16*SectorSize+6] = 2
			return c
		}},
		{name: "directory length zero in link", want: []string{"V06", "V07"}, build: func() []byte {
			c := append([]byte(nil), base...)
			setBoth32(c, findRec(t, pRoot, []byte("SUB")).Offset+10, 0)
			return c
		}},
	}
	for _, tc := range cases {
		t.Run(tc.name, func(t *testing.T) {
			raw := tc.build()
			img, riss := Read(memSrc(raw), int64(len(raw)))
			logIssues(t, "read: ", riss)
			iss := Validate(memSrc(raw), img, ValidateOpts{})
			logIssues(t, "", iss)
			got := ids(iss)
			if tc.atLeast {
				for _, w := range tc.want {
					if !strings.Contains(","+strings.Join(got, ",")+",", ","+w+",") {
						t.Errorf("got %v, want at least %v", got, tc.want)
					}
				}
				return
			}
			if strings.Join(got, ",") != strings.Join(tc.want, ",") {
				t.Errorf("got %v, want exactly %v", got, tc.want)
			}
			for _, i := range iss {
				if i.Detail == "" {
					t.Errorf("empty detail in %v", i)
				}
			}
		})
	}

	t.Run("announced size", func(t *testing.T) {
		iss := Validate(memSrc(base), ref, ValidateOpts{AnnouncedSize: int64(len(base)) + SectorSize})
		if got := ids(iss); len(got) != 1 || got[0] != "V01" {
			t.Errorf("got %v, want V01", got)
		}
	})
}

func TestMultiExtentFile(t *testing.T) {
	// two records with the same identifier, the first flagged multi-extent, form one file
	raw, l := buildImage(buildOpts{})
	ref := mustRead(t, raw)
	root := ref.Primary.Root
	// rewrite the primary root: ".", "..", BIG.BIN;1 part 1 (2048 bytes, 0x80), BIG.BIN;1 part 2 (952 bytes), SUB
	recs := [][]byte{
		dirRecord(l.priRoot, SectorSize, 2, []byte{0}, 0), dirRecord(l.priRoot, SectorSize, 2, []byte{1}, 0),
		dirRecord(l.big, 2048, 0x80, []byte("BIG.BIN;1"), 0), dirRecord(l.big+1, 952, 0, []byte("BIG.BIN;1"), 0),
		dirRecord(l.priSub, SectorSize, 2, []byte("SUB"), 0),
	}
	copy(raw[int64(root.LBA)*SectorSize:], layoutDir(recs, false))
	img := mustRead(t, raw)
	f := img.Primary.FileMap()["/BIG.BIN"]
	if f == nil || f.Size != 3000 || len(f.Extents) != 2 || len(img.Primary.Root.Files) != 1 {
		t.Fatalf("multi-extent file: %+v", f)
	}
	got := make([]byte, 3000)
	if err := ReadFileAt(memSrc(raw), f, 0, got); err != nil || !bytes.Equal(got, bigContent) {
		t.Fatalf("multi-extent content mismatch: %v", err)
	}
	got = make([]byte, 10)
	if err := ReadFileAt(memSrc(raw), f, 2043, got); err != nil || !bytes.Equal(got, bigContent[2043:2053]) {
		t.Fatalf("multi-extent cross-extent read mismatch: %v", err)
	}
	// the primary sees [big,big+1)+[big+1,big+2), the Joliet hierarchy [big,big+2): that is an overlap by the letter of V09
	iss := Validate(memSrc(raw), img, ValidateOpts{ChildCount: childCount})
	logIssues(t, "", iss)
	for _, i := range iss {
		if i.ID != "V09" {
			t.Errorf("unexpected %v (child count must treat the two records as one child)", i)
		}
	}
}

// ---------------------------------------------------------------- tests: tolerance

type panicSrc struct{ memSrc }

func (p panicSrc) ReadAt(b []byte, off int64) (int, error) {
	if off >= 24*SectorSize {
		panic("boom")
	}
	return p.memSrc.ReadAt(b, off)
}

type errSrc struct{}

func (errSrc) ReadAt([]byte, int64) (int, error) { return 0, errors.New("nope") }

func TestReaderNeverPanics(t *testing.T) {
	base, _ := buildImage(buildOpts{})
	run := func(src Source, size int64) {
		img, _ := Read(src, size)
		if img == nil {
			t.Fatal("nil image")
		}
		for _, i := range Validate(src, img, ValidateOpts{PS3: true, TitleID: "X", ChildCount: childCount}) {
			if i.ID == "R-panic" {
				t.Fatalf("validator panicked: %v", i)
			}
		}
		for _, h := range []*Hierarchy{img.Primary, img.Joliet} {
			h.FileMap()
			h.DirPaths()
		}
	}
	run(memSrc(nil), 0)
	run(memSrc(base[:100]), 100)
	run(memSrc(base), int64(len(base))*2) // announced larger than real
	run(memSrc(base[:17*SectorSize+5]), 17*SectorSize+5)
	run(memSrc(base[:25*SectorSize]), 25*SectorSize)
	run(errSrc{}, 1<<20)
	img, iss := Read(panicSrc{memSrc(base)}, int64(len(base)))
	if img == nil || len(iss) == 0 {
		t.Fatalf("panicking source: img %v issues %v", img, iss)
	}
	run(panicSrc{memSrc(base)}, int64(len(base)))

	// directory loop: /SUB's child record points back to the root
	c := append([]byte(nil), base...)
	ref := mustRead(t, base)
	sub := findDir(t, ref.Primary, "/SUB")
	r := findRec(t, sub, []byte("EMPTY.TXT;1"))
	c[r.Offset+25] = 2
	binary.LittleEndian.PutUint32(c[r.Offset+2:], ref.Primary.Root.LBA)
	binary.LittleEndian.PutUint32(c[r.Offset+10:], SectorSize)
	_, liss := Read(memSrc(c), int64(len(c)))
	if got := ids(liss); len(got) != 1 || got[0] != "R-loop" {
		t.Errorf("loop: got %v", liss)
	}

	// random byte damage in the structure area
	rng := rand.New(rand.NewSource(1))
	structEnd := 28 * SectorSize
	for i := 0; i < 3000; i++ {
		c := append([]byte(nil), base...)
		for k := 0; k < 1+rng.Intn(4); k++ {
			c[16*SectorSize+rng.Intn(structEnd-16*SectorSize)] = byte(rng.Intn(256))
		}
		run(memSrc(c), int64(len(c)))
	}
	// pure noise
	for i := 0; i < 200; i++ {
		c := make([]byte, 40*SectorSize)
		rng.Read(c)
		copy(c[16*SectorSize:], "\x01CD001\x01")
		run(memSrc(c), int64(len(c)))
	}
}

func TestIssueCap(t *testing.T) {
	raw, _ := buildImage(buildOpts{})
	for s := 0; s < 16; s++ {
		raw[s*SectorSize+s] = 1
	}
	// damage every BE half of every record of the primary root
	img := mustRead(t, raw)
	for _, r := range img.Primary.Root.Records {
		raw[r.Offset+6] ^= 0xFF
		raw[r.Offset+14] ^= 0xFF
		raw[r.Offset+30] ^= 0xFF
	}
	img, _ = Read(memSrc(raw), int64(len(raw)))
	count := map[string]int{}
	for _, i := range Validate(memSrc(raw), img, ValidateOpts{}) {
		count[i.ID]++
	}
	if count["V04"] != 5 {
		t.Errorf("V04 issues %d, want the cap 5", count["V04"])
	}
	for id, n := range count {
		if n > 5 {
			t.Errorf("%s: %d issues, cap is 5", id, n)
		}
	}
}
