//go:build verif

// Package host spawns and monitors the processes under observation: vworker children hosting the
// real server (T-lib) and the real CLI binary (T-bin).
package host

import (
	"bufio"
	"encoding/json"
	"fmt"
	"io"
	"os"
	"os/exec"
	"path/filepath"
	"regexp"
	"strings"
	"sync"
	"syscall"
	"time"

	"verif/wire"
	"verif/worker"
)

type Opt struct {
	Bin       string // path of the vh binary to run as worker (default: os.Args[0])
	Dir       string // scratch dir for stderr/race logs
	Tag       string
	MemCapKiB int64 // ulimit -v in KiB (0 = none)
	Race      bool  // set GORACE log_path
	Env       []string
}

type Proc struct {
	doMu       sync.Mutex // one command/reply exchange at a time
	Cmd        *exec.Cmd
	stdin      io.WriteCloser
	out        *bufio.Reader
	StderrPath string
	RaceBase   string
	Port       int
	Addr       string
	done       chan struct{}
	waitErr    error
	IsBin      bool
	StdoutPath string
}

func (p *Proc) HostPort() string { return fmt.Sprintf("127.0.0.1:%d", p.Port) }

// byAddr maps "127.0.0.1:port" to the process listening there (filled when the port becomes known).
var byAddr sync.Map

// ProcAt returns the spawned process that listens at addr, if any.
func ProcAt(addr string) *Proc {
	if v, ok := byAddr.Load(addr); ok {
		return v.(*Proc)
	}
	return nil
}

// CPUTicks is the CPU time (user+system, clock ticks) the process has used so far; -1 if unknown.
func (p *Proc) CPUTicks() int64 {
	if p.Cmd == nil || p.Cmd.Process == nil {
		return -1
	}
	b, err := os.ReadFile(fmt.Sprintf("/proc/%d/stat", p.Cmd.Process.Pid))
	if err != nil {
		return -1
	}
	// fields after the parenthesised command name
	i := strings.LastIndexByte(string(b), ')')
	if i < 0 {
		return -1
	}
	f := strings.Fields(string(b[i+1:]))
	if len(f) < 13 {
		return -1
	}
	var ut, st int64
	fmt.Sscan(f[11], &ut)
	fmt.Sscan(f[12], &st)
	return ut + st
}

// BusyFunc returns a function telling whether the process has used CPU time since the previous
// call: a watchdog that expires while the server is working (walking a huge tree on a loaded
// machine) is re-armed; one that expires on an idle server is a verdict.
func (p *Proc) BusyFunc() func() bool {
	last := p.CPUTicks()
	return func() bool {
		now := p.CPUTicks()
		if now < 0 || last < 0 {
			last = now
			return false
		}
		busy := now-last >= 5 // at least 50 ms of CPU within the last watchdog period
		last = now
		return busy
	}
}

var seq int

func SpawnWorker(cfg worker.Config, o Opt) (*Proc, error) {
	bin := o.Bin
	if bin == "" {
		bin = os.Args[0]
	}
	seq++
	tag := fmt.Sprintf("%s.%d.%d", o.Tag, os.Getpid(), seq)
	errPath := filepath.Join(o.Dir, "worker."+tag+".stderr")
	ef, err := os.Create(errPath)
	if err != nil {
		return nil, err
	}
	defer ef.Close()
	var cmd *exec.Cmd
	if o.MemCapKiB > 0 {
		cmd = exec.Command("/bin/sh", "-c", fmt.Sprintf("ulimit -v %d; exec \"$0\" worker", o.MemCapKiB), bin)
	} else {
		cmd = exec.Command(bin, "worker")
	}
	cmd.Env = append(os.Environ(), "TZ=UTC", "LC_ALL=C")
	p := &Proc{Cmd: cmd, StderrPath: errPath, done: make(chan struct{})}
	if o.Race {
		p.RaceBase = filepath.Join(o.Dir, "race."+tag)
		cmd.Env = append(cmd.Env, "GORACE=halt_on_error=0 log_path="+p.RaceBase)
	}
	cmd.Env = append(cmd.Env, o.Env...)
	cmd.Stderr = ef
	p.stdin, _ = cmd.StdinPipe()
	so, _ := cmd.StdoutPipe()
	p.out = bufio.NewReaderSize(so, 1<<20)
	if err := cmd.Start(); err != nil {
		return nil, err
	}
	go func() { p.waitErr = cmd.Wait(); close(p.done) }()
	b, _ := json.Marshal(cfg)
	if _, err := p.stdin.Write(append(b, '\n')); err != nil {
		p.Kill()
		return nil, err
	}
	r, err := p.readReply(30 * time.Second)
	if err != nil || !r.OK {
		p.Kill()
		return nil, fmt.Errorf("worker start failed: %v %s (stderr: %s)", err, r.Err, p.Stderr())
	}
	p.Port, p.Addr = r.Port, r.Addr
	byAddr.Store(p.HostPort(), p)
	return p, nil
}

func (p *Proc) readReply(wd time.Duration) (worker.Reply, error) {
	type res struct {
		r   worker.Reply
		err error
	}
	ch := make(chan res, 1)
	go func() {
		line, err := p.out.ReadBytes('\n')
		if err != nil {
			ch <- res{err: err}
			return
		}
		var r worker.Reply
		err = json.Unmarshal(line, &r)
		ch <- res{r, err}
	}()
	select {
	case x := <-ch:
		return x.r, x.err
	case <-time.After(wd):
		return worker.Reply{}, fmt.Errorf("worker reply timeout")
	}
}

func (p *Proc) Do(c worker.Cmd) (worker.Reply, error) {
	p.doMu.Lock()
	defer p.doMu.Unlock()
	b, _ := json.Marshal(c)
	if _, err := p.stdin.Write(append(b, '\n')); err != nil {
		return worker.Reply{}, err
	}
	return p.readReply(60 * time.Second)
}

// Alive reports whether the process is still running.
func (p *Proc) Alive() bool {
	select {
	case <-p.done:
		return false
	default:
		return true
	}
}

func (p *Proc) Kill() {
	if p.Cmd.Process != nil {
		p.Cmd.Process.Kill()
	}
	<-p.done
}

// Stop ends the process (quit for workers, SIGTERM for the binary) and returns how it exited.
func (p *Proc) Stop() string {
	if p.Alive() {
		if p.IsBin {
			syscall.Kill(-p.Cmd.Process.Pid, syscall.SIGTERM)
		} else {
			p.stdin.Write([]byte("{\"cmd\":\"quit\"}\n"))
		}
		select {
		case <-p.done:
		case <-time.After(10 * time.Second):
			if p.IsBin {
				syscall.Kill(-p.Cmd.Process.Pid, syscall.SIGKILL)
			}
			p.Cmd.Process.Kill()
			<-p.done
		}
	}
	return p.ExitString()
}

func (p *Proc) ExitString() string {
	if p.Alive() {
		return "running"
	}
	if p.Cmd.ProcessState != nil {
		return p.Cmd.ProcessState.String()
	}
	return fmt.Sprint(p.waitErr)
}

func (p *Proc) Stderr() string {
	b, _ := os.ReadFile(p.StderrPath)
	if p.StdoutPath != "" {
		b2, _ := os.ReadFile(p.StdoutPath)
		b = append(b, b2...)
	}
	return string(b)
}

var crashRe = regexp.MustCompile(`(?m)^(panic: |fatal error: |runtime: out of memory|unexpected fault address|SIGSEGV)`)

// CrashTrace returns the first crash marker found in the process output ("" if none).
func (p *Proc) CrashTrace() string {
	s := p.Stderr()
	loc := crashRe.FindStringIndex(s)
	if loc == nil {
		return ""
	}
	e := min(len(s), loc[0]+1500)
	return s[loc[0]:e]
}

// RaceReports returns the race report blocks found in the race log files of this process.
func (p *Proc) RaceReports() []string {
	var blocks []string
	collect := func(text string) {
		parts := strings.Split(text, "==================")
		for _, b := range parts {
			if strings.Contains(b, "WARNING: DATA RACE") {
				blocks = append(blocks, b)
			}
		}
	}
	if p.RaceBase != "" {
		m, _ := filepath.Glob(p.RaceBase + ".*")
		for _, f := range m {
			b, _ := os.ReadFile(f)
			collect(string(b))
		}
	}
	collect(p.Stderr())
	return blocks
}

var portRe = regexp.MustCompile(`Listening\.\.\..*?(?:127\.0\.0\.1|\[::1\]|::1\]?|0\.0\.0\.0|localhost):(\d+)`)
var anyPortRe = regexp.MustCompile(`Listening\.\.\..*?:(\d+)\D`)

// SpawnBin starts the real CLI binary with the given args; stdout and stderr are captured to files.
// If waitListen is true it waits for the "Listening..." log line and extracts the port.
func SpawnBin(bin string, args []string, o Opt, cwd string, waitListen bool) (*Proc, error) {
	seq++
	tag := fmt.Sprintf("%s.%d.%d", o.Tag, os.Getpid(), seq)
	errPath := filepath.Join(o.Dir, "bin."+tag+".stderr")
	outPath := filepath.Join(o.Dir, "bin."+tag+".stdout")
	ef, err := os.Create(errPath)
	if err != nil {
		return nil, err
	}
	defer ef.Close()
	of, err := os.Create(outPath)
	if err != nil {
		return nil, err
	}
	defer of.Close()
	cmd := exec.Command(bin, args...)
	cmd.Dir = cwd
	cmd.SysProcAttr = &syscall.SysProcAttr{Setpgid: true} // own process group: Stop reaches wrappers' children (strace)
	cmd.Env = append(cleanEnv(), "TZ=UTC", "LC_ALL=C")
	p := &Proc{Cmd: cmd, StderrPath: errPath, StdoutPath: outPath, done: make(chan struct{}), IsBin: true}
	if o.Race {
		p.RaceBase = filepath.Join(o.Dir, "race."+tag)
		cmd.Env = append(cmd.Env, "GORACE=halt_on_error=0 log_path="+p.RaceBase)
	}
	cmd.Env = append(cmd.Env, o.Env...)
	cmd.Stderr = ef
	cmd.Stdout = of
	if err := cmd.Start(); err != nil {
		return nil, err
	}
	go func() { p.waitErr = cmd.Wait(); close(p.done) }()
	if !waitListen {
		return p, nil
	}
	deadline := time.Now().Add(20 * time.Second)
	for time.Now().Before(deadline) {
		b, _ := os.ReadFile(outPath)
		if m := portRe.FindSubmatch(b); m != nil {
			fmt.Sscan(string(m[1]), &p.Port)
			byAddr.Store(p.HostPort(), p)
			return p, nil
		}
		if m := anyPortRe.FindSubmatch(b); m != nil {
			fmt.Sscan(string(m[1]), &p.Port)
			byAddr.Store(p.HostPort(), p)
			return p, nil
		}
		if !p.Alive() {
			return p, fmt.Errorf("binary exited before listening: %s: %s", p.ExitString(), p.Stderr())
		}
		time.Sleep(10 * time.Millisecond)
	}
	p.Kill()
	return p, fmt.Errorf("binary did not report a listening port: %s", p.Stderr())
}

// cleanEnv is the parent's environment without PS3NETSRV_* / XDG settings that would leak configuration.
func cleanEnv() []string {
	var out []string
	for _, e := range os.Environ() {
		if strings.HasPrefix(e, "PS3NETSRV_") || strings.HasPrefix(e, "XDG_CONFIG_HOME=") || strings.HasPrefix(e, "GORACE=") {
			continue
		}
		out = append(out, e)
	}
	return out
}

// WaitExit waits up to d for the process to end by itself.
func (p *Proc) WaitExit(d time.Duration) bool {
	select {
	case <-p.done:
		return true
	case <-time.After(d):
		return false
	}
}

func (p *Proc) ExitCode() int {
	if p.Cmd.ProcessState == nil {
		return -1
	}
	return p.Cmd.ProcessState.ExitCode()
}

// Probe performs the liveness probe: a fresh connection must get a 33-byte directory answer to STAT "/".
func Probe(addr string) error {
	c, err := wire.Dial(addr, nil, 15*time.Second)
	if err != nil {
		return fmt.Errorf("probe dial: %w", err)
	}
	defer c.Close()
	if err := c.Send(wire.P(wire.OpStat, "/")); err != nil {
		return fmt.Errorf("probe send: %w", err)
	}
	b, st := c.ReadN(wire.SzStat)
	if st != wire.Full {
		return fmt.Errorf("probe: STAT / answered %d bytes then %s", len(b), st)
	}
	r := wire.DecodeStat(b)
	if !r.IsDir || r.Size != 0 {
		return fmt.Errorf("probe: STAT / = %+v, want a directory", r)
	}
	return nil
}
