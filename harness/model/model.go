// Package model is the sequential reference model of one protocol connection (DESIGN.md §3.1,
// Appendix B). It answers with sets of admissible behaviours, checks an observed lock-step
// conversation against them and tracks the connection state.
package model

import (
	"bytes"
	"fmt"
	"os"
	"path"
	"path/filepath"
	"sort"
	"strings"
	"syscall"
	"time"

	"verif/wire"
)

// View is the byte string a successfully opened object must present.
type View interface {
	Size() int64
	// ReadAt fills p with the expected bytes at off (off+len(p) <= Size()).
	ReadAt(p []byte, off int64) error
	Kind() string
	// MtimeFree tells that the announced mtime is not specified (generated images).
	MtimeFree() bool
}

// DontCarer is implemented by views with byte ranges [lo,hi) the statement leaves unspecified.
type DontCarer interface{ DontCare() [][2]int64 }

// ViewFunc decides which view a regular file (or virtual path) must present. ok=false means the
// model has no opinion (response content is then not judged, the slot becomes unknown).
type ViewFunc func(w *World, osPath string, virtual int, rel string) (v View, mustFail bool, ok bool)

const (
	VirtNone = iota
	VirtDVD
	VirtPS3
)

type World struct {
	Root       string // OS path of the served root
	AllowWrite bool
	Views      ViewFunc
	// Probe, if set, is called when a response times out; it must return nil when the server
	// demonstrably answers a fresh connection (then a hang is a violation, else inconclusive).
	Probe func() error
	// SnapDir, if set, is snapshotted around every request: only the request's own target may change.
	SnapDir string
	// LaxEscape admits, for lexically escaping paths, the clamped and the non-existent answer.
	Start time.Time
}

type Fail struct {
	Rule         string // oracle rule id
	Feature      string
	Detail       string
	Inconclusive bool
}

func (f *Fail) Error() string { return f.Rule + "/" + f.Feature + ": " + f.Detail }

func fail(rule, feature, f string, a ...any) *Fail {
	return &Fail{Rule: rule, Feature: feature, Detail: fmt.Sprintf(f, a...)}
}

type slot int

const (
	sNone slot = iota
	sOpen
	sUnknown // after a failed open: previous handle may or may not survive
	sExhausted
	sFree // content of what follows is not judged (only framing)
)

type dirEnt struct {
	name  string
	isDir bool
	size  int64
	st    syscall.Stat_t
}

type Oracle struct {
	W *World
	T Transport

	dir      slot
	dirPath  string
	dirRem   map[string]bool // remaining names
	dirDirty bool

	ro     slot
	roPath string // OS path of the object opened for reading ("" for virtual images)
	roView View
	roSect int64

	wo     slot
	woPath string

	curState, curReq string
	touched          []string // OS paths the current request may legitimately change
	stepBytes        int
	// maybeClosed: the previous request admitted both "connection ended" and "continues" and
	// produced no bytes, so the model does not know yet which one happened.
	maybeClosed bool

	// Uploads maps OS paths of files created in this session to the concatenation of their payloads.
	Uploads map[string][]byte

	ClosedEarlier bool // Closed was detected one request after the one that ended the connection
	Closed        bool // the model knows the server has closed the connection
	// Coverage of (state, opcode, outcome) triples.
	Cover map[string]int
	// Per request log (request, outcome) for replay files.
	Trace         []string
	BytesCompared int64
}

type Transport interface {
	Send(b []byte) error
	ReadN(n int) ([]byte, wire.ReadStatus)
	ExpectEOF() ([]byte, wire.ReadStatus)
}

type countT struct {
	Transport
	n *int
}

func (c countT) ReadN(n int) ([]byte, wire.ReadStatus) {
	b, st := c.Transport.ReadN(n)
	*c.n += len(b)
	return b, st
}

func (c countT) ExpectEOF() ([]byte, wire.ReadStatus) {
	b, st := c.Transport.ExpectEOF()
	*c.n += len(b)
	return b, st
}

func NewOracle(w *World, t Transport) *Oracle {
	o := &Oracle{W: w, Cover: map[string]int{}, Uploads: map[string][]byte{}}
	o.T = countT{t, &o.stepBytes}
	return o
}

func (o *Oracle) stateKey() string {
	aw := "ro"
	if o.W.AllowWrite {
		aw = "rw"
	}
	return fmt.Sprintf("d%d/r%d/w%d/%s", o.dir, o.ro, o.wo, aw)
}

func (o *Oracle) cover(op wire.Op, outcome string) {
	o.Cover[o.curState+" "+op.String()+" "+outcome]++
	o.Trace = append(o.Trace, fmt.Sprintf("%s -> %s", o.curReq, outcome))
}

// ---------------------------------------------------------------------------------------------
// path resolution

type target struct {
	os      string // OS path ("" = non-existent by rule)
	missing bool
}

// Resolve returns the admissible targets of a request path and whether it names a virtual image.
// For ordinary paths there is exactly one target: root + Clean("/"+p). For paths whose ".."
// components dip above the root the admissible set is {clamped target, OS-semantics target if it
// lies inside the root, non-existent}.
func (w *World) Resolve(p []byte) (targets []target, clamp string, escaping bool) {
	raw := string(p)
	clamp = path.Clean("/" + raw)
	if strings.IndexByte(raw, 0) >= 0 {
		if strings.IndexByte(clamp, 0) >= 0 {
			return []target{{missing: true}}, clamp, false // the OS cannot name such a path
		}
		// the NUL sits in a component that ".." cancels lexically: the cleaned path or "no such path"
		return []target{{os: filepath.Join(w.Root, clamp)}, {missing: true}}, clamp, true
	}
	depth := 0
	for _, c := range strings.Split(raw, "/") {
		switch c {
		case "", ".":
		case "..":
			depth--
			if depth < 0 {
				escaping = true
			}
		default:
			depth++
		}
	}
	targets = []target{{os: filepath.Join(w.Root, clamp)}}
	if escaping {
		osSem := filepath.Clean(w.Root + "/" + raw)
		if osSem == w.Root || strings.HasPrefix(osSem, w.Root+"/") {
			if osSem != targets[0].os {
				targets = append(targets, target{os: osSem})
			}
		}
		targets = append(targets, target{missing: true})
	}
	return
}

// VirtualOf classifies the path as the server's OPEN does: after Clean (not rooted), a leading
// "/***DVD***/" or "/***PS3***/" selects a generated image of the remaining path.
func VirtualOf(p []byte) (kind int, rel string, certain bool) {
	raw := string(p)
	c := path.Clean(raw)
	for k, pre := range map[int]string{VirtDVD: "/***DVD***/", VirtPS3: "/***PS3***/"} {
		if strings.HasPrefix(c, pre) {
			return k, c[len(pre)-1:], true
		}
		// a relative spelling only becomes the prefix after rooting: the statement does not say
		// whether it is honoured, so the answer is not judged.
		if strings.HasPrefix(path.Clean("/"+raw), pre) {
			return k, path.Clean("/" + raw)[len(pre)-1:], false
		}
	}
	return VirtNone, "", true
}

func lstat(p string) (*syscall.Stat_t, error) {
	var st syscall.Stat_t
	if err := syscall.Lstat(p, &st); err != nil {
		return nil, err
	}
	return &st, nil
}

func stat(p string) (*syscall.Stat_t, error) {
	var st syscall.Stat_t
	if err := syscall.Stat(p, &st); err != nil {
		return nil, err
	}
	return &st, nil
}

func isDir(st *syscall.Stat_t) bool { return st.Mode&syscall.S_IFMT == syscall.S_IFDIR }
func isReg(st *syscall.Stat_t) bool { return st.Mode&syscall.S_IFMT == syscall.S_IFREG }

// ---------------------------------------------------------------------------------------------

func (o *Oracle) timeoutFail(op wire.Op, what string) *Fail {
	if o.W.Probe != nil {
		if err := o.W.Probe(); err == nil {
			return fail("no-response", op.String(), "%s: no (complete) response within the watchdog while a fresh connection was answered", what)
		}
	}
	return &Fail{Rule: "watchdog", Feature: op.String(), Detail: what + ": watchdog fired and the server did not answer a probe either", Inconclusive: true}
}

// readFull reads exactly n response bytes or explains why it could not.
func (o *Oracle) readFull(op wire.Op, n int, what string) ([]byte, *Fail) {
	b, st := o.T.ReadN(n)
	switch st {
	case wire.Full:
		return b, nil
	case wire.Closed:
		o.Closed = true
		return b, fail("short-response", op.String(), "%s: connection closed after %d of %d response bytes", what, len(b), n)
	default:
		return b, o.timeoutFail(op, fmt.Sprintf("%s (%d of %d bytes)", what, len(b), n))
	}
}

// expectClose requires that the server ends the connection without sending anything.
func (o *Oracle) expectClose(op wire.Op, what string) *Fail {
	stray, st := o.T.ExpectEOF()
	o.Closed = true
	if len(stray) > 0 {
		return fail("stray-bytes", op.String(), "%s: %d stray bytes before close: %x", what, len(stray), head(stray))
	}
	if st == wire.Timeout {
		o.Closed = false
		return o.timeoutFailClose(op, what)
	}
	return nil
}

func (o *Oracle) timeoutFailClose(op wire.Op, what string) *Fail {
	if o.W.Probe != nil {
		if err := o.W.Probe(); err == nil {
			return fail("not-closed", op.String(), "%s: the connection must be ended but stayed open and silent", what)
		}
	}
	return &Fail{Rule: "watchdog", Feature: op.String(), Detail: what + ": watchdog while waiting for close", Inconclusive: true}
}

func head(b []byte) []byte {
	if len(b) > 32 {
		return b[:32]
	}
	return b
}

// Step sends one request and checks the response. It returns nil when the behaviour is admissible.
func (o *Oracle) Step(r wire.Req) *Fail {
	o.curState = o.stateKey()
	o.curReq = r.String()
	if o.Closed {
		return nil
	}
	mc := o.maybeClosed
	o.maybeClosed = false
	o.stepBytes = 0
	var before map[string]string
	if o.W.SnapDir != "" {
		before = Snapshot(o.W.SnapDir)
		o.touched = nil
	}
	f := o.dispatch(r)
	if f == nil && before != nil {
		after := Snapshot(o.W.SnapDir)
		allowed := append([]string{}, o.touched...)
		for p := range o.Uploads {
			allowed = append(allowed, p) // files being uploaded may reach the disk at any later point
		}
		if d := SnapDiff(before, after, allowed); len(d) > 0 {
			return fail("collateral-change", r.Op.String(), "%s changed objects other than its target %v: %v", r.String(), o.touched, d)
		}
	}
	if f != nil && mc && o.Closed && o.stepBytes == 0 && (f.Rule == "unexpected-close" || f.Rule == "short-response") {
		o.cover(r.Op, "after-admissible-close")
		o.ClosedEarlier = true // the connection had been ended by the previous request
		return nil
	}
	return f
}

func (o *Oracle) dispatch(r wire.Req) *Fail {
	if r.Raw != nil {
		if f := o.send(r); f != nil {
			return f
		}
		return o.stepRaw(r)
	}
	switch r.Op {
	case wire.OpStat:
		return o.stepStat(r)
	case wire.OpOpen:
		return o.stepOpen(r)
	case wire.OpRead:
		return o.stepRead(r)
	case wire.OpReadCrit:
		return o.stepCrit(r)
	case wire.OpReadCD:
		return o.stepCD(r)
	case wire.OpOpenDir:
		return o.stepOpenDir(r)
	case wire.OpReadDir:
		return o.stepReadDir(r)
	case wire.OpRDE, wire.OpRDE2:
		return o.stepRDE(r)
	case wire.OpDirSize:
		return o.stepDirSize(r)
	case wire.OpCreate:
		return o.stepCreate(r)
	case wire.OpWrite:
		return o.stepWrite(r)
	case wire.OpDelete, wire.OpRmdir:
		return o.stepRemove(r)
	case wire.OpMkdir:
		return o.stepMkdir(r)
	default:
		// unknown opcode: the connection is ended without stray bytes
		if f := o.send(r); f != nil {
			return f
		}
		f := o.expectClose(r.Op, "unknown opcode")
		o.cover(r.Op, "closed")
		return f
	}
}

// send transmits the request; every step calls it after taking its "before" observations.
func (o *Oracle) send(r wire.Req) *Fail {
	if err := o.T.Send(r.Bytes()); err != nil {
		if wire.IsClosedErr(err) {
			// the peer had already closed although the model believed the connection open
			o.Closed = true
			return fail("unexpected-close", r.Op.String(), "send failed: %v (server closed the connection after a request that must not end it)", err)
		}
		return &Fail{Rule: "send", Feature: r.Op.String(), Detail: err.Error(), Inconclusive: true}
	}
	return nil
}

// stepRaw handles verbatim bytes: the caller states through r.Op what they are (0 = garbage whose
// only admissible outcome is judged by the caller).
func (o *Oracle) stepRaw(r wire.Req) *Fail { return nil }

// Finish checks the end of a session: a fence request must be answered exactly, and after the
// client's half-close the server closes without stray bytes.
func (o *Oracle) Finish(closeWrite func()) *Fail {
	if o.Closed {
		return nil
	}
	o.curState = o.stateKey()
	o.curReq = "FENCE"
	mc := o.maybeClosed
	o.maybeClosed = false
	o.stepBytes = 0
	if err := o.T.Send(wire.P(wire.OpStat, "/").Bytes()); err != nil {
		o.Closed = true
		if mc {
			return nil
		}
		return fail("unexpected-close", "FENCE", "send of fence failed: %v", err)
	}
	b, f := o.readFull(wire.OpStat, wire.SzStat, "fence STAT /")
	if f != nil {
		if mc && o.Closed && o.stepBytes == 0 {
			return nil
		}
		f.Feature = "FENCE"
		return f
	}
	s := wire.DecodeStat(b)
	if !s.IsDir || s.Size != 0 {
		return fail("desync", "FENCE", "fence STAT / answered %x: stream is shifted (stray or missing bytes earlier)", b)
	}
	closeWrite()
	stray, st := o.T.ExpectEOF()
	o.Closed = true
	if len(stray) > 0 {
		return fail("stray-bytes", "FENCE", "%d stray bytes after the last response: %x", len(stray), head(stray))
	}
	if st == wire.Timeout {
		return o.timeoutFailClose(wire.OpStat, "after client half-close")
	}
	return nil
}

// ---------------------------------------------------------------------------------------------
// STAT

func inRange(v uint64, a, b int64) bool {
	lo, hi := a, b
	if lo > hi {
		lo, hi = hi, lo
	}
	return int64(v) >= lo && int64(v) <= hi
}

func (o *Oracle) stepStat(r wire.Req) *Fail {
	targets, _, esc := o.W.Resolve(r.Path)
	virt, _, _ := VirtualOf(r.Path)
	before := statTargets(targets)
	if f := o.send(r); f != nil {
		return f
	}
	b, f := o.readFull(r.Op, wire.SzStat, "STAT")
	if f != nil {
		return f
	}
	after := statTargets(targets)
	got := wire.DecodeStat(b)
	if virt != VirtNone {
		o.cover(r.Op, "virtual-free")
		return nil // 33 bytes, content not judged for virtual-image paths
	}
	var why []string
	for i, t := range targets {
		if t.missing || before[i] == nil {
			if got.Size == -1 {
				o.cover(r.Op, pick(esc, "escape-missing", "missing"))
				return nil
			}
			why = append(why, fmt.Sprintf("target %q missing: want size -1", t.os))
			continue
		}
		st, st2 := before[i], after[i]
		if st2 == nil {
			st2 = st
		}
		wantSize := st.Size
		if isDir(st) {
			wantSize = 0
		}
		if got.Size != wantSize {
			why = append(why, fmt.Sprintf("target %q: size %d want %d", t.os, got.Size, wantSize))
			continue
		}
		if got.IsDir != isDir(st) {
			why = append(why, fmt.Sprintf("target %q: isdir %v want %v", t.os, got.IsDir, isDir(st)))
			continue
		}
		if !inRange(got.Mtime, st.Mtim.Sec, st2.Mtim.Sec) {
			why = append(why, fmt.Sprintf("target %q: mtime %d want %d", t.os, got.Mtime, st.Mtim.Sec))
			continue
		}
		if !inRange(got.Ctime, st.Ctim.Sec, st2.Ctim.Sec) {
			why = append(why, fmt.Sprintf("target %q: ctime %d want %d", t.os, got.Ctime, st.Ctim.Sec))
			continue
		}
		if !inRange(got.Atime, st.Atim.Sec, st2.Atim.Sec) {
			why = append(why, fmt.Sprintf("target %q: atime %d want %d..%d", t.os, got.Atime, st.Atim.Sec, st2.Atim.Sec))
			continue
		}
		o.cover(r.Op, pick(esc, "escape-clamped", pick(isDir(st), "dir", "file")))
		return nil
	}
	return fail("stat-truth", pick(esc, "escaping-path", "plain-path"), "STAT %q answered %+v: %s", r.Path, got, strings.Join(why, "; "))
}

func pick(c bool, a, b string) string {
	if c {
		return a
	}
	return b
}

func statTargets(ts []target) []*syscall.Stat_t {
	out := make([]*syscall.Stat_t, len(ts))
	for i, t := range ts {
		if t.missing {
			continue
		}
		if st, err := stat(t.os); err == nil {
			out[i] = st
		}
	}
	return out
}

// ---------------------------------------------------------------------------------------------
// OPEN

func (o *Oracle) stepOpen(r wire.Req) *Fail {
	clean := path.Clean(string(r.Path))
	if strings.IndexByte(string(r.Path), 0) < 0 && path.Base(clean) == "CLOSEFILE" {
		if f := o.send(r); f != nil {
			return f
		}
		b, f := o.readFull(r.Op, wire.SzOpen, "OPEN CLOSEFILE")
		if f != nil {
			return f
		}
		if !bytes.Equal(b, make([]byte, 16)) {
			return fail("closefile", "CLOSEFILE", "OPEN CLOSEFILE answered %x, want 16 zero bytes", b)
		}
		o.ro, o.roView = sNone, nil
		o.cover(r.Op, "closefile")
		return nil
	}
	targets, _, esc := o.W.Resolve(r.Path)
	virt, rel, certain := VirtualOf(r.Path)
	before := statTargets(targets)
	if f := o.send(r); f != nil {
		return f
	}
	b, f := o.readFull(r.Op, wire.SzOpen, "OPEN")
	if f != nil {
		return f
	}
	got := wire.DecodeOpen(b)
	prevView := o.roView
	_ = prevView
	if virt != VirtNone {
		if !certain || o.W.Views == nil {
			o.ro, o.roView = sFree, nil
			o.cover(r.Op, "virtual-free")
			return nil
		}
		v, mustFail, ok := o.W.Views(o.W, "", virt, rel)
		switch {
		case !ok:
			o.ro, o.roView = sFree, nil
			o.cover(r.Op, "virtual-free")
			return nil
		case mustFail:
			if got.Size != -1 {
				return fail("open-virtual", "must-fail", "OPEN %q answered size %d, want -1 (not a directory / no such directory)", r.Path, got.Size)
			}
			o.ro, o.roView = sUnknown, prevView
			o.cover(r.Op, "virtual-fail")
			return nil
		default:
			if got.Size != v.Size() {
				return fail("open-size", "virtual-image", "OPEN %q announced size %d, want %d", r.Path, got.Size, v.Size())
			}
			o.ro, o.roView, o.roPath = sOpen, v, ""
			o.roSect = sectorSizeOf(v)
			o.cover(r.Op, "virtual-image")
			return nil
		}
	}
	var why []string
	for i, t := range targets {
		if t.missing || before[i] == nil {
			if got.Size == -1 {
				o.ro, o.roView = sUnknown, prevView
				o.cover(r.Op, pick(esc, "escape-missing", "missing"))
				return nil
			}
			why = append(why, fmt.Sprintf("target %q missing: want -1", t.os))
			continue
		}
		st := before[i]
		if isDir(st) {
			o.ro, o.roView = sFree, nil // OPEN of a directory: 16 bytes, content free
			o.cover(r.Op, "dir-free")
			return nil
		}
		if !isReg(st) {
			o.ro, o.roView = sFree, nil
			o.cover(r.Op, "special-free")
			return nil
		}
		var v View
		ok := false
		mustFail := false
		if o.W.Views != nil {
			v, mustFail, ok = o.W.Views(o.W, t.os, VirtNone, "")
		}
		if !ok {
			if got.Size == -1 {
				o.ro, o.roView = sUnknown, prevView
			} else {
				o.ro, o.roView = sFree, nil
			}
			o.cover(r.Op, "view-free")
			return nil
		}
		if mustFail {
			if got.Size == -1 {
				o.ro, o.roView = sUnknown, prevView
				o.cover(r.Op, "view-fail")
				return nil
			}
			why = append(why, fmt.Sprintf("target %q: must be refused", t.os))
			continue
		}
		if got.Size != v.Size() {
			why = append(why, fmt.Sprintf("target %q (%s): size %d want %d", t.os, v.Kind(), got.Size, v.Size()))
			continue
		}
		if !v.MtimeFree() && int64(got.Mtime) != st.Mtim.Sec {
			why = append(why, fmt.Sprintf("target %q: mtime %d want %d", t.os, got.Mtime, st.Mtim.Sec))
			continue
		}
		o.ro, o.roView, o.roPath = sOpen, v, t.os
		o.roSect = sectorSizeOf(v)
		o.cover(r.Op, pick(esc, "escape-clamped", v.Kind()))
		return nil
	}
	return fail("open-truth", pick(esc, "escaping-path", "plain-path"), "OPEN %q answered %+v: %s", r.Path, got, strings.Join(why, "; "))
}

// ---------------------------------------------------------------------------------------------
// READ / READCRIT / READCD

func (o *Oracle) expectBytes(op wire.Op, v View, off int64, n int64, what string) *Fail {
	const chunk = 1 << 20
	want := make([]byte, min(n, chunk))
	for done := int64(0); done < n; {
		k := min(n-done, chunk)
		b, st := o.T.ReadN(int(k))
		if err := v.ReadAt(want[:len(b)], off+done); err != nil {
			return &Fail{Rule: "harness", Feature: "view-read", Detail: err.Error(), Inconclusive: true}
		}
		o.BytesCompared += int64(len(b))
		if dc, ok := v.(DontCarer); ok {
			for _, r := range dc.DontCare() {
				lo, hi := max(r[0], off+done), min(r[1], off+done+int64(len(b)))
				for x := lo; x < hi; x++ {
					want[x-off-done] = b[x-off-done]
				}
			}
		}
		if i := firstDiff(b, want[:len(b)]); i >= 0 {
			return fail("wrong-bytes", v.Kind(), "%s: byte at view offset %d is %#02x, want %#02x (request off=%d)", what, off+done+int64(i), b[i], want[i], off)
		}
		switch st {
		case wire.Closed:
			o.Closed = true
			return fail("short-response", op.String(), "%s: connection closed after %d of %d data bytes", what, done+int64(len(b)), n)
		case wire.Timeout:
			return o.timeoutFail(op, fmt.Sprintf("%s (%d of %d data bytes)", what, done+int64(len(b)), n))
		}
		done += k
	}
	return nil
}

func firstDiff(a, b []byte) int {
	if bytes.Equal(a, b) {
		return -1
	}
	for i := range a {
		if a[i] != b[i] {
			return i
		}
	}
	return -1
}

func (o *Oracle) stepRead(r wire.Req) *Fail {
	if f := o.send(r); f != nil {
		return f
	}
	switch o.ro {
	case sOpen:
		if r.N >= 1<<31 {
			return o.readLoose(r)
		}
		// "every read request (offset, limit < 2^31)": the offset is the 64-bit unsigned field of the
		// request, whatever its value; at or beyond the object's size the answer is a count of 0
		v := o.roView
		m := int64(0)
		if r.Off < uint64(v.Size()) {
			m = min(int64(r.N), v.Size()-int64(r.Off))
		}
		b, f := o.readFull(r.Op, 4, "READ length announcement")
		if f != nil {
			return f
		}
		if got := int64(wire.I32(b)); got != m {
			// the count is wrong (the object's size is C02's subject); whether the response is at least
			// self-consistent - the announced bytes do follow - is a framing question of its own
			if got > 0 && got <= int64(r.N) {
				if _, f := o.readFull(r.Op, int(got), fmt.Sprintf("READ body of the %d announced bytes (the object holds %d there)", got, m)); f != nil {
					return f
				}
			}
			return fail("read-announce", v.Kind(), "READ n=%d off=%d on a %d-byte %s announced %d, want %d", r.N, r.Off, v.Size(), v.Kind(), got, m)
		}
		if f := o.expectBytes(r.Op, v, int64(r.Off), m, fmt.Sprintf("READ n=%d off=%d", r.N, r.Off)); f != nil {
			return f
		}
		o.cover(r.Op, fmt.Sprintf("ok-%s", cls(m, int64(r.N))))
		return nil
	default:
		return o.readLoose(r)
	}
}

func cls(m, n int64) string {
	switch {
	case m == 0:
		return "zero"
	case m < n:
		return "clipped"
	}
	return "full"
}

// readLoose: no (known) open file, or out-of-claim arguments. Admissible: the connection is ended
// without bytes, or a non-positive count is announced and the conversation continues; if a
// previous view may survive (unknown slot), its semantics are admissible too. Framing must hold:
// an announced positive count must be followed by that many bytes.
func (o *Oracle) readLoose(r wire.Req) *Fail {
	b, st := o.T.ReadN(4)
	if st == wire.Closed {
		o.Closed = true
		if len(b) != 0 {
			return fail("stray-bytes", r.Op.String(), "READ without open file: %d stray bytes then close", len(b))
		}
		o.cover(r.Op, "noview-closed")
		return nil
	}
	if st == wire.Timeout {
		return o.timeoutFail(r.Op, "READ without usable file")
	}
	m := int64(wire.I32(b))
	if m <= 0 {
		o.cover(r.Op, "noview-nonpositive")
		return nil
	}
	if o.ro == sNone {
		return fail("read-nofile", "data-without-file", "READ with no open file announced %d bytes", m)
	}
	if o.ro == sUnknown && o.roView != nil && r.N < 1<<31 && r.Off < 1<<62 {
		v := o.roView
		want := int64(0)
		if int64(r.Off) < v.Size() {
			want = min(int64(r.N), v.Size()-int64(r.Off))
		}
		if m != want {
			return fail("read-announce", "after-failed-open", "READ announced %d, previous view would give %d", m, want)
		}
		if f := o.expectBytes(r.Op, v, int64(r.Off), m, "READ (previous view)"); f != nil {
			return f
		}
		o.cover(r.Op, "prev-view")
		return nil
	}
	// content free, framing only
	if m > int64(r.N) {
		return fail("read-announce", "more-than-limit", "READ announced %d > limit %d", m, r.N)
	}
	// the content is not judged here (e.g. a directory opened as a file): the announced bytes may
	// arrive, or the connection may be ended inside them (prefix then EOF)
	if _, f := o.readFull(r.Op, int(m), "READ body (free content)"); f != nil {
		if f.Rule == "short-response" && o.Closed {
			o.cover(r.Op, "free-cut")
			return nil
		}
		return f
	}
	o.cover(r.Op, "free")
	return nil
}

// critBytes checks a critical transfer of segments [off,off+len) of the view: all bytes, or a correct
// prefix followed by EOF when the range is not fully inside the view.
func (o *Oracle) critSegments(r wire.Req, v View, segs [][2]int64, what string) *Fail {
	for _, s := range segs {
		off, n := s[0], s[1]
		avail := int64(0)
		if off >= 0 && off < v.Size() {
			avail = min(n, v.Size()-off)
		}
		if avail > 0 {
			// read what the view can provide; a close inside is only admissible if the whole
			// request is unsatisfiable -- for satisfiable segments every byte is due.
			f := o.expectBytes(r.Op, v, off, avail, what)
			if f != nil {
				if f.Rule == "short-response" && !o.critSatisfiable(v, segs) {
					o.cover(r.Op, "unsat-prefix-closed")
					return nil
				}
				return f
			}
		}
		if avail < n {
			// unsatisfiable here: connection must end now without further bytes
			f := o.expectClose(r.Op, what+": range exceeds the object, connection must end")
			o.cover(r.Op, "unsat-closed")
			return f
		}
	}
	o.cover(r.Op, "ok")
	return nil
}

func (o *Oracle) critSatisfiable(v View, segs [][2]int64) bool {
	for _, s := range segs {
		if s[0] < 0 || s[0]+s[1] > v.Size() {
			return false
		}
	}
	return true
}

func (o *Oracle) critLoose(r wire.Req, maxBytes int64) *Fail {
	// no known file: the connection must end; bytes before the close are only admissible when a
	// previous view may have survived (then they must be its bytes) or the slot is free.
	if maxBytes == 0 {
		// nothing to transfer: whether a file-less / unknown slot ends the connection is not specified
		o.maybeClosed = true
		o.cover(r.Op, "zero-either")
		return nil
	}
	switch o.ro {
	case sNone:
		f := o.expectClose(r.Op, r.Op.String()+" with no open file")
		o.cover(r.Op, "nofile-closed")
		return f
	default:
		// free / unknown: accept up to maxBytes bytes followed by either continuation or close.
		// We cannot know how many bytes will come; read until maxBytes or close.
		b, st := o.T.ReadN(int(min(maxBytes, 1<<26)))
		if st == wire.Closed {
			o.Closed = true
			o.cover(r.Op, "free-closed")
			return nil
		}
		if st == wire.Timeout {
			return o.timeoutFail(r.Op, r.Op.String()+" on unknown slot")
		}
		_ = b
		o.cover(r.Op, "free-data")
		return nil
	}
}

func (o *Oracle) stepCrit(r wire.Req) *Fail {
	if f := o.send(r); f != nil {
		return f
	}
	if o.ro != sOpen || r.N >= 1<<31 || (r.N == 0 && r.Off > 1<<62) {
		if o.ro == sOpen {
			// out-of-claim arguments on a known file: not satisfiable in practice -> must end or deliver prefix
			o.ro = sFree
		}
		return o.critLoose(r, int64(r.N))
	}
	return o.critSegments(r, o.roView, [][2]int64{{int64(r.Off), int64(r.N)}}, fmt.Sprintf("READCRIT n=%d off=%d", r.N, r.Off))
}

func (o *Oracle) stepCD(r wire.Req) *Fail {
	if f := o.send(r); f != nil {
		return f
	}
	if o.ro != sOpen || r.Count > 1<<16 {
		if o.ro == sOpen {
			o.ro = sFree
		}
		return o.critLoose(r, int64(r.Count)*2048)
	}
	S := o.roSect
	segs := make([][2]int64, 0, r.Count)
	for k := int64(0); k < int64(r.Count); k++ {
		segs = append(segs, [2]int64{24 + (int64(r.Start)+k)*S, 2048})
	}
	return o.critSegments(r, o.roView, segs, fmt.Sprintf("READCD start=%d count=%d (sector size %d)", r.Start, r.Count, S))
}

var cdSizes = []int64{2048, 2328, 2336, 2340, 2352, 2368, 2448}

// sectorSizeOf implements the statement of C17: recognised from the ISO 9660 or PLAYSTATION
// signature in the image's 16th sector for images between 2 MiB and 848 MiB, else 2352.
func sectorSizeOf(v View) int64 {
	if v.Size() < 0x200000 || v.Size() > 0x35000000 {
		return 2352
	}
	buf := make([]byte, 20)
	for _, s := range cdSizes {
		off := 24 + 16*s
		if off+20 > v.Size() {
			continue
		}
		if v.ReadAt(buf, off) != nil {
			continue
		}
		if string(buf[0:6]) == "\x01CD001" || string(buf[8:20]) == "PLAYSTATION " {
			return s
		}
	}
	return 2352
}

// ---------------------------------------------------------------------------------------------
// directories

func listDir(p string) (map[string]dirEnt, error) {
	names, err := readNames(p)
	if err != nil {
		return nil, err
	}
	out := map[string]dirEnt{}
	for _, n := range names {
		st, err := stat(filepath.Join(p, n)) // resolves symlinks; dangling ones are omitted
		if err != nil {
			continue
		}
		e := dirEnt{name: n, isDir: isDir(st), size: st.Size, st: *st}
		if e.isDir {
			e.size = 0
		}
		out[n] = e
	}
	return out, nil
}

func readNames(p string) ([]string, error) {
	f, err := os.Open(p)
	if err != nil {
		return nil, err
	}
	defer f.Close()
	return f.Readdirnames(-1)
}

func (o *Oracle) stepOpenDir(r wire.Req) *Fail {
	targets, _, esc := o.W.Resolve(r.Path)
	virt, _, _ := VirtualOf(r.Path)
	before := statTargets(targets)
	if f := o.send(r); f != nil {
		return f
	}
	b, f := o.readFull(r.Op, wire.SzResult, "OPENDIR")
	if f != nil {
		return f
	}
	res := wire.I32(b)
	if res != 0 && res != -1 {
		return fail("result-code", r.Op.String(), "OPENDIR answered %d, want 0 or -1", res)
	}
	if virt != VirtNone {
		o.dir = sFree
		o.cover(r.Op, "virtual-free")
		return nil
	}
	var why []string
	for i, t := range targets {
		exists := !t.missing && before[i] != nil
		if exists && isDir(before[i]) {
			if res == 0 {
				ents, err := listDir(t.os)
				if err != nil {
					return &Fail{Rule: "harness", Feature: "listdir", Detail: err.Error(), Inconclusive: true}
				}
				o.dir, o.dirPath, o.dirDirty = sOpen, t.os, false
				o.dirRem = map[string]bool{}
				for n := range ents {
					o.dirRem[n] = true
				}
				o.cover(r.Op, pick(esc, "escape-clamped", "dir"))
				return nil
			}
			why = append(why, fmt.Sprintf("%q is a directory: want 0", t.os))
			continue
		}
		if res == -1 {
			o.dir = sFree // the statement does not say which directory (if any) is open now
			o.cover(r.Op, pick(exists, "notdir", pick(esc, "escape-missing", "missing")))
			return nil
		}
		why = append(why, fmt.Sprintf("%q is not an existing directory: want -1", t.os))
	}
	return fail("opendir-truth", pick(esc, "escaping-path", "plain-path"), "OPENDIR %q answered %d: %s", r.Path, res, strings.Join(why, "; "))
}

func (o *Oracle) checkEntry(op wire.Op, e wire.Entry, lo, hi time.Time) *Fail {
	if e.Name == "." || e.Name == ".." {
		return fail("listing", "dot-entry", "%s reported %q", op, e.Name)
	}
	if !o.dirRem[e.Name] {
		return fail("listing", "unknown-or-duplicate", "%s reported %q which is not a remaining entry of %s (duplicate, invented or dangling)", op, e.Name, o.dirPath)
	}
	st, err := stat(filepath.Join(o.dirPath, e.Name))
	if err != nil {
		return fail("listing", "dangling", "%s reported %q which does not resolve: %v", op, e.Name, err)
	}
	wantSize := st.Size
	if isDir(st) {
		wantSize = 0
	}
	if e.IsDir != isDir(st) || e.Size != wantSize {
		return fail("listing", "kind-size", "%s entry %q: isdir=%v size=%d, want isdir=%v size=%d", op, e.Name, e.IsDir, e.Size, isDir(st), wantSize)
	}
	if e.HasTimes >= 1 && int64(e.Mtime) != st.Mtim.Sec {
		return fail("listing", "mtime", "%s entry %q: mtime %d want %d", op, e.Name, e.Mtime, st.Mtim.Sec)
	}
	if e.HasTimes == 3 {
		if int64(e.Ctime) != st.Ctim.Sec {
			return fail("listing", "ctime", "%s entry %q: ctime %d want %d", op, e.Name, e.Ctime, st.Ctim.Sec)
		}
		// atime may move while anybody reads the object
		if int64(e.Atime) < st.Atim.Sec-int64(hi.Sub(lo).Seconds())-2 || int64(e.Atime) > st.Atim.Sec+1 {
			if int64(e.Atime) != st.Atim.Sec {
				return fail("listing", "atime", "%s entry %q: atime %d want about %d", op, e.Name, e.Atime, st.Atim.Sec)
			}
		}
	}
	delete(o.dirRem, e.Name)
	return nil
}

func (o *Oracle) stepReadDir(r wire.Req) *Fail {
	if f := o.send(r); f != nil {
		return f
	}
	b, f := o.readFull(r.Op, 8, "READDIR count")
	if f != nil {
		return f
	}
	cnt := wire.I64(b)
	if cnt < 0 || cnt > 1<<22 {
		return fail("listing", "count", "READDIR announced %d entries", cnt)
	}
	judge := o.dir == sOpen && !o.dirDirty
	if o.dir == sNone || o.dir == sExhausted {
		if cnt != 0 {
			return fail("listing", "no-open-dir", "READDIR with no (or an exhausted) directory announced %d entries, want 0", cnt)
		}
		o.cover(r.Op, "nodir-zero")
		return nil
	}
	if judge && cnt != int64(len(o.dirRem)) {
		// read the entries anyway to name what is wrong
		names := []string{}
		for i := int64(0); i < cnt; i++ {
			eb, f := o.readFull(r.Op, wire.SzDirEnt, "READDIR entry")
			if f != nil {
				return f
			}
			names = append(names, cstr(eb[17:]))
		}
		sort.Strings(names)
		return fail("listing", "count", "READDIR of %s announced %d entries, want %d (got %v)", o.dirPath, cnt, len(o.dirRem), trimList(names))
	}
	for i := int64(0); i < cnt; i++ {
		eb, f := o.readFull(r.Op, wire.SzDirEnt, "READDIR entry")
		if f != nil {
			return f
		}
		if judge {
			e := wire.Entry{Size: wire.I64(eb), Mtime: wire.BE64(eb[8:]), IsDir: eb[16] != 0, Name: cstr(eb[17:]), HasTimes: 1}
			if eb[16] > 1 {
				return fail("listing", "isdir-byte", "READDIR entry %q has is-directory byte %d", e.Name, eb[16])
			}
			if f := o.checkEntry(r.Op, e, o.W.Start, time.Now()); f != nil {
				return f
			}
		}
	}
	if judge {
		o.dir = sExhausted
		o.cover(r.Op, fmt.Sprintf("listed-%s", sizeClass(cnt)))
	} else {
		o.cover(r.Op, "free")
	}
	return nil
}

func sizeClass(n int64) string {
	switch {
	case n == 0:
		return "0"
	case n == 1:
		return "1"
	case n < 100:
		return "few"
	}
	return "many"
}

func trimList(s []string) []string {
	if len(s) > 12 {
		return append(s[:12:12], "...")
	}
	return s
}

func cstr(b []byte) string {
	if i := bytes.IndexByte(b, 0); i >= 0 {
		return string(b[:i])
	}
	return string(b)
}

func (o *Oracle) stepRDE(r wire.Req) *Fail {
	hdr := wire.SzRDE
	if r.Op == wire.OpRDE2 {
		hdr = wire.SzRDE2
	}
	if f := o.send(r); f != nil {
		return f
	}
	b, f := o.readFull(r.Op, hdr, r.Op.String()+" header")
	if f != nil {
		return f
	}
	var e wire.Entry
	var nl int
	e.Size = wire.I64(b)
	if r.Op == wire.OpRDE {
		nl = int(uint16(b[8])<<8 | uint16(b[9]))
		e.IsDir = b[10] != 0
	} else {
		e.Mtime, e.Ctime, e.Atime = wire.BE64(b[8:]), wire.BE64(b[16:]), wire.BE64(b[24:])
		nl = int(uint16(b[32])<<8 | uint16(b[33]))
		e.IsDir = b[34] != 0
		e.HasTimes = 3
	}
	end := e.Size == -1
	if end {
		if nl != 0 {
			return fail("listing", "end-marker", "%s end marker carries name length %d", r.Op, nl)
		}
	} else {
		nb, f := o.readFull(r.Op, nl, r.Op.String()+" name")
		if f != nil {
			return f
		}
		e.Name = string(nb)
	}
	switch {
	case o.dir == sOpen && !o.dirDirty:
		if end {
			if len(o.dirRem) != 0 {
				return fail("listing", "early-end", "%s end marker while %d entries of %s were not reported yet (%v)", r.Op, len(o.dirRem), o.dirPath, trimList(keys(o.dirRem)))
			}
			o.dir = sNone
			o.cover(r.Op, "end")
			return nil
		}
		if nl == 0 {
			return fail("listing", "empty-name", "%s reported an entry with empty name", r.Op)
		}
		if f := o.checkEntry(r.Op, e, o.W.Start, time.Now()); f != nil {
			return f
		}
		o.cover(r.Op, "entry")
		return nil
	case o.dir == sNone || o.dir == sExhausted:
		if !end {
			return fail("listing", "no-open-dir", "%s with no (or an exhausted) directory reported entry %q, want the end marker", r.Op, e.Name)
		}
		o.dir = sNone
		o.cover(r.Op, "nodir-end")
		return nil
	default:
		if end {
			o.dir = sNone
		}
		o.cover(r.Op, "free")
		return nil
	}
}

func keys(m map[string]bool) []string {
	var k []string
	for n := range m {
		k = append(k, n)
	}
	sort.Strings(k)
	return k
}

func dirTotal(p string, follow int) int64 {
	var total int64
	var walk func(string)
	walk = func(d string) {
		names, err := readNames(d)
		if err != nil {
			return
		}
		for _, n := range names {
			full := filepath.Join(d, n)
			lst, err := lstat(full)
			if err != nil {
				continue
			}
			st := lst
			if lst.Mode&syscall.S_IFMT == syscall.S_IFLNK {
				if follow == 0 {
					continue
				}
				st, err = stat(full)
				if err != nil {
					continue
				}
				if isDir(st) && follow < 2 {
					continue // symlinked directories: followed only in mode 2 (the generator creates no cycles)
				}
			}
			if isDir(st) {
				walk(full)
			} else if isReg(st) {
				total += st.Size
			}
		}
	}
	walk(p)
	return total
}

func (o *Oracle) stepDirSize(r wire.Req) *Fail {
	targets, _, esc := o.W.Resolve(r.Path)
	virt, _, _ := VirtualOf(r.Path)
	before := statTargets(targets)
	if f := o.send(r); f != nil {
		return f
	}
	b, f := o.readFull(r.Op, wire.SzDirSize, "DIRSIZE")
	if f != nil {
		return f
	}
	got := wire.I64(b)
	if virt != VirtNone {
		o.cover(r.Op, "virtual-free")
		return nil
	}
	var why []string
	for i, t := range targets {
		if t.missing || before[i] == nil || !isDir(before[i]) {
			// not a directory or missing: 8 bytes, value not judged
			o.cover(r.Op, "notdir-free")
			return nil
		}
		a, c, d := dirTotal(t.os, 0), dirTotal(t.os, 1), dirTotal(t.os, 2)
		if got == a || got == c || got == d {
			o.cover(r.Op, pick(esc, "escape-clamped", "dir"))
			return nil
		}
		why = append(why, fmt.Sprintf("%q: want %d (or %d / %d with symlinked files / directories followed)", t.os, a, c, d))
	}
	return fail("dirsize", pick(esc, "escaping-path", "plain-path"), "DIRSIZE %q answered %d: %s", r.Path, got, strings.Join(why, "; "))
}

// ---------------------------------------------------------------------------------------------
// mutating requests

type snapEnt struct {
	mode uint32
	size int64
	sum  string
}

func (o *Oracle) readResult(r wire.Req) (int32, *Fail) {
	if f := o.send(r); f != nil {
		return 0, f
	}
	b, f := o.readFull(r.Op, wire.SzResult, r.Op.String()+" result")
	if f != nil {
		return 0, f
	}
	return wire.I32(b), nil
}

func (o *Oracle) markDirty(osPath string) {
	if o.dir == sOpen && filepath.Dir(osPath) == o.dirPath {
		o.dirDirty = true
	}
}

func (o *Oracle) stepCreate(r wire.Req) *Fail {
	targets, _, esc := o.W.Resolve(r.Path)
	virt, _, _ := VirtualOf(r.Path)
	before := make([]*syscall.Stat_t, len(targets))
	parentOK := make([]bool, len(targets))
	for i, t := range targets {
		if t.missing {
			continue
		}
		before[i], _ = stat(t.os)
		if pst, err := stat(filepath.Dir(t.os)); err == nil && isDir(pst) {
			parentOK[i] = true
		}
	}
	res, f := o.readResult(r)
	if f != nil {
		return f
	}
	if res != 0 && res != -1 {
		return fail("result-code", r.Op.String(), "CREATE answered %d", res)
	}
	if !o.W.AllowWrite {
		if res != -1 {
			return fail("write-gate", "CREATE", "CREATE %q answered %d with writing disabled, want -1", r.Path, res)
		}
		o.cover(r.Op, "refused")
		return nil
	}
	if virt != VirtNone {
		if res != -1 {
			return fail("virtual-write", "CREATE", "CREATE through a virtual-image path %q answered %d, want -1", r.Path, res)
		}
		o.wo, o.woPath = sNone, "" // create-file closes the active write file first, whatever happens next
		o.cover(r.Op, "virtual-refused")
		return nil
	}
	var why []string
	for i, t := range targets {
		if t.missing {
			if res == -1 {
				o.wo, o.woPath = sNone, ""
				o.cover(r.Op, "escape-missing")
				return nil
			}
			continue
		}
		st := before[i]
		switch {
		case st != nil && isDir(st):
			o.wo, o.woPath = sNone, "" // "closing": 4 bytes, value free
			o.cover(r.Op, "dir-free")
			return nil
		case st != nil && !isReg(st):
			o.wo = sUnknown
			o.cover(r.Op, "special-free")
			return nil
		case parentOK[i] && strings.IndexByte(t.os, 0) < 0 && len(filepath.Base(t.os)) <= 255:
			if res == 0 {
				now, err := stat(t.os)
				if err != nil || !isReg(now) || now.Size != 0 {
					return fail("create-effect", pick(st == nil, "new-file", "existing-file"), "CREATE %q answered 0 but %s is not an empty regular file afterwards (err=%v)", r.Path, t.os, err)
				}
				o.wo, o.woPath = sOpen, t.os
				if o.ro == sOpen && t.os == o.roPath {
					if _, plain := o.roView.(*PlainView); !plain {
						o.ro = sFree // source of a transformed view rewritten underneath it
					}
				}
				o.Uploads[t.os] = []byte{}
				o.touched = append(o.touched, t.os)
				o.markDirty(t.os)
				o.cover(r.Op, pick(st == nil, "new", "truncate"))
				return nil
			}
			why = append(why, fmt.Sprintf("%q can be created (parent exists): want 0", t.os))
		default:
			if res == -1 {
				o.wo, o.woPath = sNone, ""
				o.cover(r.Op, "noparent")
				return nil
			}
			why = append(why, fmt.Sprintf("%q has no parent directory: want -1", t.os))
		}
	}
	feat := "new-file"
	if len(targets) > 0 && before[0] != nil {
		feat = "existing-file"
	}
	if esc {
		feat = "escaping-path"
	}
	return fail("create-truth", feat, "CREATE %q answered %d: %s", r.Path, res, strings.Join(why, "; "))
}

func (o *Oracle) stepWrite(r wire.Req) *Fail {
	res, f := o.readResult(r)
	if f != nil {
		return f
	}
	n := int32(len(r.Payload))
	switch {
	case !o.W.AllowWrite:
		if res != -1 {
			return fail("write-gate", "WRITE", "WRITE answered %d with writing disabled, want -1", res)
		}
		o.cover(r.Op, "refused")
	case o.wo == sNone:
		if res != -1 {
			return fail("write-nofile", "WRITE", "WRITE with no file open for writing answered %d, want -1", res)
		}
		o.cover(r.Op, "nofile")
	case o.wo == sOpen:
		o.touched = append(o.touched, o.woPath)
		if res != n {
			return fail("write-result", "WRITE", "WRITE of %d bytes to %s answered %d", n, o.woPath, res)
		}
		// the stored bytes are verified when the upload is over (VerifyUploads): the statement
		// does not say that every WRITE is on disk before its answer.
		o.Uploads[o.woPath] = append(o.Uploads[o.woPath], r.Payload...)
		o.cover(r.Op, "stored-"+sizeClass(int64(n)))
	default:
		if res != -1 && res != n {
			return fail("write-result", "WRITE", "WRITE of %d bytes answered %d", n, res)
		}
		if res == n && o.woPath != "" {
			delete(o.Uploads, o.woPath) // may or may not have gone to the previous file: not judged
			o.touched = append(o.touched, o.woPath)
		}
		o.cover(r.Op, "free")
	}
	return nil
}

// VerifyUploads compares every file uploaded during the session with the concatenation of its
// payloads. It is called after the connection has ended; it polls up to wait for the server to
// finish closing the file.
func (o *Oracle) VerifyUploads(wait time.Duration) *Fail {
	deadline := time.Now().Add(wait)
	for {
		var bad *Fail
		for p, want := range o.Uploads {
			got, err := os.ReadFile(p)
			if err != nil {
				bad = fail("upload-content", "missing", "uploaded file %s cannot be read back: %v", p, err)
				break
			}
			if !bytes.Equal(got, want) {
				bad = fail("upload-content", "differs", "uploaded file %s holds %d bytes, the concatenated payloads are %d bytes (first difference at %d)", p, len(got), len(want), firstDiffLen(got, want))
				break
			}
		}
		if bad == nil || time.Now().After(deadline) {
			return bad
		}
		time.Sleep(20 * time.Millisecond)
	}
}

func firstDiffLen(a, b []byte) int {
	for i := 0; i < len(a) && i < len(b); i++ {
		if a[i] != b[i] {
			return i
		}
	}
	return min(len(a), len(b))
}

func sizeOf(st *syscall.Stat_t) any {
	if st == nil {
		return "(missing)"
	}
	return st.Size
}

func (o *Oracle) stepRemove(r wire.Req) *Fail {
	targets, _, esc := o.W.Resolve(r.Path)
	virt, _, _ := VirtualOf(r.Path)
	before := make([]*syscall.Stat_t, len(targets))
	nEntries := make([]int, len(targets))
	for i, t := range targets {
		if t.missing {
			continue
		}
		before[i], _ = lstat(t.os)
		if before[i] != nil && isDir(before[i]) {
			n, _ := readNames(t.os)
			nEntries[i] = len(n)
		}
	}
	res, f := o.readResult(r)
	if f != nil {
		return f
	}
	if res != 0 && res != -1 {
		return fail("result-code", r.Op.String(), "%s answered %d", r.Op, res)
	}
	if !o.W.AllowWrite {
		if res != -1 {
			return fail("write-gate", r.Op.String(), "%s %q answered %d with writing disabled, want -1", r.Op, r.Path, res)
		}
		o.cover(r.Op, "refused")
		return nil
	}
	if virt != VirtNone {
		o.cover(r.Op, "virtual-free")
		return nil
	}
	var why []string
	for i, t := range targets {
		if t.missing {
			if res == -1 {
				o.cover(r.Op, "escape-missing")
				return nil
			}
			continue
		}
		st := before[i]
		after, _ := lstat(t.os)
		if t.os == o.W.Root {
			// the root itself: must not disappear
			if after == nil {
				return fail("remove-root", r.Op.String(), "%s %q removed the served root", r.Op, r.Path)
			}
			if res == -1 {
				o.cover(r.Op, "root-refused")
				return nil
			}
			why = append(why, "root cannot be removed: want -1")
			continue
		}
		switch {
		case st == nil:
			if res == -1 {
				o.cover(r.Op, pick(esc, "escape-missing", "missing"))
				return nil
			}
			why = append(why, fmt.Sprintf("%q does not exist: want -1", t.os))
		default:
			matching := (r.Op == wire.OpDelete && !isDir(st)) || (r.Op == wire.OpRmdir && isDir(st))
			legal := !isDir(st) || nEntries[i] == 0
			gone := after == nil
			if res == 0 && !gone {
				return fail("remove-truth", r.Op.String()+"-success-but-present", "%s %q answered 0 but %s still exists", r.Op, r.Path, t.os)
			}
			if res == -1 && gone {
				return fail("remove-truth", r.Op.String()+"-failure-but-gone", "%s %q answered -1 but %s is gone", r.Op, r.Path, t.os)
			}
			if matching && legal && res != 0 {
				why = append(why, fmt.Sprintf("%q can be removed: want 0", t.os))
				continue
			}
			if !legal && res == 0 {
				return fail("remove-truth", "non-empty-dir", "%s %q removed non-empty directory", r.Op, r.Path)
			}
			// "exactly their named effect": delete-file removes files, rmdir removes directories. Symbolic
			// links are left out (whether the link or its target decides is not stated).
			if r.Op == wire.OpRmdir && gone && st.Mode&syscall.S_IFMT == syscall.S_IFLNK {
				// a symbolic link is not a directory, whatever it points to (rmdir(2) refuses it); whether
				// delete-file removes the link or refuses is left open
				return fail("remove-truth", "RMDIR-symlink", "%s %q removed a symbolic link", r.Op, r.Path)
			}
			if !matching && gone && st.Mode&syscall.S_IFMT != syscall.S_IFLNK {
				return fail("remove-truth", r.Op.String()+"-wrong-kind", "%s %q removed a %s", r.Op, r.Path, pick(isDir(st), "directory", "file that is not a directory"))
			}
			if gone {
				if o.ro == sOpen && t.os == o.roPath {
					o.ro = sFree // the open handle now names an unlinked object
				}
				delete(o.Uploads, t.os)
				o.touched = append(o.touched, t.os)
				o.markDirty(t.os)
				if o.wo == sOpen && o.woPath == t.os {
					o.wo = sFree
				}
			}
			o.cover(r.Op, pick(gone, "removed", "kept")+pick(matching, "", "-crosskind"))
			return nil
		}
	}
	return fail("remove-truth", pick(esc, "escaping-path", r.Op.String()), "%s %q answered %d: %s", r.Op, r.Path, res, strings.Join(why, "; "))
}

func (o *Oracle) stepMkdir(r wire.Req) *Fail {
	targets, _, esc := o.W.Resolve(r.Path)
	virt, _, _ := VirtualOf(r.Path)
	before := make([]*syscall.Stat_t, len(targets))
	parentOK := make([]bool, len(targets))
	for i, t := range targets {
		if t.missing {
			continue
		}
		before[i], _ = lstat(t.os)
		if pst, err := stat(filepath.Dir(t.os)); err == nil && isDir(pst) {
			parentOK[i] = true
		}
	}
	res, f := o.readResult(r)
	if f != nil {
		return f
	}
	if res != 0 && res != -1 {
		return fail("result-code", r.Op.String(), "MKDIR answered %d", res)
	}
	if !o.W.AllowWrite {
		if res != -1 {
			return fail("write-gate", "MKDIR", "MKDIR %q answered %d with writing disabled, want -1", r.Path, res)
		}
		o.cover(r.Op, "refused")
		return nil
	}
	if virt != VirtNone {
		o.cover(r.Op, "virtual-free")
		return nil
	}
	var why []string
	for i, t := range targets {
		if t.missing {
			if res == -1 {
				o.cover(r.Op, "escape-missing")
				return nil
			}
			continue
		}
		can := before[i] == nil && parentOK[i] && len(filepath.Base(t.os)) <= 255 && strings.IndexByte(t.os, 0) < 0
		after, _ := lstat(t.os)
		if can {
			if res == 0 {
				if after == nil || !isDir(after) {
					return fail("mkdir-effect", "MKDIR", "MKDIR %q answered 0 but %s is not a directory", r.Path, t.os)
				}
				o.touched = append(o.touched, t.os)
				o.markDirty(t.os)
				o.cover(r.Op, "created")
				return nil
			}
			why = append(why, fmt.Sprintf("%q can be created: want 0", t.os))
			continue
		}
		if res == -1 {
			o.cover(r.Op, pick(before[i] != nil, "exists", "noparent"))
			return nil
		}
		why = append(why, fmt.Sprintf("%q cannot be created: want -1", t.os))
	}
	return fail("mkdir-truth", pick(esc, "escaping-path", "MKDIR"), "MKDIR %q answered %d: %s", r.Path, res, strings.Join(why, "; "))
}
