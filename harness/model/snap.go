package model

import (
	"crypto/sha256"
	"fmt"
	"io"
	"os"
	"path/filepath"
	"sort"
	"strings"
	"syscall"
)

// Snapshot records {path -> type, mode, size, mtime (files only), content hash, link target} of a tree.
// atime is excluded; directory mtimes are excluded (they change when an entry is added or removed).
func Snapshot(root string) map[string]string {
	out := map[string]string{}
	filepath.Walk(root, func(p string, fi os.FileInfo, err error) error {
		if err != nil {
			out[p] = "ERR " + err.Error()
			return nil
		}
		st, _ := fi.Sys().(*syscall.Stat_t)
		switch {
		case fi.Mode()&os.ModeSymlink != 0:
			t, _ := os.Readlink(p)
			out[p] = "L " + t
		case fi.IsDir():
			out[p] = fmt.Sprintf("D %o", fi.Mode().Perm())
		default:
			h := ""
			if fi.Size() <= 64<<20 {
				if f, err := os.Open(p); err == nil {
					hh := sha256.New()
					io.Copy(hh, f)
					f.Close()
					h = fmt.Sprintf("%x", hh.Sum(nil)[:12])
				}
			} else {
				h = "big"
			}
			var ct int64
			if st != nil {
				ct = st.Ctim.Nano()
			}
			out[p] = fmt.Sprintf("F %o %d %d %d %s", fi.Mode().Perm(), fi.Size(), fi.ModTime().UnixNano(), ct, h)
		}
		return nil
	})
	return out
}

// SnapDiff lists the paths whose record differs, ignoring allowed paths (and, for a removed or
// created directory, nothing else: a directory's own record does not depend on its entries).
func SnapDiff(a, b map[string]string, allowed []string) []string {
	ok := map[string]bool{}
	for _, p := range allowed {
		ok[p] = true
	}
	var d []string
	for p, v := range a {
		if w, in := b[p]; (!in || w != v) && !ok[p] {
			d = append(d, fmt.Sprintf("%s: %q -> %q", p, v, b[p]))
		}
	}
	for p, w := range b {
		if _, in := a[p]; !in && !ok[p] {
			d = append(d, fmt.Sprintf("%s: (absent) -> %q", p, w))
		}
	}
	sort.Strings(d)
	if len(d) > 8 {
		d = append(d[:8], fmt.Sprintf("... %d more", len(d)-8))
	}
	return d
}

// SnapString renders a snapshot relative to root (for witnesses).
func SnapString(root string, s map[string]string) []string {
	var out []string
	for p, v := range s {
		out = append(out, strings.TrimPrefix(p, root)+" "+v)
	}
	sort.Strings(out)
	return out
}
