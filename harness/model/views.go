package model

import (
	"os"
)

// PlainView presents the bytes of a file on disk as they are.
type PlainView struct {
	Path string
	Sz   int64
	K    string
}

func NewPlainView(p string) (*PlainView, error) {
	st, err := os.Stat(p)
	if err != nil {
		return nil, err
	}
	return &PlainView{Path: p, Sz: st.Size(), K: "plain"}, nil
}

// Size is the current size of the object: a file that is truncated or grows while it is open
// (by the same session's uploads) presents its current bytes.
func (v *PlainView) Size() int64 {
	if st, err := os.Stat(v.Path); err == nil {
		return st.Size()
	}
	return v.Sz
}
func (v *PlainView) Kind() string    { return v.K }
func (v *PlainView) MtimeFree() bool { return false }
func (v *PlainView) ReadAt(p []byte, off int64) error {
	f, err := os.Open(v.Path)
	if err != nil {
		return err
	}
	defer f.Close()
	_, err = f.ReadAt(p, off)
	return err
}

// BytesView presents an in-memory byte string.
type BytesView struct {
	B     []byte
	K     string
	MFree bool
	DC    [][2]int64
}

func (v *BytesView) DontCare() [][2]int64 { return v.DC }

func (v *BytesView) Size() int64     { return int64(len(v.B)) }
func (v *BytesView) Kind() string    { return v.K }
func (v *BytesView) MtimeFree() bool { return v.MFree }
func (v *BytesView) ReadAt(p []byte, off int64) error {
	copy(p, v.B[off:off+int64(len(p))])
	return nil
}

// PlainViews is the ViewFunc for trees that contain only ordinary files (no PS3ISO directories,
// no watermarks) and where virtual-image opens are not judged.
func PlainViews(w *World, osPath string, virtual int, rel string) (View, bool, bool) {
	if virtual != VirtNone {
		return nil, false, false
	}
	v, err := NewPlainView(osPath)
	if err != nil {
		return nil, false, false
	}
	return v, false, true
}
