// Package tree generates and materialises directory trees from a PRNG; specs are JSON so that a
// replay file can rebuild the exact tree.
package tree

import (
	"fmt"
	"math/rand"
	"os"
	"path/filepath"
	"sort"
	"time"
)

type Node struct {
	Name     string  `json:"name"`
	Dir      bool    `json:"dir,omitempty"`
	Size     int64   `json:"size,omitempty"`
	Seed     int64   `json:"seed,omitempty"`
	Link     string  `json:"link,omitempty"`   // symlink target (relative)
	Sparse   bool    `json:"sparse,omitempty"` // big file: zeros with 64-byte markers at Marks
	Marks    []int64 `json:"marks,omitempty"`
	Mtime    int64   `json:"mtime,omitempty"`
	Bytes    []byte  `json:"bytes,omitempty"` // explicit content
	Children []*Node `json:"children,omitempty"`
}

func Dir(name string, ch ...*Node) *Node { return &Node{Name: name, Dir: true, Children: ch} }
func File(name string, size, seed int64) *Node {
	return &Node{Name: name, Size: size, Seed: seed}
}
func Raw(name string, b []byte) *Node   { return &Node{Name: name, Bytes: b, Size: int64(len(b))} }
func Symlink(name, target string) *Node { return &Node{Name: name, Link: target} }

// Content returns the deterministic content of a generated (non-sparse) file.
func Content(seed, size int64) []byte {
	b := make([]byte, size)
	rand.New(rand.NewSource(seed)).Read(b)
	return b
}

// Marker returns the 64-byte marker written at offset off of a sparse file.
func Marker(seed, off int64) []byte {
	b := make([]byte, 64)
	rand.New(rand.NewSource(seed ^ off*0x9E3779B97F4A7C)).Read(b)
	copy(b, fmt.Sprintf("MARK@%016x", off))
	return b
}

// Materialize creates the node below parent.
func Materialize(parent string, n *Node) error {
	p := filepath.Join(parent, n.Name)
	switch {
	case n.Link != "":
		if err := os.Symlink(n.Link, p); err != nil {
			return err
		}
		return nil
	case n.Dir:
		if err := os.MkdirAll(p, 0o755); err != nil {
			return err
		}
		for _, c := range n.Children {
			if err := Materialize(p, c); err != nil {
				return err
			}
		}
	case n.Sparse:
		f, err := os.Create(p)
		if err != nil {
			return err
		}
		if err := f.Truncate(n.Size); err != nil {
			f.Close()
			return err
		}
		for _, m := range n.Marks {
			mk := Marker(n.Seed, m)
			if m+int64(len(mk)) > n.Size {
				mk = mk[:max(0, n.Size-m)]
			}
			if _, err := f.WriteAt(mk, m); err != nil {
				f.Close()
				return err
			}
		}
		if err := f.Close(); err != nil {
			return err
		}
	default:
		b := n.Bytes
		if b == nil {
			b = Content(n.Seed, n.Size)
		}
		if err := os.WriteFile(p, b, 0o644); err != nil {
			return err
		}
	}
	if n.Mtime != 0 {
		t := time.Unix(n.Mtime, 0)
		if err := os.Chtimes(p, t.Add(-time.Hour), t); err != nil {
			return err
		}
	}
	return nil
}

// Walk calls fn for every node with its slash-separated path relative to the tree root ("/x/y").
func Walk(n *Node, prefix string, fn func(rel string, n *Node)) {
	rel := prefix + "/" + n.Name
	if prefix == "" && n.Name == "" {
		rel = ""
	}
	fn(rel, n)
	for _, c := range n.Children {
		Walk(c, rel, fn)
	}
}

// Paths lists the relative paths ("/a/b") of files and directories of the children of root.
func Paths(root *Node) (files, dirs []string) {
	for _, c := range root.Children {
		Walk(c, "", func(rel string, n *Node) {
			if n.Dir {
				dirs = append(dirs, rel)
			} else if n.Link == "" {
				files = append(files, rel)
			}
		})
	}
	sort.Strings(files)
	sort.Strings(dirs)
	return
}

var BoundarySizes = []int64{0, 1, 2, 2047, 2048, 2049, 4095, 4096, 4097, 65535, 65536, 65537, 131071, 131073}

const portable = "ABCDEFGHIJKLMNOPQRSTUVWXYZabcdefghijklmnopqrstuvwxyz0123456789._-"

// PortableName returns a name made of POSIX portable characters, unique case-insensitively within used.
func PortableName(r *rand.Rand, used map[string]bool, maxLen int) string {
	for tries := 0; ; tries++ {
		if tries > 0 && tries%40 == 0 {
			maxLen++ // the name space of this length is (nearly) used up
		}
		l := 1 + r.Intn(maxLen)
		b := make([]byte, l)
		for i := range b {
			b[i] = portable[r.Intn(len(portable))]
		}
		// avoid names that are special to the protocol or awkward for shells; "." and ".." are not names
		s := string(b)
		if s == "." || s == ".." || s[0] == '-' || s[0] == '.' {
			continue
		}
		k := lower(s)
		if used[k] {
			continue
		}
		used[k] = true
		return s
	}
}

func lower(s string) string {
	b := []byte(s)
	for i, c := range b {
		if c >= 'A' && c <= 'Z' {
			b[i] = c + 32
		}
	}
	return string(b)
}

type GenOpt struct {
	MaxDepth   int
	MaxEntries int
	MaxSize    int64
	NameLen    int
	EmptyFiles bool
	Symlinks   bool
	MtimeBase  int64
}

// Gen generates a random tree (the returned node is the root directory with name "").
func Gen(r *rand.Rand, o GenOpt) *Node {
	root := &Node{Name: "", Dir: true}
	var fill func(n *Node, depth int)
	fill = func(n *Node, depth int) {
		used := map[string]bool{}
		cnt := r.Intn(o.MaxEntries + 1)
		for i := 0; i < cnt; i++ {
			name := PortableName(r, used, o.NameLen)
			if depth < o.MaxDepth && r.Intn(4) == 0 {
				c := &Node{Name: name, Dir: true}
				fill(c, depth+1)
				n.Children = append(n.Children, c)
				continue
			}
			var sz int64
			switch r.Intn(3) {
			case 0:
				sz = BoundarySizes[r.Intn(len(BoundarySizes))]
			case 1:
				sz = r.Int63n(5000)
			default:
				sz = r.Int63n(o.MaxSize + 1)
			}
			if sz > o.MaxSize {
				sz = o.MaxSize
			}
			if sz == 0 && !o.EmptyFiles {
				sz = 1
			}
			c := &Node{Name: name, Size: sz, Seed: r.Int63()}
			if o.MtimeBase != 0 {
				c.Mtime = o.MtimeBase + r.Int63n(1e6)
			}
			n.Children = append(n.Children, c)
		}
	}
	fill(root, 0)
	return root
}

// MaterializeRoot creates the children of root inside dir (which must exist).
func MaterializeRoot(dir string, root *Node) error {
	for _, c := range root.Children {
		if err := Materialize(dir, c); err != nil {
			return err
		}
	}
	return nil
}
