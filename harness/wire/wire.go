// Package wire is an independent encoder/decoder of the ps3netsrv protocol, written from the
// documented layouts (DESIGN.md Appendix A), not from the repository's pkg/proto.
package wire

import (
	"encoding/binary"
	"errors"
	"fmt"
	"io"
	"net"
	"os"
	"syscall"
	"time"
)

type Op uint16

const (
	OpOpen Op = 0x1224 + iota
	OpReadCrit
	OpReadCD
	OpRead
	OpCreate
	OpWrite
	OpOpenDir
	OpRDE
	OpDelete
	OpMkdir
	OpRmdir
	OpRDE2
	OpStat
	OpDirSize
	OpReadDir
)

var opNames = map[Op]string{OpOpen: "OPEN", OpReadCrit: "READCRIT", OpReadCD: "READCD", OpRead: "READ",
	OpCreate: "CREATE", OpWrite: "WRITE", OpOpenDir: "OPENDIR", OpRDE: "RDE", OpDelete: "DELETE",
	OpMkdir: "MKDIR", OpRmdir: "RMDIR", OpRDE2: "RDE2", OpStat: "STAT", OpDirSize: "DIRSIZE", OpReadDir: "READDIR"}

func (o Op) String() string {
	if s, ok := opNames[o]; ok {
		return s
	}
	return fmt.Sprintf("OP_%04x", uint16(o))
}

func (o Op) Known() bool { _, ok := opNames[o]; return ok }

// HasPath tells whether the command is followed by a path.
func (o Op) HasPath() bool {
	switch o {
	case OpOpen, OpCreate, OpOpenDir, OpDelete, OpMkdir, OpRmdir, OpStat, OpDirSize:
		return true
	}
	return false
}

// PathOps lists the 8 path-carrying opcodes.
var PathOps = []Op{OpOpen, OpStat, OpOpenDir, OpCreate, OpDelete, OpMkdir, OpRmdir, OpDirSize}

// Req is one protocol request. The zero value of unused fields is ignored.
type Req struct {
	Op      Op     `json:"op"`
	Path    []byte `json:"path,omitempty"`
	N       uint32 `json:"n,omitempty"`
	Off     uint64 `json:"off,omitempty"`
	Start   uint32 `json:"start,omitempty"`
	Count   uint32 `json:"count,omitempty"`
	Payload []byte `json:"payload,omitempty"`
	// DeclLen, when non-nil, overrides the announced path/payload length (hostile framing).
	DeclLen *uint32 `json:"decl_len,omitempty"`
	// Raw, when non-nil, is sent verbatim instead of an encoded request.
	Raw []byte `json:"raw,omitempty"`
	// Tail garbage for the unused bytes of the 16-byte command (nil = zeros).
	Junk []byte `json:"junk,omitempty"`
}

func (r Req) String() string {
	switch {
	case r.Raw != nil:
		return fmt.Sprintf("RAW[%d]%x", len(r.Raw), trunc(r.Raw, 24))
	case r.Op.HasPath():
		return fmt.Sprintf("%s %q", r.Op, trunc(r.Path, 80))
	case r.Op == OpRead || r.Op == OpReadCrit:
		return fmt.Sprintf("%s n=%d off=%d", r.Op, r.N, r.Off)
	case r.Op == OpReadCD:
		return fmt.Sprintf("%s start=%d count=%d", r.Op, r.Start, r.Count)
	case r.Op == OpWrite:
		return fmt.Sprintf("%s len=%d", r.Op, len(r.Payload))
	}
	return r.Op.String()
}

func trunc(b []byte, n int) []byte {
	if len(b) > n {
		return b[:n]
	}
	return b
}

// Bytes encodes the request: u16 opcode, 14-byte tail, then path or payload.
func (r Req) Bytes() []byte {
	if r.Raw != nil {
		return r.Raw
	}
	cmd := make([]byte, 16, 16+len(r.Path)+len(r.Payload))
	if r.Junk != nil {
		copy(cmd[2:], r.Junk)
	}
	binary.BigEndian.PutUint16(cmd[0:], uint16(r.Op))
	switch {
	case r.Op.HasPath():
		l := uint32(len(r.Path))
		if r.DeclLen != nil {
			l = *r.DeclLen
		}
		binary.BigEndian.PutUint16(cmd[2:], uint16(l))
		cmd = append(cmd, r.Path...)
	case r.Op == OpRead || r.Op == OpReadCrit:
		binary.BigEndian.PutUint32(cmd[4:], r.N)
		binary.BigEndian.PutUint64(cmd[8:], r.Off)
	case r.Op == OpReadCD:
		binary.BigEndian.PutUint32(cmd[4:], r.Start)
		binary.BigEndian.PutUint32(cmd[8:], r.Count)
	case r.Op == OpWrite:
		l := uint32(len(r.Payload))
		if r.DeclLen != nil {
			l = *r.DeclLen
		}
		binary.BigEndian.PutUint32(cmd[4:], l)
		cmd = append(cmd, r.Payload...)
	}
	return cmd
}

func P(op Op, path string) Req      { return Req{Op: op, Path: []byte(path)} }
func Read(n uint32, off uint64) Req { return Req{Op: OpRead, N: n, Off: off} }
func Crit(n uint32, off uint64) Req { return Req{Op: OpReadCrit, N: n, Off: off} }
func CD(start, count uint32) Req    { return Req{Op: OpReadCD, Start: start, Count: count} }
func Write(p []byte) Req            { return Req{Op: OpWrite, Payload: p} }
func Bare(op Op) Req                { return Req{Op: op} }
func RawReq(b []byte) Req           { return Req{Raw: b} }
func U32(v uint32) *uint32          { return &v }

// Fixed response sizes.
const (
	SzResult  = 4
	SzOpen    = 16
	SzStat    = 33
	SzDirSize = 8
	SzRDE     = 11
	SzRDE2    = 35
	SzDirEnt  = 529
)

type StatRes struct {
	Size                int64
	Mtime, Ctime, Atime uint64
	IsDir               bool
}

func DecodeStat(b []byte) StatRes {
	return StatRes{int64(binary.BigEndian.Uint64(b)), binary.BigEndian.Uint64(b[8:]), binary.BigEndian.Uint64(b[16:]),
		binary.BigEndian.Uint64(b[24:]), b[32] != 0}
}

type OpenRes struct {
	Size  int64
	Mtime uint64
}

func DecodeOpen(b []byte) OpenRes {
	return OpenRes{int64(binary.BigEndian.Uint64(b)), binary.BigEndian.Uint64(b[8:])}
}

// Entry is a decoded directory entry of any of the three listing commands.
type Entry struct {
	Name                string
	Size                int64
	IsDir               bool
	Mtime, Ctime, Atime uint64
	HasTimes            int // 0 none, 1 mtime only, 3 all
}

// ReadStatus describes how a read on the client connection ended.
type ReadStatus int

const (
	Full    ReadStatus = iota // all requested bytes arrived
	Closed                    // the peer closed (EOF / reset) before all bytes arrived
	Timeout                   // watchdog fired: nothing (more) arrived, connection still open
)

func (s ReadStatus) String() string { return [...]string{"full", "closed", "timeout"}[s] }

// Client is a protocol client over one TCP connection with an event transcript.
type Client struct {
	C        net.Conn
	Watchdog time.Duration
	Chunk    int // >0: send in chunks of this many bytes
	Sent     int64
	Recv     int64
	// Transcript of raw bytes (bounded) for replay files.
	Log      []string
	LogLimit int
	// Busy, when set, tells whether the server has been working since the previous call; a read
	// watchdog that expires without a byte is re-armed while it says so (at most 6 periods).
	Busy func() bool
	// EOFLimit bounds what ExpectEOF collects before it gives up waiting for the close (default 1 MiB).
	EOFLimit int
}

func Dial(addr string, local net.Addr, watchdog time.Duration) (*Client, error) {
	d := net.Dialer{Timeout: 10 * time.Second, LocalAddr: local}
	c, err := d.Dial("tcp", addr)
	if err != nil {
		return nil, err
	}
	if tc, ok := c.(*net.TCPConn); ok {
		tc.SetNoDelay(true)
	}
	return &Client{C: c, Watchdog: watchdog, LogLimit: 400}, nil
}

func (c *Client) logf(f string, a ...any) {
	if len(c.Log) < c.LogLimit {
		c.Log = append(c.Log, fmt.Sprintf(f, a...))
	}
}

func (c *Client) Close() { c.C.Close() }

// CloseWrite half-closes the connection (client will send nothing more).
func (c *Client) CloseWrite() {
	if tc, ok := c.C.(*net.TCPConn); ok {
		tc.CloseWrite()
	}
}

// Reset closes with RST (SO_LINGER 0).
func (c *Client) Reset() {
	if tc, ok := c.C.(*net.TCPConn); ok {
		tc.SetLinger(0)
	}
	c.C.Close()
}

// SendRaw writes bytes; write errors (peer already closed) are tolerated and reported.
func (c *Client) SendRaw(b []byte) error {
	c.logf("> %d bytes %x", len(b), trunc(b, 48))
	c.C.SetWriteDeadline(time.Now().Add(30 * time.Second))
	if c.Chunk > 0 {
		// the command and the beginning of what follows go out in small pieces; a long payload tail is
		// sent in larger pieces (the point is to split headers and paths, not to make 200 k syscalls)
		for i := 0; i < len(b); {
			step := c.Chunk
			if i >= 16+4096 && step < 4096 {
				step = 4096
			}
			e := min(i+step, len(b))
			n, err := c.C.Write(b[i:e])
			c.Sent += int64(n)
			if err != nil {
				return err
			}
			i = e
		}
		return nil
	}
	n, err := c.C.Write(b)
	c.Sent += int64(n)
	return err
}

func (c *Client) Send(r Req) error { return c.SendRaw(r.Bytes()) }

// IsClosedErr classifies EOF / reset / broken pipe as "closed by the server".
func IsClosedErr(err error) bool {
	if err == nil {
		return false
	}
	if errors.Is(err, io.EOF) || errors.Is(err, io.ErrUnexpectedEOF) || errors.Is(err, syscall.ECONNRESET) ||
		errors.Is(err, syscall.EPIPE) || errors.Is(err, net.ErrClosed) {
		return true
	}
	return false
}

// ReadN reads exactly n bytes unless the peer closes or the watchdog fires.
func (c *Client) ReadN(n int) ([]byte, ReadStatus) {
	return c.ReadNT(n, c.Watchdog)
}

func (c *Client) ReadNT(n int, wd time.Duration) ([]byte, ReadStatus) {
	buf := make([]byte, n)
	got := 0
	start := time.Now()
	for got < n {
		c.C.SetReadDeadline(time.Now().Add(wd))
		k, err := c.C.Read(buf[got:])
		got += k
		c.Recv += int64(k)
		if err != nil {
			if errors.Is(err, os.ErrDeadlineExceeded) {
				if k > 0 {
					continue // progress: re-arm the watchdog
				}
				if c.Busy != nil && time.Since(start) < 6*wd && c.Busy() {
					continue // the server is working (CPU time advancing): not a verdict yet
				}
				c.logf("< %d/%d bytes then TIMEOUT %x", got, n, trunc(buf[:got], 48))
				return buf[:got], Timeout
			}
			c.logf("< %d/%d bytes then CLOSED(%v) %x", got, n, err, trunc(buf[:got], 48))
			return buf[:got], Closed
		}
	}
	c.logf("< %d bytes %x", n, trunc(buf, 48))
	return buf, Full
}

// ExpectEOF waits for the server to close; returns stray bytes received before the close.
func (c *Client) ExpectEOF() ([]byte, ReadStatus) {
	var stray []byte
	buf := make([]byte, 4096)
	eofStart := time.Now()
	for {
		c.C.SetReadDeadline(time.Now().Add(c.Watchdog))
		k, err := c.C.Read(buf)
		c.Recv += int64(k)
		stray = append(stray, buf[:k]...)
		if err != nil {
			if errors.Is(err, os.ErrDeadlineExceeded) {
				if c.Busy != nil && time.Since(eofStart) < 6*c.Watchdog && c.Busy() {
					continue
				}
				c.logf("< expect-EOF: TIMEOUT after %d stray bytes", len(stray))
				return stray, Timeout
			}
			c.logf("< expect-EOF: closed (%v) after %d stray bytes", err, len(stray))
			return stray, Closed
		}
		lim := c.EOFLimit
		if lim <= 0 {
			lim = 1 << 20
		}
		if len(stray) > lim {
			return stray, Full
		}
	}
}

// Quiet checks that no byte arrives within d (used after complete responses); returns stray bytes.
func (c *Client) Quiet(d time.Duration) ([]byte, ReadStatus) {
	buf := make([]byte, 4096)
	c.C.SetReadDeadline(time.Now().Add(d))
	k, err := c.C.Read(buf)
	c.Recv += int64(k)
	if err != nil {
		if errors.Is(err, os.ErrDeadlineExceeded) {
			return buf[:k], Timeout
		}
		return buf[:k], Closed
	}
	return buf[:k], Full
}

func BE32(b []byte) uint32 { return binary.BigEndian.Uint32(b) }
func BE64(b []byte) uint64 { return binary.BigEndian.Uint64(b) }
func I32(b []byte) int32   { return int32(binary.BigEndian.Uint32(b)) }
func I64(b []byte) int64   { return int64(binary.BigEndian.Uint64(b)) }
