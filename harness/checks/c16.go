//go:build verif

package checks

import (
	"context"
	"encoding/json"
	"errors"
	"fmt"
	"os"
	"os/exec"
	"path/filepath"
	"sort"
	"strconv"
	"strings"
	"sync"
	"time"

	"verif/host"
	"verif/wire"
)

// c16Report mirrors the JSON report written by /verif/vtime (TestC16).
type c16Report struct {
	Scenarios        int            `json:"scenarios"`
	ByKind           map[string]int `json:"by_kind"`
	VirtualSeconds   float64        `json:"virtual_seconds"`
	RequestsAnswered int64          `json:"requests_answered"`
	CutsObserved     int64          `json:"cuts_observed"`
	HandlesHeldAtCut int64          `json:"handles_held_at_cut"`
	ViolationsTotal  int            `json:"violations_total"`
	ViolationCounts  map[string]int `json:"violation_counts"`
	Violations       []struct {
		Rule     string         `json:"rule"`
		Feature  string         `json:"feature"`
		Detail   string         `json:"detail"`
		Scenario map[string]any `json:"scenario"`
	} `json:"violations"`
	Samples     []map[string]any `json:"samples"`
	WallSeconds float64          `json:"wall_seconds"`
}

const (
	c16BinT      = 300 * time.Millisecond
	c16CutMin    = 250 * time.Millisecond
	c16CutMax    = 10 * time.Second
	c16ActiveGap = 100 * time.Millisecond
	c16ActiveN   = 30
	c16GapLimit  = 240 * time.Millisecond
)

func C16(e *Env) {
	run := e.Run
	run.Rule = "virtual time (exact oracle, zero tolerance): the real server runs in a testing/synctest bubble over net.Pipe; scenarios = silent after connect, silent after k in {1,5} requests, stalled after every byte position 1..35 of a STAT request (16-byte command + 20-byte path) with the partial bytes written at random instants < T, one-byte trickle every 0.3T, active connections with N requests spaced 0.1T/0.5T/0.8T/0.99T then silent, open file + open directory held at the cut (open/close ledger), T=0 with 24h of silence; T in {100ms,1s,10m}; the connection must be observed closed at exactly t0+T (t0 = instant the server began to wait for the request) and never while active; non-trivial = distinct (scenario kind, T). real binary: --read-timeout=300ms through flag, environment and ini file; idle and stalled-after-7-bytes connections must be closed within [250ms,10s], a connection issuing STAT every 100ms for 3s must never be closed (judged only when the harness kept its own gaps < 240ms, violations only when reproduced 3 times out of 3)"
	run.Assume("virtual-time part relies on testing/synctest (go1.26.8) and net.Pipe deadline semantics; the binary part only shows that --read-timeout reaches the server")
	run.MaxSamples = 24
	c16Virtual(e)
	c16Binary(e)
}

// ---------------------------------------------------------------- virtual-time part

func c16Tail(b []byte, n int) string {
	if len(b) > n {
		b = b[len(b)-n:]
	}
	return string(b)
}

func c16Virtual(e *Env) {
	run := e.Run
	bin := os.Getenv("VERIF_VTIME_BIN")
	if bin == "" {
		fatalf("VERIF_VTIME_BIN is not set (path of the test binary built from /verif/vtime)")
	}
	if _, err := os.Stat(bin); err != nil {
		fatalf("VERIF_VTIME_BIN: %v", err)
	}
	must(os.MkdirAll(e.Scratch, 0o755))
	repPath := filepath.Join(e.Scratch, "vtime.json")
	os.Remove(repPath)
	ctx, cancel := context.WithTimeout(context.Background(), 25*time.Minute)
	defer cancel()
	cmd := exec.CommandContext(ctx, bin, "-test.run", "^TestC16$", "-test.timeout", "20m")
	cmd.Dir = e.Scratch
	cmd.Env = append(os.Environ(), "VTIME_REPORT="+repPath, "VERIF_SEED="+strconv.FormatInt(e.Seed, 10), "VERIF_TIER="+e.Tier, "VTIME_ONLY=")
	cmd.WaitDelay = 10 * time.Second
	out, err := cmd.CombinedOutput()
	var rep c16Report
	readable := false
	if b, rerr := os.ReadFile(repPath); rerr == nil {
		if jerr := json.Unmarshal(b, &rep); jerr == nil && rep.Scenarios > 0 {
			readable = true
		}
	}
	replay := fmt.Sprintf("VTIME_REPORT=/var/tmp/vtime.json VERIF_SEED=%d VERIF_TIER=%s %s -test.run TestC16 -test.v", e.Seed, e.Tier, bin)
	switch {
	case err != nil && !readable:
		var ee *exec.ExitError
		if ctx.Err() != nil || errors.As(err, &ee) {
			what := "the virtual-time test binary ended abnormally (" + err.Error() + ") without a report: crash, runtime deadlock or hang of the server inside the bubble"
			run.Eval(1)
			run.Violate("crash", "vtime", what+"\n"+c16Tail(out, 2000), map[string]any{"command": replay})
			return
		}
		fatalf("cannot run %s: %v", bin, err)
	case err != nil:
		// the Go test fails only on harness trouble
		fatalf("virtual-time test reported harness trouble (%v):\n%s", err, c16Tail(out, 3000))
	case !readable:
		fatalf("virtual-time test exited 0 but left no readable report at %s:\n%s", repPath, c16Tail(out, 2000))
	}
	run.Eval(rep.Scenarios)
	keys := make([]string, 0, len(rep.ByKind))
	for k := range rep.ByKind {
		keys = append(keys, k)
	}
	sort.Strings(keys)
	for _, k := range keys {
		run.Sig("vtime %s", k)
	}
	run.Obs("vtime_by_kind", rep.ByKind)
	run.Obs("virtual_seconds", rep.VirtualSeconds)
	run.Obs("vtime_wall_seconds", rep.WallSeconds)
	run.Obs("vtime_scenarios", rep.Scenarios)
	run.Count("requests_answered_virtual", rep.RequestsAnswered)
	run.Count("cuts_observed_virtual", rep.CutsObserved)
	run.Count("handles_held_at_cut_virtual", rep.HandlesHeldAtCut)
	if rep.ViolationsTotal > 0 {
		run.Obs("vtime_violations_total", rep.ViolationsTotal)
		run.Obs("vtime_violation_counts", rep.ViolationCounts)
	}
	for _, v := range rep.Violations {
		wit := map[string]any{"scenario": v.Scenario, "replay_one": fmt.Sprintf("VTIME_ONLY=%v %s", v.Scenario["id"], replay),
			"occurrences_of_rule_feature": rep.ViolationCounts[v.Rule+"|"+v.Feature]}
		run.Violate(v.Rule, v.Feature, v.Detail, wit)
	}
	if rep.ViolationsTotal > 0 && len(rep.Violations) == 0 {
		fatalf("virtual-time report counts %d violations but lists none", rep.ViolationsTotal)
	}
	// a spread of samples (the report lists them grouped by kind)
	step := max(1, len(rep.Samples)/8)
	for i := 0; i < len(rep.Samples); i += step {
		run.Sample(map[string]any{"part": "virtual-time", "sample": rep.Samples[i]})
	}
	run.Floor(rep.CutsObserved >= 100, fmt.Sprintf("virtual-time part observed %d exact cuts (< 100)", rep.CutsObserved))
	run.Floor(rep.RequestsAnswered >= 1000, fmt.Sprintf("virtual-time part got %d requests answered (< 1000)", rep.RequestsAnswered))
	run.Floor(len(keys) >= 10, fmt.Sprintf("virtual-time part covered %d (kind, T) classes (< 10)", len(keys)))
}

// ---------------------------------------------------------------- real-binary part

type c16Trial struct {
	Class    string  `json:"class"` // ok | early | late | active-cut | no-answer | unjudged
	DelayMs  float64 `json:"delay_ms,omitempty"`
	Answered int     `json:"answered,omitempty"`
	MaxGapMs float64 `json:"max_gap_ms,omitempty"`
	Control  string  `json:"control,omitempty"`
	Detail   string  `json:"detail,omitempty"`
}

func c16ms(d time.Duration) float64 { return float64(d.Microseconds()) / 1000 }

// c16IdleTrial connects, optionally delivers the first bytes of a request, then stays silent and
// measures how long the server takes to close the connection.
func c16IdleTrial(addr string, pre []byte) c16Trial {
	c, err := wire.Dial(addr, nil, c16CutMax)
	if err != nil {
		return c16Trial{Class: "unjudged", Detail: "dial: " + err.Error()}
	}
	defer c.Close()
	// t0 is taken right after connect() returned; the server arms its deadline when its accept loop
	// picks the connection up, i.e. not earlier than t0 minus the loopback handshake latency, so the
	// measured delay under-estimates the server's waiting time by microseconds at most (the 50 ms
	// between 250 ms and T absorb that) and over-estimates it by this process's scheduling latency
	t0 := time.Now()
	if len(pre) > 0 {
		if err := c.SendRaw(pre); err != nil {
			return c16Trial{Class: "unjudged", Detail: "send of the partial command: " + err.Error()}
		}
	}
	stray, st := c.ExpectEOF()
	d := time.Since(t0)
	tr := c16Trial{DelayMs: c16ms(d)}
	switch {
	case len(stray) > 0:
		tr.Class, tr.Detail = "unjudged", fmt.Sprintf("server sent %d bytes on a connection without a complete request", len(stray))
	case st == wire.Closed && d < c16CutMin:
		tr.Class = "early"
	case st == wire.Closed:
		tr.Class = "ok"
	default:
		// still open after 10 s: is the server responsive at all?
		p0 := time.Now()
		if perr := host.Probe(addr); perr != nil {
			tr.Class, tr.Control = "unjudged", "control connection failed: "+perr.Error()
		} else if pd := time.Since(p0); pd > 2*time.Second {
			tr.Class, tr.Control = "unjudged", fmt.Sprintf("control connection answered only after %v", pd)
		} else {
			tr.Class, tr.Control = "late", fmt.Sprintf("control connection answered in %v while the idle one was still open", pd)
		}
	}
	return tr
}

// c16HeldUnder counts the descriptors of process pid that point below root.
func c16HeldUnder(pid int, root string) (int, error) {
	dir := fmt.Sprintf("/proc/%d/fd", pid)
	ents, err := os.ReadDir(dir)
	if err != nil {
		return 0, err
	}
	n := 0
	for _, e := range ents {
		if l, err := os.Readlink(filepath.Join(dir, e.Name())); err == nil && (l == root || strings.HasPrefix(l, root+"/")) {
			n++
		}
	}
	return n, nil
}

// c16HeldTrial opens a file and a directory, falls silent, waits for the cut and then keeps its own
// end of the socket open without sending anything (a hung console): the server must release what the
// connection held all the same. Judged on the server's descriptor table; the clock only bounds the
// wait (10 s for a 300 ms timeout, with a control connection as for the late rule).
func c16HeldTrial(addr string, pid int, root string) c16Trial {
	// the previous trial's connection (closed by the client on return) may still be winding down
	for w0 := time.Now(); ; time.Sleep(20 * time.Millisecond) {
		n, err := c16HeldUnder(pid, root)
		if err == nil && n == 0 {
			break
		}
		if err != nil || time.Since(w0) > 5*time.Second {
			return c16Trial{Class: "unjudged", Detail: fmt.Sprintf("descriptor table before the trial: %d below the root, err=%v", n, err)}
		}
	}
	c, err := wire.Dial(addr, nil, c16CutMax)
	if err != nil {
		return c16Trial{Class: "unjudged", Detail: "dial: " + err.Error()}
	}
	defer c.Close()
	for _, rq := range []struct {
		r  wire.Req
		sz int
	}{{wire.P(wire.OpOpen, "/f.bin"), wire.SzOpen}, {wire.P(wire.OpOpenDir, "/"), wire.SzResult}} {
		if err := c.Send(rq.r); err != nil {
			return c16Trial{Class: "unjudged", Detail: "send: " + err.Error()}
		}
		if b, st := c.ReadN(rq.sz); st != wire.Full {
			return c16Trial{Class: "unjudged", Detail: fmt.Sprintf("%v: %d response bytes, %v", rq.r, len(b), st)}
		}
	}
	held, err := c16HeldUnder(pid, root)
	if err != nil || held == 0 {
		return c16Trial{Class: "unjudged", Detail: fmt.Sprintf("after OPEN+OPENDIR the server holds %d descriptors below the root (err=%v)", held, err)}
	}
	t0 := time.Now()
	if _, st := c.ExpectEOF(); st != wire.Closed {
		return c16Trial{Class: "unjudged", Detail: "not cut within the watchdog (judged by the idle scenario)"}
	}
	tr := c16Trial{DelayMs: c16ms(time.Since(t0)), Answered: held}
	// the client socket stays open from here on
	for time.Since(t0) < c16CutMax {
		n, err := c16HeldUnder(pid, root)
		if err != nil {
			tr.Class, tr.Detail = "unjudged", err.Error()
			return tr
		}
		if n == 0 {
			tr.Class = "ok"
			return tr
		}
		time.Sleep(20 * time.Millisecond)
	}
	n, _ := c16HeldUnder(pid, root)
	p0 := time.Now()
	if perr := host.Probe(addr); perr != nil {
		tr.Class, tr.Control = "unjudged", "control connection failed: "+perr.Error()
	} else if pd := time.Since(p0); pd > 2*time.Second {
		tr.Class, tr.Control = "unjudged", fmt.Sprintf("control connection answered only after %v", pd)
	} else {
		tr.Class = "held"
		tr.Detail = fmt.Sprintf("the client saw the cut %.0f ms after falling silent and kept its end open; %v later the server still holds %d descriptors below the root (%d right after OPEN+OPENDIR)", tr.DelayMs, time.Since(t0), n, held)
		tr.Control = fmt.Sprintf("control connection answered in %v", pd)
	}
	return tr
}

// c16ActiveTrial issues STAT "/" every 100 ms for 3 s; every request must be answered.
func c16ActiveTrial(addr string) c16Trial {
	before := time.Now()
	c, err := wire.Dial(addr, nil, 5*time.Second)
	if err != nil {
		return c16Trial{Class: "unjudged", Detail: "dial: " + err.Error()}
	}
	defer c.Close()
	start := time.Now()
	req := wire.P(wire.OpStat, "/")
	var tr c16Trial
	var maxGap time.Duration
	prevSend := before
	fail := ""
	for i := 0; i < c16ActiveN; i++ {
		if d := time.Until(start.Add(time.Duration(i+1) * c16ActiveGap)); d > 0 {
			time.Sleep(d)
		}
		sendStart := time.Now()
		err := c.Send(req)
		// upper bound of the time the server waited for this request: from the start of the
		// previous send (before its response) to the completion of this send
		if g := time.Since(prevSend); g > maxGap {
			maxGap = g
		}
		prevSend = sendStart
		if err != nil {
			if wire.IsClosedErr(err) {
				fail = "active-cut"
				tr.Detail = fmt.Sprintf("send of request %d/%d failed: %v", i+1, c16ActiveN, err)
			} else {
				fail = "unjudged"
				tr.Detail = fmt.Sprintf("send of request %d/%d failed: %v", i+1, c16ActiveN, err)
			}
			break
		}
		b, st := c.ReadN(wire.SzStat)
		if st == wire.Closed {
			fail = "active-cut"
			tr.Detail = fmt.Sprintf("request %d/%d: connection closed after %d response bytes, %v after connect", i+1, c16ActiveN, len(b), time.Since(start))
			break
		}
		if st == wire.Timeout {
			fail = "no-answer"
			tr.Detail = fmt.Sprintf("request %d/%d: %d response bytes within 5s", i+1, c16ActiveN, len(b))
			break
		}
		tr.Answered++
	}
	tr.MaxGapMs = c16ms(maxGap)
	tr.DelayMs = c16ms(time.Since(start))
	switch {
	case maxGap >= c16GapLimit:
		tr.Class = "unjudged"
		tr.Detail = fmt.Sprintf("harness gap between sends reached %v (limit %v); %s", maxGap, c16GapLimit, tr.Detail)
	case fail != "":
		tr.Class = fail
	default:
		tr.Class = "ok"
	}
	return tr
}

// c16Judge applies the reproduction rule: a deviation counts only if 3 fresh trials out of 3 show the same one.
func c16Judge(e *Env, channel, what string, baseline int, rules map[string]string, trial func() c16Trial) {
	run := e.Run
	var all []c16Trial
	for i := 0; i < baseline; i++ {
		tr := trial()
		run.Eval(1)
		all = append(all, tr)
		if tr.Class == "ok" {
			run.Sig("bin %s: %s ok", channel, what)
			run.Count("bin_trials_ok", 1)
			if what == "active" {
				run.Count("requests_answered_binary", int64(tr.Answered))
			} else {
				run.Count("cuts_observed_binary", 1)
			}
			continue
		}
		// deviation: two more fresh trials
		dev := []c16Trial{tr}
		for j := 0; j < 2; j++ {
			t2 := trial()
			run.Eval(1)
			dev = append(dev, t2)
			all = append(all, t2)
		}
		same := dev[0].Class == dev[1].Class && dev[1].Class == dev[2].Class
		rule, isViolation := rules[dev[0].Class]
		b, _ := json.Marshal(dev)
		if same && isViolation {
			run.Violate(rule, "bin "+what+" via "+channel, fmt.Sprintf("--read-timeout=%v set through %s: %s %s in 3 of 3 fresh connections: %s", c16BinT, channel, what, dev[0].Class, b),
				map[string]any{"channel": channel, "scenario": what, "trials": dev})
		} else {
			run.Inconclusive(fmt.Sprintf("C16 binary %s via %s: not reproduced 3/3 or not judgeable: %s", what, channel, b))
		}
		break
	}
	run.Sample(map[string]any{"part": "binary", "channel": channel, "scenario": what, "trials": all})
}

func c16Binary(e *Env) {
	run := e.Run
	if e.Bin == "" {
		fatalf("VERIF_BIN is not set")
	}
	root := e.Dir("c16root")
	must(os.WriteFile(filepath.Join(root, "f.bin"), []byte("0123456789abcdef"), 0o644))
	ini := filepath.Join(e.Scratch, "c16.ini")
	must(os.WriteFile(ini, []byte("[server]\nread-timeout = "+c16BinT.String()+"\n"), 0o644))
	common := []string{"server", "--root=" + root, "--listen-addr=127.0.0.1:0"}
	type channel struct {
		name string
		args []string
		env  []string
	}
	channels := []channel{
		{"flag", append(append([]string{}, common...), "--read-timeout="+c16BinT.String()), nil},
		{"env", common, []string{"PS3NETSRV_READ_TIMEOUT=" + c16BinT.String()}},
		{"ini", append([]string{"--config=" + ini}, common...), nil},
	}
	procs := make([]*host.Proc, len(channels))
	for i, ch := range channels {
		p, err := host.SpawnBin(e.Bin, ch.args, host.Opt{Dir: e.Dir("logs"), Tag: "c16-" + ch.name, Env: ch.env}, e.Dir("cwd"), true)
		must(err)
		defer p.Stop()
		procs[i] = p
	}
	baseline := e.Pick(1, 3)
	partial := wire.P(wire.OpStat, "/").Bytes()[:7]
	cutRules := map[string]string{"early": "cut-early", "late": "cut-late"}
	activeRules := map[string]string{"active-cut": "active-cut", "no-answer": "no-answer"}
	var wg sync.WaitGroup
	for i, ch := range channels {
		wg.Add(1)
		go func() {
			defer wg.Done()
			addr := procs[i].HostPort()
			c16Judge(e, ch.name, "idle", baseline, cutRules, func() c16Trial { return c16IdleTrial(addr, nil) })
			c16Judge(e, ch.name, "active", baseline, activeRules, func() c16Trial { return c16ActiveTrial(addr) })
			c16Judge(e, ch.name, "stalled-after-7-bytes", baseline, cutRules, func() c16Trial { return c16IdleTrial(addr, partial) })
			// last: the only scenario that reads the descriptor table, nothing else is connected to this server now
			c16Judge(e, ch.name, "held-then-client-stays-open", baseline, map[string]string{"held": "leak-after-cut"}, func() c16Trial {
				r, _ := filepath.EvalSymlinks(root)
				return c16HeldTrial(addr, procs[i].Cmd.Process.Pid, r)
			})
		}()
	}
	wg.Wait()
	for i, ch := range channels {
		CrashCheck(e, procs[i], "c16 bin "+ch.name, nil)
	}
	run.Obs("binary_channels", len(channels))
	run.Obs("binary_read_timeout", c16BinT.String())
}
