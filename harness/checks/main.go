//go:build verif

package checks

import (
	"fmt"
	"os"
)

type checkDef struct {
	level string
	fn    func(*Env)
}

var registry = map[string]checkDef{
	"C01": {"exploration", C01},
	"C02": {"exploration", C02},
	"C03": {"exploration", C03},
	"C04": {"exploration", C04},
	"C05": {"exploration", C05},
	"C06": {"exploration", C06},
	"C07": {"exploration", C07},
	"C08": {"exploration", C08},
	"C09": {"exploration", C09},
	"C10": {"exploration", C10},
	"C11": {"exploration", C11},
	"C12": {"exploration", C12},
	"C13": {"fault_enumeration", C13},
	"C14": {"exploration", C14},
	"C16": {"exploration", C16},
	"C15": {"exploration", C15},
	"C17": {"exploration", C17},
	"C18": {"exploration", C18},
	"C19": {"exploration", C19},
	"C20": {"exploration", C20},
}

// Main runs one check and returns the process exit code.
func Main(prop, tier string, rest []string) int {
	def, ok := registry[prop]
	if !ok {
		fmt.Fprintf(os.Stderr, "no check for %s\n", prop)
		return 3
	}
	if tier != "quick" && tier != "thorough" {
		fmt.Fprintln(os.Stderr, "tier must be quick or thorough")
		return 3
	}
	e := NewEnv(prop, tier, def.level)
	for i := 0; i+1 < len(rest); i++ {
		if rest[i] == "--replay" {
			e.Replay = rest[i+1]
		}
	}
	abortFn = e.Run.TooMany
	def.fn(e)
	return e.Run.Finish()
}
