//go:build verif

package checks

// C15 — admission control: client whitelist (iprange.FilterListener) and client limit
// (netutil.LimitListener), composed as in cmd/ps3netsrv-go/server.go, on the library worker and on
// the real binary. Technique: runtime monitoring. The driver records a client-side event log from
// one monotonic clock; verdicts come from offline checkers over that log (c15JudgeWhitelist,
// c15JudgeLimit). "Must be answered" waits use the generous watchdog and a control that proves the
// process is responsive (otherwise inconclusive); "must not be answered" is decided by logical steps
// (completed round trips of the held clients), never by a sleep.

import (
	"errors"
	"fmt"
	"math/big"
	"math/rand"
	"net"
	"net/netip"
	"os"
	"os/exec"
	"path/filepath"
	"sort"
	"strings"
	"sync"
	"sync/atomic"
	"syscall"
	"time"

	"verif/host"
	"verif/wire"
	"verif/worker"
)

// ---------------------------------------------------------------------------------------------
// event log

type c15Event struct {
	C    int    `json:"c"`
	Src  string `json:"src"`
	Kind string `json:"kind"` // connect | send | recv_first | recv_done | close | eof | timeout
	T    int64  `json:"t_ns"` // monotonic ns since the start of the log
	N    int    `json:"n,omitempty"`
	Note string `json:"note,omitempty"`
}

type c15Log struct {
	mu sync.Mutex
	t0 time.Time
	ev []c15Event
}

func newC15Log() *c15Log { return &c15Log{t0: time.Now()} }

func (l *c15Log) add(c int, src, kind string, n int, note string) {
	l.mu.Lock()
	l.ev = append(l.ev, c15Event{C: c, Src: src, Kind: kind, T: int64(time.Since(l.t0)), N: n, Note: note})
	l.mu.Unlock()
}

func (l *c15Log) events() []c15Event {
	l.mu.Lock()
	defer l.mu.Unlock()
	return append([]c15Event(nil), l.ev...)
}

func c15FormatEvents(ev []c15Event, limit int) []string {
	var out []string
	if len(ev) > limit {
		out = append(out, fmt.Sprintf("... %d earlier events omitted ...", len(ev)-limit))
		ev = ev[len(ev)-limit:]
	}
	for _, x := range ev {
		s := fmt.Sprintf("t=%.3fms c%d %s %s", float64(x.T)/1e6, x.C, x.Src, x.Kind)
		if x.N != 0 {
			s += fmt.Sprintf(" n=%d", x.N)
		}
		if x.Note != "" {
			s += " (" + x.Note + ")"
		}
		out = append(out, s)
	}
	return out
}

// ---------------------------------------------------------------------------------------------
// clients

const c15Answer = wire.SzStat

type c15Client struct {
	id      int
	src     string
	inside  bool
	w       *wire.Client
	log     *c15Log
	ans     [c15Answer]byte
	have    int // bytes of the answer in flight
	total   int // bytes received on the connection
	answers int
	closed  bool // closed by us
	eof     bool // closed by the server
	notDir  bool
}

func c15ErrClass(err error) string {
	switch {
	case err == nil:
		return ""
	case errors.Is(err, syscall.ECONNRESET):
		return "reset"
	case errors.Is(err, syscall.EPIPE):
		return "epipe"
	case wire.IsClosedErr(err):
		return "eof"
	case errors.Is(err, os.ErrDeadlineExceeded):
		return "deadline"
	}
	return "error"
}

func c15BindErr(err error) bool {
	return errors.Is(err, syscall.EADDRNOTAVAIL) || errors.Is(err, syscall.EINVAL) || errors.Is(err, syscall.EADDRINUSE)
}

func c15Dial(log *c15Log, id int, addr string, src netip.Addr, inside bool, wd time.Duration) (*c15Client, error) {
	w, err := wire.Dial(addr, &net.TCPAddr{IP: net.IP(src.AsSlice())}, wd)
	if err != nil {
		return nil, err
	}
	c := &c15Client{id: id, src: src.String(), inside: inside, w: w, log: log}
	log.add(id, c.src, "connect", 0, "")
	return c, nil
}

func (c *c15Client) send() {
	err := c.w.Send(wire.P(wire.OpStat, "/"))
	c.log.add(c.id, c.src, "send", 0, c15ErrClass(err))
}

// tryRecv reads towards one complete answer for at most d; progress is kept across calls.
func (c *c15Client) tryRecv(d time.Duration) wire.ReadStatus {
	if c.eof || c.closed {
		return wire.Closed
	}
	deadline := time.Now().Add(d)
	for {
		c.w.C.SetReadDeadline(deadline)
		k, err := c.w.C.Read(c.ans[c.have:c15Answer])
		if k > 0 {
			if c.have == 0 {
				c.log.add(c.id, c.src, "recv_first", k, "")
			}
			c.have += k
			c.total += k
			if c.have == c15Answer {
				c.have = 0
				c.answers++
				if c.ans[32] == 0 {
					c.notDir = true
				}
				c.log.add(c.id, c.src, "recv_done", c15Answer, "")
				return wire.Full
			}
		}
		if err != nil {
			if errors.Is(err, os.ErrDeadlineExceeded) {
				return wire.Timeout
			}
			c.eof = true
			c.log.add(c.id, c.src, "eof", c.total, c15ErrClass(err))
			return wire.Closed
		}
	}
}

// recv waits for a complete answer; the watchdog is re-armed on progress.
func (c *c15Client) recv(wd time.Duration) wire.ReadStatus {
	for {
		before := c.have
		st := c.tryRecv(wd)
		if st == wire.Timeout && c.have > before {
			continue
		}
		if st == wire.Timeout {
			c.log.add(c.id, c.src, "timeout", c.total, "answer")
		}
		return st
	}
}

// awaitEOF waits for the server to close the connection; bytes received meanwhile are recorded.
func (c *c15Client) awaitEOF(d time.Duration, logTimeout bool) wire.ReadStatus {
	if c.eof {
		return wire.Closed
	}
	buf := make([]byte, 512)
	deadline := time.Now().Add(d)
	for {
		c.w.C.SetReadDeadline(deadline)
		k, err := c.w.C.Read(buf)
		if k > 0 {
			if c.total == 0 {
				c.log.add(c.id, c.src, "recv_first", k, "")
			}
			c.total += k
		}
		if err != nil {
			if errors.Is(err, os.ErrDeadlineExceeded) {
				if logTimeout {
					c.log.add(c.id, c.src, "timeout", c.total, "close")
				}
				return wire.Timeout
			}
			c.eof = true
			c.log.add(c.id, c.src, "eof", c.total, c15ErrClass(err))
			return wire.Closed
		}
	}
}

// "every ended ... connection frees its slot": however it ended — also in the middle of a command, of a
// path, or of an announced upload payload
var c15Variants = []string{"orderly", "half-close", "rst", "mid-command", "mid-path", "mid-payload"}

func (c *c15Client) depart(variant string, waitEOF bool, wd time.Duration) {
	if c.closed {
		return
	}
	c.log.add(c.id, c.src, "close", 0, variant)
	switch variant {
	case "mid-command":
		c.w.SendRaw(wire.P(wire.OpStat, "/").Bytes()[:7])
		c.w.Close()
	case "mid-path":
		c.w.SendRaw(wire.P(wire.OpStat, "/some/longer/path/that/never/arrives").Bytes()[:16+5])
		c.w.Close()
	case "mid-payload":
		c.w.SendRaw(wire.Write(make([]byte, 4096)).Bytes()[:16+100])
		c.w.Close()
	case "rst":
		c.w.Reset()
	case "half-close":
		c.w.CloseWrite()
		if waitEOF {
			c.awaitEOF(wd, false)
		}
		c.w.Close()
	default:
		c.w.Close()
	}
	c.closed = true
}

// ---------------------------------------------------------------------------------------------
// launches

var c15SpawnMu sync.Mutex

type c15Launch struct {
	e      *Env
	p      *host.Proc
	kind   string // lib | bin
	addr   string
	wl     string
	rr     refRange
	hasWL  bool
	N      int
	log    *c15Log
	nextID int
	st     *c15Stats
}

func (L *c15Launch) desc() string {
	return fmt.Sprintf("%s whitelist=%q max-clients=%d", L.kind, L.wl, L.N)
}

// c15Start launches the real server: kind "lib" = worker child hosting pkg/server behind the
// LimitListener/FilterListener composition, kind "bin" = the real CLI binary with flags (or, when
// viaEnv, the documented environment variables).
func c15Start(e *Env, st *c15Stats, kind, root, wl string, n int, v6, dual, viaEnv bool, tag string) (*c15Launch, error) {
	L := &c15Launch{e: e, kind: kind, wl: wl, N: n, log: newC15Log(), st: st}
	if wl != "" {
		rr, v := refParse(wl)
		if v != refAccept {
			return nil, fmt.Errorf("harness: reference does not accept %q", wl)
		}
		L.rr, L.hasWL = rr, true
	}
	listen := "127.0.0.1:0"
	if v6 {
		listen = "[::1]:0"
	}
	if dual {
		// wildcard socket serving both families: IPv4 peers reach the server as IPv4-mapped IPv6 addresses
		listen = "[::]:0"
	}
	c15SpawnMu.Lock()
	defer c15SpawnMu.Unlock()
	var err error
	if kind == "lib" {
		L.p, err = host.SpawnWorker(worker.Config{Root: root, NoSpy: true, MaxClients: n, Whitelist: wl, Listen: listen},
			host.Opt{Bin: e.VH, Dir: e.Dir("logs"), Tag: tag})
	} else {
		args := []string{"server", "--root=" + root, "--listen-addr=" + listen}
		var env []string
		if wl != "" {
			if viaEnv {
				env = append(env, "PS3NETSRV_CLIENT_WHITELIST="+wl)
			} else {
				args = append(args, "--client-whitelist="+wl)
			}
		}
		if n > 0 {
			if viaEnv {
				env = append(env, fmt.Sprintf("PS3NETSRV_MAX_CLIENTS=%d", n))
			} else {
				args = append(args, fmt.Sprintf("--max-clients=%d", n))
			}
		}
		L.p, err = host.SpawnBin(e.Bin, args, host.Opt{Dir: e.Dir("logs"), Tag: tag, Env: env}, e.Dir("cwd"), true)
		if err != nil && L.p != nil && L.p.Alive() {
			L.p.Kill()
		}
	}
	if err != nil {
		return nil, err
	}
	if v6 {
		L.addr = fmt.Sprintf("[::1]:%d", L.p.Port)
	} else {
		L.addr = L.p.HostPort()
	}
	atomic.AddInt64(&st.launches, 1)
	return L, nil
}

func (L *c15Launch) stop() {
	if L.p != nil {
		L.p.Stop()
	}
}

func (L *c15Launch) dial(src netip.Addr, inside bool) (*c15Client, error) {
	L.nextID++
	return c15Dial(L.log, L.nextID, L.addr, src, inside, L.e.Watchdog)
}

// processResponsive is the control that does not need a free slot: the server process is alive and
// (worker) answers a command on its control channel promptly / (binary) this process is being scheduled.
func (L *c15Launch) processResponsive() bool {
	if !L.p.Alive() {
		return false
	}
	t := time.Now()
	if L.kind == "lib" {
		r, err := L.p.Do(worker.Cmd{Cmd: "goroutines"})
		return err == nil && r.OK && time.Since(t) < 5*time.Second
	}
	ch := make(chan struct{})
	go func() { time.Sleep(time.Millisecond); close(ch) }()
	<-ch
	return time.Since(t) < time.Second
}

// crashCheck: the server must have survived the workload.
func (L *c15Launch) crashCheck(witness any) {
	if !L.p.Alive() || L.p.CrashTrace() != "" {
		L.e.Run.Violate("process-died", L.kind, fmt.Sprintf("server process %s; trace: %s", L.p.ExitString(), L.p.CrashTrace()), witness)
	}
}

// c15MustHappen waits for something the server owes us. ok=false, conclusive=true only when the
// watchdog expired twice while the control succeeded in between and afterwards.
func c15MustHappen(wd time.Duration, st *c15Stats, wait func(d time.Duration) bool, control func() bool) (ok, conclusive bool) {
	if wait(wd) {
		return true, true
	}
	if !control() {
		return false, false
	}
	if wait(wd / 2) {
		atomic.AddInt64(&st.late, 1)
		return true, true
	}
	if !control() {
		return false, false
	}
	return false, true
}

// ---------------------------------------------------------------------------------------------
// statistics

type c15Stats struct {
	launches, events, inside, outside, skipped, late   int64
	blocked, blockedReleased, rejected, schedules      int64
	steps, binWL, binLim, v6, abortedSchedules, capped int64
	notClosedViolations                                int32
	mu                                                 sync.Mutex
	maxStrict, maxLoose                                map[string]int
	roundTripsWhileBlocked                             int64
}

func (st *c15Stats) noteOverlap(n, strict, loose int) {
	st.mu.Lock()
	k := fmt.Sprintf("N=%d", n)
	st.maxStrict[k] = max(st.maxStrict[k], strict)
	st.maxLoose[k] = max(st.maxLoose[k], loose)
	st.mu.Unlock()
}

// ---------------------------------------------------------------------------------------------
// part 1: whitelist — generators

func c15Usable(a netip.Addr) bool {
	if !a.Is4() {
		return false
	}
	b := a.As4()
	if b[0] != 127 {
		return false
	}
	if (b[1] == 0 && b[2] == 0 && b[3] == 0) || (b[1] == 255 && b[2] == 255 && b[3] == 255) {
		return false
	}
	return true
}

func c15RandLoop(r *rand.Rand) netip.Addr {
	b := [4]byte{127, 0, byte(r.Intn(256)), byte(r.Intn(256))}
	switch r.Intn(4) {
	case 0:
		b[1] = byte(r.Intn(256))
	case 1:
		b[1] = byte(r.Intn(4))
	}
	if r.Intn(6) == 0 {
		b[3] = []byte{0, 1, 254, 255}[r.Intn(4)]
	}
	return netip.AddrFrom4(b)
}

func c15Add(a netip.Addr, d int64) (netip.Addr, bool) {
	x, ok := from128(new(big.Int).Add(to128(a), big.NewInt(d)))
	if !ok || !x.Is4In6() {
		return netip.Addr{}, false
	}
	return x.Unmap(), true
}

func c15GenSpec(r *rand.Rand, kind int) string {
	a := c15RandLoop(r)
	base := func(bits int) netip.Addr { // half of the specs carry host bits
		if r.Intn(2) == 0 {
			p, _ := a.Prefix(bits)
			return p.Addr()
		}
		return a
	}
	switch kind % 16 {
	case 0:
		if r.Intn(4) == 0 {
			return "127.0.0.1"
		}
		return a.String()
	case 1:
		if b, ok := c15Add(a, int64(r.Intn(41))); ok && c15InLoop(b) {
			return a.String() + "-" + b.String()
		}
		return a.String() + "-" + a.String()
	case 2:
		if b, ok := c15Add(a, int64(200+r.Intn(70000))); ok && c15InLoop(b) {
			return a.String() + "-" + b.String()
		}
		return "127.0.1.0-127.0.1.40"
	case 3:
		return fmt.Sprintf("%s/24", base(24))
	case 4:
		return fmt.Sprintf("%s/28", base(28))
	case 5:
		return fmt.Sprintf("%s/30", base(30))
	case 6:
		return fmt.Sprintf("%s/31", base(31))
	case 7:
		return fmt.Sprintf("%s/32", a)
	case 8:
		if r.Intn(2) == 0 {
			return "127.0.0.0/8"
		}
		return fmt.Sprintf("%s/8", a)
	case 9:
		bits := 9 + r.Intn(21)
		return fmt.Sprintf("%s/%d", base(bits), bits)
	case 10:
		return fmt.Sprintf("%s/255.255.255.0", base(24))
	case 11:
		bits := []int{8, 16, 20, 25, 28, 30, 31, 32}[r.Intn(8)]
		return fmt.Sprintf("%s/%s", base(bits), net.IP(net.CIDRMask(bits, 32)))
	case 12:
		return []string{"::1", "::1/128", "::/126"}[r.Intn(3)] // IPv6-only set: every IPv4 client is outside
	case 13: // a range that starts at a block's first address / ends at its last
		p, _ := a.Prefix(24)
		if r.Intn(2) == 0 {
			return fmt.Sprintf("%s-%s", p.Addr(), a)
		}
		last, _ := c15Add(p.Addr(), 255)
		return fmt.Sprintf("%s-%s", a, last)
	case 14:
		return fmt.Sprintf("%s/29", base(29))
	default:
		if b, ok := c15Add(a, int64(1+r.Intn(3))); ok && c15InLoop(b) {
			return a.String() + "-" + b.String()
		}
		return a.String()
	}
}

func c15InLoop(a netip.Addr) bool { return a.Is4() && a.As4()[0] == 127 }

type c15Src struct {
	addr   netip.Addr
	inside bool
	pos    string // border | just-outside | inside | outside
}

func c15Pos(rr refRange, a netip.Addr) (bool, string) {
	in := rr.contains(a)
	v := to128(a)
	one := big.NewInt(1)
	switch {
	case v.Cmp(rr.lo) == 0 || v.Cmp(rr.hi) == 0:
		return in, "border"
	case new(big.Int).Sub(rr.lo, v).Cmp(one) == 0 || new(big.Int).Sub(v, rr.hi).Cmp(one) == 0:
		return in, "just-outside"
	case in:
		return in, "inside"
	}
	return in, "outside"
}

// c15Sources picks client source addresses for a set: borders ±1 (= network/broadcast address of a
// block), the default loopback address, random interior, near and far exterior.
func c15Sources(r *rand.Rand, rr refRange, want int) []c15Src {
	seen := map[netip.Addr]bool{}
	var out []c15Src
	add := func(a netip.Addr) bool {
		if !c15Usable(a) || seen[a] {
			return false
		}
		seen[a] = true
		in, pos := c15Pos(rr, a)
		out = append(out, c15Src{a, in, pos})
		return true
	}
	addBig := func(v *big.Int) bool {
		x, ok := from128(v)
		if !ok || !x.Is4In6() {
			return false
		}
		return add(x.Unmap())
	}
	for _, d := range []int64{-1, 0, 1} {
		addBig(new(big.Int).Add(rr.lo, big.NewInt(d)))
		addBig(new(big.Int).Add(rr.hi, big.NewInt(d)))
	}
	add(netip.MustParseAddr("127.0.0.1"))
	span := new(big.Int).Sub(rr.hi, rr.lo)
	for tries := 0; len(out) < want && tries < want*12; tries++ {
		switch tries % 4 {
		case 0, 2: // interior
			if span.Sign() > 0 {
				addBig(new(big.Int).Add(rr.lo, new(big.Int).Rand(r, new(big.Int).Add(span, big.NewInt(1)))))
			}
		case 1: // near exterior
			d := int64(2 + r.Intn(300))
			if r.Intn(2) == 0 {
				addBig(new(big.Int).Sub(rr.lo, big.NewInt(d)))
			} else {
				addBig(new(big.Int).Add(rr.hi, big.NewInt(d)))
			}
		default: // far exterior (or wherever it falls)
			a := c15RandLoop(r)
			if !rr.contains(a) || r.Intn(4) == 0 {
				add(a)
			}
		}
	}
	return out
}

// ---------------------------------------------------------------------------------------------
// part 1: offline checker

type c15Meta struct {
	ID        int    `json:"client"`
	Src       string `json:"src"`
	Inside    bool   `json:"inside"`
	Pos       string `json:"position"`
	ControlOK bool   `json:"control_ok"`
	Capped    bool   `json:"short_watchdog,omitempty"`
}

type c15Verdict struct {
	meta         c15Meta
	rule         string // "" = conforming
	inconclusive bool
	detail       string
}

// c15JudgeWhitelist decides every probe of one launch from the event log alone (plus the recorded
// control outcome): outside ⇒ zero bytes and closed by the server; inside ⇒ a complete answer.
func c15JudgeWhitelist(ev []c15Event, metas []c15Meta) []c15Verdict {
	by := map[int][]c15Event{}
	for _, x := range ev {
		by[x.C] = append(by[x.C], x)
	}
	var out []c15Verdict
	for _, m := range metas {
		v := c15Verdict{meta: m}
		var bytes int
		var done, eof, timeout bool
		for _, x := range by[m.ID] {
			switch x.Kind {
			case "recv_first":
				bytes = max(bytes, x.N)
			case "recv_done":
				done = true
				bytes = max(bytes, x.N)
			case "eof":
				eof = true
				bytes = max(bytes, x.N)
			case "timeout":
				timeout = true
				bytes = max(bytes, x.N)
			}
		}
		switch {
		case !m.Inside && bytes > 0:
			v.rule, v.detail = "outside-got-bytes", fmt.Sprintf("client %s is outside the whitelist but received %d response byte(s)", m.Src, bytes)
		case !m.Inside && eof:
		case !m.Inside && timeout && m.Capped:
		case !m.Inside && timeout && m.ControlOK:
			v.rule, v.detail = "outside-not-closed", fmt.Sprintf("client %s is outside the whitelist; its connection was still open after the watchdog while a whitelisted control client was served", m.Src)
		case !m.Inside:
			v.inconclusive, v.detail = true, fmt.Sprintf("outside client %s: neither closed nor answered, control failed", m.Src)
		case done:
		case eof:
			v.rule, v.detail = "inside-not-served", fmt.Sprintf("client %s is inside the whitelist but its connection was closed after %d of %d answer bytes", m.Src, bytes, c15Answer)
		case timeout && m.ControlOK:
			v.rule, v.detail = "inside-not-served", fmt.Sprintf("client %s is inside the whitelist but got %d of %d answer bytes within the watchdog while a fresh whitelisted connection was served", m.Src, bytes, c15Answer)
		default:
			v.inconclusive, v.detail = true, fmt.Sprintf("inside client %s: no complete answer, control failed", m.Src)
		}
		out = append(out, v)
	}
	return out
}

// ---------------------------------------------------------------------------------------------
// part 1: driver

type c15WLCase struct {
	kind, spec string
	v6, viaEnv bool
	dual       bool // the server listens on [::] (both families), clients come over IPv4
	srcs       []c15Src
}

func c15RunWhitelist(e *Env, st *c15Stats, root string, cs c15WLCase, idx int) {
	run := e.Run
	class := specClass(cs.spec)
	L, err := c15Start(e, st, cs.kind, root, cs.spec, 0, cs.v6, cs.dual, cs.viaEnv, fmt.Sprintf("c15-wl%d", idx))
	if err != nil {
		switch {
		case (cs.v6 || cs.dual) && !strings.Contains(err.Error(), "whitelist"):
			atomic.AddInt64(&st.skipped, int64(len(cs.srcs)))
			run.Count("v6_launches_unavailable", 1)
		case strings.Contains(err.Error(), "whitelist") || strings.Contains(err.Error(), "client-whitelist"):
			run.Violate("whitelist-spec-rejected", class, fmt.Sprintf("[%s] the documented specification %q was refused: %v", cs.kind, cs.spec, err), map[string]any{"spec": cs.spec, "target": cs.kind})
		default:
			run.Inconclusive(fmt.Sprintf("cannot launch %s with whitelist %q: %v", cs.kind, cs.spec, err))
		}
		return
	}
	defer L.stop()
	wd := e.Watchdog
	var metas []c15Meta
	var control *c15Src // an inside address to use for control connections
	for i := range cs.srcs {
		if cs.srcs[i].inside {
			control = &cs.srcs[i]
			break
		}
	}
	runControl := func() bool {
		if !L.processResponsive() {
			return false
		}
		if control == nil {
			return true
		}
		c, err := L.dial(control.addr, true)
		if err != nil {
			return false
		}
		defer c.depart("orderly", false, wd)
		c.send()
		return c.recv(wd) == wire.Full
	}
	for _, s := range cs.srcs {
		c, err := L.dial(s.addr, s.inside)
		if err != nil {
			if c15BindErr(err) {
				atomic.AddInt64(&st.skipped, 1)
			} else {
				run.Inconclusive(fmt.Sprintf("dial from %s to a %s launch failed: %v", s.addr, cs.kind, err))
			}
			continue
		}
		run.Eval(1)
		m := c15Meta{ID: c.id, Src: c.src, Inside: s.inside, Pos: s.pos}
		c.send()
		if s.inside {
			atomic.AddInt64(&st.inside, 1)
			ok, concl := c15MustHappen(wd, st, func(d time.Duration) bool { return c.recv(d) != wire.Timeout }, runControl)
			m.ControlOK = !ok && concl
		} else {
			atomic.AddInt64(&st.outside, 1)
			if atomic.LoadInt32(&st.notClosedViolations) >= 3 {
				// the defect is established; do not spend the full watchdog on every further probe
				m.Capped = true
				if c.awaitEOF(300*time.Millisecond, true) == wire.Timeout {
					atomic.AddInt64(&st.capped, 1)
				}
			} else {
				ok, concl := c15MustHappen(wd, st, func(d time.Duration) bool { return c.awaitEOF(d, true) != wire.Timeout }, runControl)
				m.ControlOK = !ok && concl
				if m.ControlOK {
					atomic.AddInt32(&st.notClosedViolations, 1)
				}
			}
		}
		c.depart("orderly", false, wd)
		metas = append(metas, m)
	}
	ev := L.log.events()
	atomic.AddInt64(&st.events, int64(len(ev)))
	for _, v := range c15JudgeWhitelist(ev, metas) {
		memb := "outside"
		if v.meta.Inside {
			memb = "inside"
		}
		switch {
		case v.inconclusive:
			run.Inconclusive(fmt.Sprintf("[%s whitelist=%s] %s", cs.kind, cs.spec, v.detail))
		case v.rule != "":
			var mine []c15Event
			for _, x := range ev {
				if x.C == v.meta.ID {
					mine = append(mine, x)
				}
			}
			run.Violate(v.rule, class+" "+v.meta.Pos, fmt.Sprintf("[%s whitelist=%s] %s", cs.kind, cs.spec, v.detail),
				map[string]any{"target": cs.kind, "whitelist": cs.spec, "listen_v6": cs.v6, "listen_dual_stack": cs.dual, "probe": v.meta, "events": c15FormatEvents(mine, 40)})
		default:
			if cs.dual {
				run.Sig("%s dual-stack %s %s", cs.kind, class, memb)
			}
			run.Sig("%s %s %s %s", cs.kind, class, memb, v.meta.Pos)
		}
	}
	if idx%13 == 0 {
		run.Sample(map[string]any{"part": "whitelist", "target": cs.kind, "whitelist": cs.spec, "probes": metas, "events": c15FormatEvents(ev, 30)})
	}
	L.crashCheck(map[string]any{"whitelist": cs.spec})
}

func c15Part1(e *Env, st *c15Stats, root string) {
	r := e.Rng(15)
	var cases []c15WLCase
	perSpec := e.Pick(12, 40)
	mk := func(kind, spec string, v6, viaEnv bool) {
		rr, v := refParse(spec)
		if v != refAccept {
			fatalf("c15: generated specification %q is not accepted by the reference", spec)
		}
		cs := c15WLCase{kind: kind, spec: spec, v6: v6, viaEnv: viaEnv}
		if v6 {
			a := netip.MustParseAddr("::1")
			in, pos := c15Pos(rr, a)
			cs.srcs = []c15Src{{a, in, pos}}
		} else {
			cs.srcs = c15Sources(r, rr, perSpec)
			// the same outsider knocks again right away (and once more): a repeat offender gets the same
			// treatment as a first-time one
			var withRepeats []c15Src
			for i, sc := range cs.srcs {
				withRepeats = append(withRepeats, sc)
				if !sc.inside && i%2 == 0 {
					withRepeats = append(withRepeats, sc)
					if i%4 == 0 {
						withRepeats = append(withRepeats, sc)
					}
				}
			}
			cs.srcs = withRepeats
		}
		cases = append(cases, cs)
	}
	for i := 0; i < e.Pick(40, 400); i++ {
		mk("lib", c15GenSpec(r, i), false, false)
	}
	v6specs := []string{"::1", "127.0.0.1", "::1/128", "::2/127", "::/126", "127.0.0.0/8", "::1-::1", "::2-::5", "::/127", "::1/127"}
	for i := 0; i < e.Pick(6, len(v6specs)); i++ {
		mk("lib", v6specs[i], true, false)
	}
	if e.Bin != "" {
		nb := e.Pick(6, 40)
		for i := 0; i < nb; i++ {
			mk("bin", c15GenSpec(r, i*5+3), false, i%3 == 2)
			atomic.AddInt64(&st.binWL, 1)
		}
		for i := 0; i < e.Pick(2, 4); i++ { // ::1 served / ::1 rejected by an IPv4 set
			mk("bin", v6specs[i], true, false)
			atomic.AddInt64(&st.binWL, 1)
		}
	}
	// sets written in IPv6 notation that contain the IPv4-mapped block: IPv4 clients are inside
	for _, sp := range []string{"::/0", "::1/64", "::-ffff::", "::/80"} {
		mk("lib", sp, false, false)
		if e.Bin != "" {
			mk("bin", sp, false, false)
		}
	}
	// dual-stack wildcard listener ([::]:port): IPv4 clients, IPv4 and IPv6-only sets
	nd := len(cases)
	for i := 0; i < e.Pick(6, 40); i++ {
		mk("lib", c15GenSpec(r, i*3+1), false, false)
	}
	if e.Bin != "" {
		for i := 0; i < e.Pick(4, 16); i++ {
			mk("bin", c15GenSpec(r, i*7+2), false, i%3 == 1)
			atomic.AddInt64(&st.binWL, 1)
		}
	}
	for i := nd; i < len(cases); i++ {
		cases[i].dual = true
	}
	ParallelDo(len(cases), 8, func(i int) { c15RunWhitelist(e, st, root, cases[i], i) })
}

// ---------------------------------------------------------------------------------------------
// part 2: offline checker

type c15LimitReport struct {
	strictMax, looseMax int
	strictWitness       []int    // clients certainly served at the same instant
	incidents           []string // a waiting client answered while N others were certainly held
	unconfirmed         []string
	blocked             int // waiting clients that stayed unanswered while the held set was full
	blockedReleased     int // ... and were answered after a departure
	roundTrips          int // completed round trips of held clients while someone was blocked
}

type c15Span struct {
	c          int
	start, end int64
}

func c15MaxOverlap(spans []c15Span) (int, []int) {
	type pt struct {
		t    int64
		kind int // 0 = end of an interval that began earlier, 1 = start, 2 = end of a point interval
		c    int
	}
	var pts []pt
	for _, s := range spans {
		if s.end < s.start {
			continue
		}
		k := 0
		if s.end == s.start {
			k = 2
		}
		pts = append(pts, pt{s.start, 1, s.c}, pt{s.end, k, s.c})
	}
	// at equal instants an interval that began earlier ends before a new one starts (sound side)
	sort.Slice(pts, func(i, j int) bool {
		if pts[i].t != pts[j].t {
			return pts[i].t < pts[j].t
		}
		return pts[i].kind < pts[j].kind
	})
	cur := map[int]bool{}
	best := 0
	var who []int
	for _, p := range pts {
		if p.kind == 1 {
			cur[p.c] = true
			if len(cur) > best {
				best = len(cur)
				who = who[:0]
				for c := range cur {
					who = append(who, c)
				}
			}
		} else {
			delete(cur, p.c)
		}
	}
	sort.Ints(who)
	return best, who
}

// c15JudgeLimit re-derives R-limit and R-wait from the event log of one schedule.
//
// Certainly-served interval of a client (strict): from the first byte of its first answer to the
// last of our sends that was answered — the server read that request, hence still held the slot, no
// matter what it did afterwards. The loose interval ends at our close (or the observed EOF); it is
// reported, and a difference between both bounds is inconclusive rather than a violation.
func c15JudgeLimit(ev []c15Event, n int) c15LimitReport {
	type cl struct {
		sends       []int64
		dones       []int64
		firstByte   int64
		hasByte     bool
		closeAt     int64
		hasClose    bool
		firstAnswer int64
	}
	cs := map[int]*cl{}
	get := func(id int) *cl {
		if cs[id] == nil {
			cs[id] = &cl{}
		}
		return cs[id]
	}
	var end int64
	for _, x := range ev {
		c := get(x.C)
		end = max(end, x.T)
		switch x.Kind {
		case "send":
			c.sends = append(c.sends, x.T)
		case "recv_first":
			if !c.hasByte {
				c.hasByte, c.firstByte = true, x.T
			}
		case "recv_done":
			if len(c.dones) == 0 {
				c.firstAnswer = x.T
			}
			c.dones = append(c.dones, x.T)
		case "close", "eof":
			if !c.hasClose {
				c.hasClose, c.closeAt = true, x.T
			}
		}
	}
	var rep c15LimitReport
	var strict, loose []c15Span
	for id, c := range cs {
		if len(c.dones) == 0 {
			continue
		}
		last := c.firstByte
		k := min(len(c.dones), len(c.sends))
		if k > 0 && c.sends[k-1] > last {
			last = c.sends[k-1]
		}
		strict = append(strict, c15Span{id, c.firstByte, last})
		le := end
		if c.hasClose {
			le = c.closeAt
		}
		loose = append(loose, c15Span{id, c.firstByte, le})
	}
	rep.strictMax, rep.strictWitness = c15MaxOverlap(strict)
	rep.looseMax, _ = c15MaxOverlap(loose)

	// R-wait: for every client whose first request was sent while N clients were held
	servedAt := func(t int64) []int {
		var out []int
		for id, c := range cs {
			if len(c.dones) > 0 && c.firstAnswer <= t && (!c.hasClose || c.closeAt > t) {
				out = append(out, id)
			}
		}
		sort.Ints(out)
		return out
	}
	ids := make([]int, 0, len(cs))
	for id := range cs {
		ids = append(ids, id)
	}
	sort.Ints(ids)
	for _, id := range ids {
		w := cs[id]
		if len(w.sends) == 0 {
			continue
		}
		ts := w.sends[0]
		full := servedAt(ts)
		if len(full) < n {
			continue
		}
		// first departure among the held set after ts
		var tc int64 = -1
		for _, h := range full {
			if c := cs[h]; c.hasClose && (tc < 0 || c.closeAt < tc) {
				tc = c.closeAt
			}
		}
		if w.hasByte && (tc < 0 || w.firstByte < tc) {
			// answered while the set was full: confirmed only if every held client completed a later round trip
			confirmed := true
			for _, h := range full {
				c := cs[h]
				if len(c.dones) == 0 || c.dones[len(c.dones)-1] <= w.firstByte {
					confirmed = false
				}
			}
			msg := fmt.Sprintf("client %d sent its request while clients %v were held (N=%d) and received its first byte before any of them departed", id, full, n)
			if confirmed {
				rep.incidents = append(rep.incidents, msg)
			} else {
				rep.unconfirmed = append(rep.unconfirmed, msg)
			}
			continue
		}
		if w.hasClose && (tc < 0 || w.closeAt < tc) {
			continue // it left before any slot was freed
		}
		rep.blocked++
		limit := end
		if tc >= 0 {
			limit = tc
		}
		for _, h := range full {
			for _, d := range cs[h].dones {
				if d > ts && d < limit {
					rep.roundTrips++
				}
			}
		}
		if w.hasByte && len(w.dones) > 0 {
			rep.blockedReleased++
		}
	}
	return rep
}

// ---------------------------------------------------------------------------------------------
// part 2: schedules

type c15Sched struct {
	L           *c15Launch
	N           int
	r           *rand.Rand
	H, Wq, Rq   []*c15Client // held (answered, open) | waiting (sent, unanswered) | rejected arrivals not yet seen closed
	steps       []string
	lastDepart  string
	lastOutside netip.Addr
	abort       bool
	over        bool
	name        string
}

func (s *c15Sched) wd() time.Duration { return s.L.e.Watchdog }

func (s *c15Sched) step(kind, variant, outcome string) {
	s.steps = append(s.steps, strings.TrimSpace(kind+" "+variant)+" -> "+outcome)
	s.L.e.Run.Eval(1)
	atomic.AddInt64(&s.L.st.steps, 1)
	v := variant
	if v == "" {
		v = "-"
	}
	s.L.e.Run.Sig("%s N=%d %s %s %s", s.L.kind, s.N, kind, v, outcome)
}

func (s *c15Sched) witness() map[string]any {
	return map[string]any{"target": s.L.kind, "whitelist": s.L.wl, "max_clients": s.N, "schedule": s.name, "steps": s.steps,
		"events": c15FormatEvents(s.L.log.events(), 120)}
}

func (s *c15Sched) violate(rule, feature, detail string) {
	s.L.e.Run.Violate(rule, feature, fmt.Sprintf("[%s] %s", s.L.desc(), detail), s.witness())
	s.abort = true
}

func (s *c15Sched) inconclusive(what string) {
	s.L.e.Run.Inconclusive(fmt.Sprintf("[%s %s] %s", s.L.desc(), s.name, what))
	s.abort = true
}

func (s *c15Sched) pickInside() netip.Addr {
	if !s.L.hasWL {
		for {
			if a := c15RandLoop(s.r); c15Usable(a) {
				return a
			}
		}
	}
	span := new(big.Int).Add(new(big.Int).Sub(s.L.rr.hi, s.L.rr.lo), big.NewInt(1))
	for {
		x, _ := from128(new(big.Int).Add(s.L.rr.lo, new(big.Int).Rand(s.r, span)))
		if a := x.Unmap(); c15Usable(a) {
			return a
		}
	}
}

func (s *c15Sched) pickOutside() netip.Addr {
	if s.lastOutside.IsValid() && s.r.Intn(2) == 0 {
		return s.lastOutside // a repeat offender
	}
	for {
		if a := c15RandLoop(s.r); c15Usable(a) && !s.L.rr.contains(a) {
			s.lastOutside = a
			return a
		}
	}
}

func (s *c15Sched) dial(inside bool) *c15Client {
	var src netip.Addr
	if inside {
		src = s.pickInside()
	} else {
		src = s.pickOutside()
	}
	for try := 0; try < 4; try++ {
		c, err := s.L.dial(src, inside)
		if err == nil {
			return c
		}
		if !c15BindErr(err) {
			s.inconclusive(fmt.Sprintf("dial from %s failed: %v", src, err))
			return nil
		}
		atomic.AddInt64(&s.L.st.skipped, 1)
		if inside {
			src = s.pickInside()
		} else {
			src = s.pickOutside()
		}
	}
	s.inconclusive("no usable source address")
	return nil
}

func c15Remove(l []*c15Client, c *c15Client) []*c15Client {
	for i, x := range l {
		if x == c {
			return append(l[:i:i], l[i+1:]...)
		}
	}
	return l
}

// roundtrip performs one complete request/answer on a held client.
func (s *c15Sched) roundtrip(h *c15Client) bool {
	h.send()
	return h.recv(s.wd()) == wire.Full
}

// control: the process is responsive and, if a client is held, it completes a round trip.
func (s *c15Sched) control() bool {
	if !s.L.processResponsive() {
		return false
	}
	if len(s.H) > 0 {
		return s.roundtrip(s.H[0])
	}
	return true
}

// pollWaiting sweeps the waiting clients for answers during at most d, until `need` of them have
// been answered; answered clients move to the held set. The kernel's accept order is only a hint.
func (s *c15Sched) pollWaiting(need int, d time.Duration) int {
	got := 0
	deadline := time.Now().Add(d)
	slice := time.Millisecond
	for {
		for i, w := range append([]*c15Client(nil), s.Wq...) {
			t := time.Millisecond
			if i == 0 {
				t = slice
			}
			switch w.tryRecv(t) {
			case wire.Full:
				s.Wq = c15Remove(s.Wq, w)
				s.H = append(s.H, w)
				got++
			case wire.Closed:
				s.Wq = c15Remove(s.Wq, w)
				s.violate("waiting-client-dropped", fmt.Sprintf("N=%d", s.N), fmt.Sprintf("whitelisted client %d (%s) was closed by the server after %d answer bytes while waiting for a slot", w.id, w.src, w.total))
				return got
			}
		}
		if got >= need || len(s.Wq) == 0 || !time.Now().Before(deadline) {
			return got
		}
		slice = min(slice*2, 50*time.Millisecond)
	}
}

// checkOver: more than N clients hold an answered connection. One more round trip on each of them
// makes the overlap strict (every one of them is served after the last one got its answer).
func (s *c15Sched) checkOver() {
	if len(s.H) <= s.N || s.over {
		return
	}
	s.over = true
	for _, h := range s.H {
		s.roundtrip(h)
	}
	s.step("OVER-LIMIT", "", fmt.Sprintf("%d-held", len(s.H)))
	s.abort = true // the offline checker raises the violation from the log
}

// settle: after any change, min(free slots, waiting clients) of the waiting clients must be served
// (R-release), and if slots remain free every pending rejected arrival must have been closed.
func (s *c15Sched) settle() bool {
	free := s.N - len(s.H)
	need := min(free, len(s.Wq))
	if need > 0 {
		got := 0
		ok, concl := c15MustHappen(s.wd(), s.L.st, func(d time.Duration) bool {
			got += s.pollWaiting(need-got, d)
			return got >= need || s.abort
		}, s.control)
		if s.abort {
			return false
		}
		if !ok {
			for _, w := range s.Wq {
				w.log.add(w.id, w.src, "timeout", w.total, "answer")
			}
			if concl {
				feature := s.lastDepart
				if feature == "" {
					feature = "no-departure"
				}
				s.violate("slot-not-released", feature, fmt.Sprintf("%d of N=%d slots are free (held: %d) but only %d of %d waiting whitelisted clients were answered within the watchdog; the control stayed responsive", free, s.N, len(s.H), got, need))
			} else {
				s.inconclusive("waiting clients not answered and the control failed")
			}
			return false
		}
	}
	s.checkOver()
	if s.abort {
		return false
	}
	if s.N-len(s.H) > 0 && len(s.Wq) == 0 && len(s.Rq) > 0 {
		return s.drainRejected()
	}
	return true
}

// drainRejected: slots are free, so every pending rejected arrival must be closed with zero bytes.
func (s *c15Sched) drainRejected() bool {
	ok := true
	for _, c := range s.Rq {
		good, concl := c15MustHappen(s.wd(), s.L.st, func(d time.Duration) bool { return c.awaitEOF(d, true) != wire.Timeout }, s.control)
		switch {
		case c.total > 0:
			s.violate("outside-got-bytes", "with-limit", fmt.Sprintf("client %d (%s) is outside the whitelist but received %d byte(s)", c.id, c.src, c.total))
			ok = false
		case !good && concl:
			s.violate("outside-not-closed", "with-limit", fmt.Sprintf("client %d (%s) is outside the whitelist and %d slot(s) are free, but its connection was still open after the watchdog while the control stayed responsive", c.id, c.src, s.N-len(s.H)))
			ok = false
		case !good:
			s.inconclusive("rejected arrival not closed and the control failed")
			ok = false
		}
		if !ok {
			break
		}
	}
	for _, c := range s.Rq {
		c.depart("orderly", false, s.wd())
	}
	s.Rq = nil
	return ok
}

func (s *c15Sched) arrive() {
	c := s.dial(true)
	if c == nil {
		return
	}
	c.send()
	s.Wq = append(s.Wq, c)
	if len(s.H) < s.N {
		if s.settle() {
			s.step("ARRIVE", "", "served")
		}
		return
	}
	// R-wait: the set is full; k=3 complete round trips on every held client, then W must still be silent
	for k := 0; k < 3; k++ {
		for _, h := range s.H {
			if !s.roundtrip(h) {
				s.inconclusive(fmt.Sprintf("held client %d did not complete a round trip", h.id))
				return
			}
		}
	}
	for _, w := range append([]*c15Client(nil), s.Wq...) {
		d := time.Millisecond
		if w == c {
			d = 100 * time.Millisecond
		}
		switch st := w.tryRecv(d); {
		case st == wire.Full:
			s.Wq = c15Remove(s.Wq, w)
			s.H = append(s.H, w)
		case st == wire.Closed:
			s.Wq = c15Remove(s.Wq, w)
			s.violate("waiting-client-dropped", fmt.Sprintf("N=%d", s.N), fmt.Sprintf("whitelisted client %d (%s) was closed by the server while waiting for a slot", w.id, w.src))
			return
		case w.have > 0: // a partial answer is already a served client
			if w.recv(s.wd()) == wire.Full {
				s.Wq = c15Remove(s.Wq, w)
				s.H = append(s.H, w)
			}
		}
	}
	s.checkOver()
	if !s.abort {
		s.step("ARRIVE", "full", "blocked")
	}
}

func (s *c15Sched) arriveRejected() {
	c := s.dial(false)
	if c == nil {
		return
	}
	atomic.AddInt64(&s.L.st.rejected, 1)
	c.send()
	s.Rq = append(s.Rq, c)
	if s.N-len(s.H) > 0 && len(s.Wq) == 0 {
		if s.drainRejected() {
			s.step("ARRIVE_REJECTED", "", "closed-zero-bytes")
		}
		return
	}
	st := c.tryRecv(20 * time.Millisecond)
	switch {
	case c.total > 0:
		s.violate("outside-got-bytes", "with-limit", fmt.Sprintf("client %d (%s) is outside the whitelist but received %d byte(s)", c.id, c.src, c.total))
	case st == wire.Closed:
		s.Rq = c15Remove(s.Rq, c)
		c.depart("orderly", false, s.wd())
		s.step("ARRIVE_REJECTED", "full", "closed-zero-bytes")
	default:
		s.step("ARRIVE_REJECTED", "full", "pending")
	}
}

// silentVisit: a whitelisted client connects, never sends a byte and leaves (port probe, client
// that gives up while waiting). Whether it got a slot or sat in the backlog, nothing may be lost.
func (s *c15Sched) silentVisit() {
	c := s.dial(true)
	if c == nil {
		return
	}
	v := c15Variants[s.r.Intn(len(c15Variants))]
	if s.r.Intn(2) == 0 {
		time.Sleep(time.Duration(1+s.r.Intn(5)) * time.Millisecond) // usually long enough to be accepted when a slot is free
	}
	c.depart(v, false, s.wd())
	s.lastDepart = "silent-" + v
	s.step("SILENT_VISIT", v, "gone")
}

func (s *c15Sched) departHeld() {
	h := s.H[s.r.Intn(len(s.H))]
	v := c15Variants[s.r.Intn(len(c15Variants))]
	waiting := len(s.Wq)
	h.depart(v, true, s.wd())
	s.H = c15Remove(s.H, h)
	s.lastDepart = v
	if s.settle() {
		out := "freed"
		if waiting > 0 {
			out = "waiting-client-released"
		}
		s.step("DEPART", v, out)
	}
}

func (s *c15Sched) departWaiting() {
	w := s.Wq[s.r.Intn(len(s.Wq))]
	v := c15Variants[s.r.Intn(len(c15Variants))]
	w.depart(v, false, s.wd())
	s.Wq = c15Remove(s.Wq, w)
	s.lastDepart = "waiting-" + v
	if s.settle() {
		s.step("DEPART_WAITING", v, "gone")
	}
}

func (s *c15Sched) roundtripStep() {
	h := s.H[s.r.Intn(len(s.H))]
	if !s.roundtrip(h) {
		s.inconclusive(fmt.Sprintf("held client %d did not complete a round trip", h.id))
		return
	}
	s.step("ROUNDTRIP", "", "answered")
}

// closeAll ends every connection of the schedule; afterwards all slots must come back.
func (s *c15Sched) closeAll() {
	for _, h := range s.H {
		v := c15Variants[s.r.Intn(len(c15Variants))]
		h.depart(v, false, s.wd())
		s.lastDepart = v
	}
	for _, w := range s.Wq {
		w.depart(c15Variants[s.r.Intn(len(c15Variants))], false, s.wd())
	}
	s.H, s.Wq = nil, nil
}

// recover: N fresh whitelisted clients must all hold an answered connection at the same time.
func (s *c15Sched) recover(rule, stepName string) bool {
	for i := 0; i < s.N; i++ {
		c := s.dial(true)
		if c == nil {
			return false
		}
		c.send()
		s.Wq = append(s.Wq, c)
	}
	got := 0
	ok, concl := c15MustHappen(s.wd(), s.L.st, func(d time.Duration) bool {
		got += s.pollWaiting(s.N-got, d)
		return got >= s.N || s.abort
	}, s.L.processResponsive)
	if s.abort {
		return false
	}
	if ok {
		for _, h := range s.H { // second round trip: all N are served after the last one was first answered
			if !s.roundtrip(h) {
				ok, concl = false, s.L.processResponsive()
				break
			}
		}
	}
	if !ok {
		for _, w := range s.Wq {
			w.log.add(w.id, w.src, "timeout", w.total, "answer")
		}
		if concl {
			s.violate(rule, fmt.Sprintf("N=%d", s.N), fmt.Sprintf("after every connection of the schedule had ended, only %d of N=%d fresh whitelisted clients were served concurrently within the watchdog; the process stayed responsive", got, s.N))
		} else {
			s.inconclusive("fresh clients not served and the control failed")
		}
		return false
	}
	s.checkOver()
	if s.abort {
		return false
	}
	s.step(stepName, "", "all-served")
	for _, h := range s.H {
		h.depart("orderly", false, s.wd())
	}
	s.H = nil
	return true
}

func (s *c15Sched) run() {
	N := s.N
	maxArr := 2*N + s.r.Intn(2*N+1) // 2N..4N arrivals of whitelisted clients
	arrivals, released := 0, 0
	type opt struct {
		w int
		f func()
	}
	for n := 0; n < 20*N+20 && !s.abort; n++ {
		if arrivals >= maxArr && released > 0 {
			break
		}
		// every schedule observes at least one waiting client blocked and then released: when the
		// remaining arrivals are just enough to fill the set and add a waiter, do exactly that
		needArr := max(0, N-len(s.H))
		if len(s.Wq) == 0 {
			needArr++
		}
		if released == 0 && maxArr-arrivals <= needArr {
			if len(s.Wq) == 0 {
				arrivals++
				s.arrive()
			} else {
				released++
				s.departHeld()
			}
			continue
		}
		full := len(s.H) >= N
		var opts []opt
		switch {
		case arrivals >= maxArr:
		case !full:
			opts = append(opts, opt{5, func() { arrivals++; s.arrive() }})
		case len(s.Wq) < N+1:
			opts = append(opts, opt{3, func() { arrivals++; s.arrive() }})
		}
		if len(s.H) > 0 {
			w := 1
			if full {
				w = 4
			}
			opts = append(opts, opt{w, func() {
				if len(s.Wq) > 0 {
					released++
				}
				s.departHeld()
			}})
			opts = append(opts, opt{1, s.roundtripStep})
		}
		if len(s.Wq) > 0 {
			opts = append(opts, opt{1, s.departWaiting})
		}
		if s.L.hasWL {
			opts = append(opts, opt{2, s.arriveRejected})
		}
		opts = append(opts, opt{2, s.silentVisit})
		tot := 0
		for _, o := range opts {
			tot += o.w
		}
		if tot == 0 {
			break
		}
		x := s.r.Intn(tot)
		for _, o := range opts {
			if x < o.w {
				o.f()
				break
			}
			x -= o.w
		}
	}
	if s.abort {
		return
	}
	// clients that leave without having sent anything, while slots are free and while they are taken
	for i := 0; i < N+1 && !s.abort; i++ {
		s.silentVisit()
	}
	// R-recover
	s.closeAll()
	if len(s.Rq) > 0 && !s.drainRejected() {
		return
	}
	if !s.recover("capacity-lost", "RECOVER") {
		return
	}
	// R-reject-frees
	if s.L.hasWL {
		for i := 0; i < 3*N; i++ {
			c := s.dial(false)
			if c == nil {
				return
			}
			atomic.AddInt64(&s.L.st.rejected, 1)
			c.send()
			s.Rq = append(s.Rq, c)
		}
		rejectedClosed := s.drainRejected()
		if rejectedClosed {
			s.step("REJECT_BURST", "", "all-closed-zero-bytes")
		}
		s.abort = false // still ask whether the capacity survived the burst
		s.recover("capacity-lost-after-rejects", "RECOVER_AFTER_REJECTS")
		if !rejectedClosed {
			s.abort = true
		}
	}
}

func (s *c15Sched) cleanup() {
	for _, l := range [][]*c15Client{s.H, s.Wq, s.Rq} {
		for _, c := range l {
			c.depart("orderly", false, s.wd())
		}
	}
	s.H, s.Wq, s.Rq = nil, nil, nil
}

type c15LimCase struct {
	kind      string
	N         int
	wl        string
	viaEnv    bool
	schedules int
	salt      int64
}

func c15RunLimit(e *Env, st *c15Stats, root string, cs c15LimCase, idx int) {
	run := e.Run
	L, err := c15Start(e, st, cs.kind, root, cs.wl, cs.N, false, false, cs.viaEnv, fmt.Sprintf("c15-lim%d", idx))
	if err != nil {
		run.Inconclusive(fmt.Sprintf("cannot launch %s with max-clients=%d whitelist=%q: %v", cs.kind, cs.N, cs.wl, err))
		return
	}
	defer L.stop()
	for k := 0; k < cs.schedules; k++ {
		L.log = newC15Log()
		s := &c15Sched{L: L, N: cs.N, r: e.Rng(1500 + cs.salt*100 + int64(k)), name: fmt.Sprintf("salt=%d/%d", cs.salt, k)}
		s.run()
		s.cleanup()
		atomic.AddInt64(&st.schedules, 1)
		ev := L.log.events()
		atomic.AddInt64(&st.events, int64(len(ev)))
		rep := c15JudgeLimit(ev, cs.N)
		st.noteOverlap(cs.N, rep.strictMax, rep.looseMax)
		atomic.AddInt64(&st.blocked, int64(rep.blocked))
		atomic.AddInt64(&st.blockedReleased, int64(rep.blockedReleased))
		atomic.AddInt64(&st.roundTripsWhileBlocked, int64(rep.roundTrips))
		feature := fmt.Sprintf("N=%d", cs.N)
		switch {
		case len(rep.incidents) > 0:
			run.Violate("served-beyond-limit", feature, fmt.Sprintf("[%s] %s; every held client completed a later round trip (max certainly-served overlap %d)", L.desc(), rep.incidents[0], rep.strictMax), s.witness())
			s.abort = true
		case rep.strictMax > cs.N:
			run.Violate("limit-exceeded", feature, fmt.Sprintf("[%s] clients %v were certainly served at the same instant: %d > N=%d", L.desc(), rep.strictWitness, rep.strictMax, cs.N), s.witness())
			s.abort = true
		case len(rep.unconfirmed) > 0 || rep.looseMax > cs.N || s.over:
			run.Inconclusive(fmt.Sprintf("[%s %s] more than N clients looked served (loose overlap %d, strict %d) but the held clients did not all complete a later round trip: %v", L.desc(), s.name, rep.looseMax, rep.strictMax, rep.unconfirmed))
			s.abort = true
		}
		if k == 0 && idx%4 == 0 {
			run.Sample(map[string]any{"part": "limit", "target": cs.kind, "max_clients": cs.N, "whitelist": cs.wl, "steps": s.steps,
				"judge":  map[string]int{"max_overlap_strict": rep.strictMax, "max_overlap_loose": rep.looseMax, "blocked": rep.blocked, "blocked_then_released": rep.blockedReleased, "held_round_trips_while_blocked": rep.roundTrips},
				"events": c15FormatEvents(ev, 60)})
		}
		if s.abort { // the launch may have lost slots or be in an unknown state: do not reuse it
			atomic.AddInt64(&st.abortedSchedules, int64(cs.schedules-k))
			break
		}
	}
	L.crashCheck(map[string]any{"max_clients": cs.N, "whitelist": cs.wl})
}

func c15Part2(e *Env, st *c15Stats, root string) {
	r := e.Rng(152)
	wlFor := func(i int) string {
		switch i % 4 {
		case 0:
			return ""
		case 1:
			return fmt.Sprintf("127.0.%d.0/24", 1+r.Intn(200))
		case 2:
			b := 1 + r.Intn(200)
			return fmt.Sprintf("127.0.%d.10-127.0.%d.60", b, b)
		default:
			return fmt.Sprintf("127.%d.0.0/255.255.0.0", 1+r.Intn(200))
		}
	}
	var cases []c15LimCase
	maxN := e.Pick(3, 8)
	perN := e.Pick(10, 50)
	batch := 5
	salt := int64(0)
	for n := 1; n <= maxN; n++ {
		for b := 0; b < perN/batch; b++ {
			salt++
			cases = append(cases, c15LimCase{kind: "lib", N: n, wl: wlFor(b + n), schedules: batch, salt: salt})
		}
	}
	if e.Bin != "" {
		nb := e.Pick(6, 40)
		for i := 0; i < nb; i++ {
			salt++
			cases = append(cases, c15LimCase{kind: "bin", N: 1 + i%maxN, wl: wlFor(i + 1), viaEnv: i%3 == 2, schedules: e.Pick(3, 5), salt: salt})
			atomic.AddInt64(&st.binLim, 1)
		}
	}
	// larger N first: better balance across the 8 drivers
	sort.SliceStable(cases, func(i, j int) bool { return cases[i].N > cases[j].N })
	ParallelDo(len(cases), 8, func(i int) { c15RunLimit(e, st, root, cases[i], i) })
}

// ---------------------------------------------------------------------------------------------

// c15FdShortage: capacity must survive a spell of failing accepts. The real binary runs with a limit
// of N clients; its descriptor limit is lowered (prlimit) so that one client is served and the next
// accepts fail with EMFILE for a while; then the limit is restored and the first client leaves. After
// that N fresh clients must be served at the same time, as on a server that never saw the shortage.
func c15FdShortage(e *Env, st *c15Stats, root string) {
	run := e.Run
	if e.Bin == "" {
		return
	}
	if _, err := exec.LookPath("prlimit"); err != nil {
		run.Count("fd_shortage_scenario_skipped_no_prlimit", 1)
		return
	}
	for _, n := range []int{2, 3, 5} {
		p, err := host.SpawnBin(e.Bin, []string{"server", "--root=" + root, "--listen-addr=127.0.0.1:0", fmt.Sprintf("--max-clients=%d", n)}, host.Opt{Dir: e.Dir("logs"), Tag: fmt.Sprintf("c15-fd%d", n)}, e.Dir("cwd"), true)
		if err != nil {
			run.Inconclusive(fmt.Sprintf("fd-shortage: cannot launch the binary: %v", err))
			continue
		}
		func() {
			defer p.Stop()
			pid := p.Cmd.Process.Pid
			addr := p.HostPort()
			wd := e.Watchdog
			roundTrip := func(c *wire.Client) bool {
				if c.Send(wire.P(wire.OpStat, "/")) != nil {
					return false
				}
				_, stt := c.ReadNT(wire.SzStat, wd)
				return stt == wire.Full
			}
			serve := func(k int) (int, []*wire.Client) { // k clients at once, all kept open: how many get an answer
				var cls []*wire.Client
				res := make([]bool, k)
				var wg sync.WaitGroup
				for i := 0; i < k; i++ {
					c, err := wire.Dial(addr, nil, wd)
					if err != nil {
						continue
					}
					cls = append(cls, c)
					wg.Add(1)
					go func() { defer wg.Done(); res[i] = roundTrip(c) }()
				}
				wg.Wait()
				ok := 0
				for _, r := range res {
					if r {
						ok++
					}
				}
				return ok, cls
			}
			closeAll := func(cls []*wire.Client) {
				for _, c := range cls {
					c.Close()
				}
			}
			run.Eval(1)
			// control: before the shortage the server serves N at once
			ok0, cls := serve(n)
			closeAll(cls)
			if ok0 != n {
				run.Inconclusive(fmt.Sprintf("fd-shortage N=%d: only %d of %d clients served before the shortage (judged by the schedules)", n, ok0, n))
				return
			}
			time.Sleep(100 * time.Millisecond)
			ents, err := os.ReadDir(fmt.Sprintf("/proc/%d/fd", pid))
			if err != nil {
				run.Inconclusive("fd-shortage: cannot read the descriptor table: " + err.Error())
				return
			}
			low := len(ents) + 1 // room for exactly one connection
			restore := "--nofile=1024:"
			if out, err := exec.Command("prlimit", fmt.Sprintf("--pid=%d", pid), "--nofile", "-o", "SOFT", "--noheadings").Output(); err == nil && strings.TrimSpace(string(out)) != "" {
				restore = "--nofile=" + strings.TrimSpace(string(out)) + ":"
			}
			if out, err := exec.Command("prlimit", fmt.Sprintf("--pid=%d", pid), fmt.Sprintf("--nofile=%d:", low)).CombinedOutput(); err != nil {
				run.Count("fd_shortage_scenario_skipped_prlimit_refused", 1)
				_ = out
				return
			}
			a, err := wire.Dial(addr, nil, wd)
			if err != nil || !roundTrip(a) {
				run.Inconclusive(fmt.Sprintf("fd-shortage N=%d: the one client that fits under the lowered limit was not served", n))
				exec.Command("prlimit", fmt.Sprintf("--pid=%d", pid), restore).Run()
				return
			}
			// these arrive while accept fails (no descriptor left); they wait in the backlog
			var waiting []*wire.Client
			for i := 0; i < n; i++ {
				if c, err := wire.Dial(addr, nil, wd); err == nil {
					c.Send(wire.P(wire.OpStat, "/"))
					waiting = append(waiting, c)
				}
			}
			time.Sleep(700 * time.Millisecond) // several failed accepts (the server retries with a growing pause)
			exec.Command("prlimit", fmt.Sprintf("--pid=%d", pid), restore).Run()
			a.Close()
			closeAll(waiting)
			time.Sleep(1200 * time.Millisecond) // longest pause between two accept attempts is 1 s
			// the shortage is over and everybody has left: N fresh clients at once
			ok1, cls1 := serve(n)
			defer closeAll(cls1)
			wit := map[string]any{"max_clients": n, "nofile_during_shortage": low, "served_before": ok0, "served_after": ok1, "stderr_tail": tailStr(strings.Split(p.Stderr(), "\n"), 8)}
			switch {
			case !p.Alive():
				run.Violate("process-died", "bin fd-shortage", fmt.Sprintf("[binary --max-clients=%d] the server died during a descriptor shortage: %s", n, p.ExitString()), wit)
			case ok1 == n:
				run.Sig("bin fd-shortage N=%d capacity kept", n)
				run.Count("fd_shortage_capacity_kept", 1)
			default:
				// once more, after another watchdog period, before it counts
				closeAll(cls1)
				time.Sleep(2 * time.Second)
				ok2, cls2 := serve(n)
				defer closeAll(cls2)
				wit["served_after_retry"] = ok2
				if ok2 != n {
					run.Violate("capacity-lost", "bin after failing accepts", fmt.Sprintf("[binary --max-clients=%d] before a spell of failing accepts (descriptor limit lowered to %d for 0.7 s while %d clients knocked) %d clients were served at once; after it, with the limit restored and every client gone, only %d and then %d of %d fresh clients are answered within %v each", n, low, n, ok0, ok1, ok2, n, wd), wit)
				} else {
					run.Inconclusive(fmt.Sprintf("fd-shortage N=%d: %d of %d served right after the shortage, all of them %v later", n, ok1, n, 2*time.Second))
				}
			}
		}()
	}
}

func C15(e *Env) {
	run := e.Run
	run.Rule = "cases: (a) one probe = (whitelist specification, client source address): specifications from the documented grammar restricted to loopback (single, range, CIDR /8../32 with and without host bits, netmask form, IPv6-only sets), sources at the set's borders +-1 (network/broadcast address of a block), random interior, near and far exterior, 127.0.0.1, ::1 against [::1] listeners, and IPv4 sources against dual-stack [::] listeners (peers arrive as IPv4-mapped addresses); membership expected from the reference address set; the client connects, sends STAT / and must either receive the complete 33-byte answer (inside) or be closed by the server with zero bytes (outside). (b) one step of a PRNG schedule over up to 4N clients against a server limited to N clients (optionally also whitelisted): ARRIVE, ARRIVE while N are held (must stay unanswered across 3 complete round trips of every held client), DEPART (orderly / half-close / RST; a waiting client must then be answered), DEPART_WAITING, ARRIVE_REJECTED, ROUNDTRIP, then close-everything + N fresh clients served concurrently, then a burst of 3N rejected arrivals + N fresh clients; (c) the real binary with N in {2,3,5}: descriptor limit lowered with prlimit so that accepts fail for 0.7 s while N clients knock, limit restored, everybody leaves, then N fresh clients must be served at once. (a) and (b) both on the library worker (LimitListener under FilterListener as in cmd/) and on the real binary (flags and environment). Verdicts from the client-side event log (one monotonic clock): zero-byte/closed/answered per probe, max overlap of certainly-served intervals <= N, no first byte for a waiting client before a departure; liveness verdicts need a 10 s watchdog plus a responsive control, else inconclusive. non-trivial = distinct (target, spec class, membership, position) and (target, N, step kind, departure variant, outcome)"
	root := e.Dir("c15root")
	must(os.WriteFile(filepath.Join(root, "hello.txt"), []byte("hello"), 0o644))
	st := &c15Stats{maxStrict: map[string]int{}, maxLoose: map[string]int{}}

	c15Part1(e, st, root)
	c15Part2(e, st, root)
	c15FdShortage(e, st, root)

	run.Obs("server_launches", st.launches)
	run.Obs("events_recorded", st.events)
	run.Obs("inside_probes", st.inside)
	run.Obs("outside_probes", st.outside)
	run.Obs("skipped_sources_bind_refused", st.skipped)
	run.Obs("schedules", st.schedules)
	run.Obs("schedule_steps", st.steps)
	run.Obs("schedules_not_run_after_abort", st.abortedSchedules)
	run.Obs("max_certainly_served_overlap_per_N", st.maxStrict)
	run.Obs("max_loose_overlap_per_N", st.maxLoose)
	run.Obs("clients_unanswered_while_held_set_full_incl_rejected_arrivals", st.blocked)
	run.Obs("waiting_clients_blocked_then_released", st.blockedReleased)
	run.Obs("held_round_trips_completed_while_a_client_was_blocked", st.roundTripsWhileBlocked)
	run.Obs("rejected_arrivals_with_limit", st.rejected)
	run.Obs("answers_after_first_watchdog", st.late)
	run.Obs("binary_whitelist_configs", st.binWL)
	run.Obs("binary_limit_configs", st.binLim)
	run.Obs("outside_probes_with_short_watchdog_after_established_defect", st.capped)
	run.Assume("client source addresses 127.0.0.0 and 127.255.255.255 are not used (the kernel may refuse them); sources whose bind is refused are skipped and counted")
	run.Assume("the kernel accept backlog lets a waiting client's connect succeed; only response bytes count as being served")
	run.Floor(e.Bin != "", "the real binary was not provided (VERIF_BIN)")
	run.Floor(st.blockedReleased >= 20, fmt.Sprintf("only %d waiting clients observed blocked-then-released (< 20)", st.blockedReleased))
	run.Floor(st.inside >= 100 && st.outside >= 100, fmt.Sprintf("too few whitelist probes: %d inside, %d outside (< 100)", st.inside, st.outside))
}
