//go:build verif

package checks

import (
	"bytes"
	"encoding/hex"
	"fmt"
	"math/rand"
	"os"
	"os/exec"
	"path/filepath"
	"regexp"
	"strings"
	"sync"
	"time"

	"verif/host"
	"verif/model"
	"verif/refcrypt"
	"verif/tree"
	"verif/wire"
	"verif/worker"
)

// c01Sentinel builds W/deep/{root, root-other, root2, rootx, other, secret.txt}: siblings whose
// names have the root's name as a prefix, each mirroring names that exist inside the root.
func c01Sentinel(base string) (root string) {
	deep := filepath.Join(base, "deep")
	root = filepath.Join(deep, "root")
	fill := func(d string, seed int64, inside bool) {
		must(os.MkdirAll(filepath.Join(d, "dir", "sub"), 0o755))
		must(os.MkdirAll(filepath.Join(d, "PS3ISO"), 0o755))
		must(os.MkdirAll(filepath.Join(d, "REDKEY"), 0o755))
		must(os.MkdirAll(filepath.Join(d, "emptydir"), 0o755))
		must(os.WriteFile(filepath.Join(d, "file.bin"), tree.Content(seed, 3000+seed), 0o644))
		must(os.WriteFile(filepath.Join(d, "x.txt"), tree.Content(seed+1, 50+seed), 0o644))
		must(os.WriteFile(filepath.Join(d, "dir", "a.txt"), tree.Content(seed+2, 10+seed), 0o644))
		must(os.WriteFile(filepath.Join(d, "dir", "sub", "c.txt"), tree.Content(seed+3, 77+seed), 0o644))
		regs := []refcrypt.Region{{Start: 0, End: 1}, {Start: 4, End: 30}}
		plain := tree.Content(seed+4, 12*2048)
		copy(plain, refcrypt.Table(regs))
		key := tree.Content(seed+5, 16)
		must(os.WriteFile(filepath.Join(d, "PS3ISO", "x.iso"), refcrypt.BuildImage(plain, regs, key), 0o644))
		if inside {
			must(os.WriteFile(filepath.Join(d, "REDKEY", "x.dkey"), []byte(hex.EncodeToString(key)), 0o644))
		} else {
			// outside: an adjacent key (would win if it were reachable) and a REDKEY one
			must(os.WriteFile(filepath.Join(d, "PS3ISO", "x.dkey"), []byte(hex.EncodeToString(tree.Content(seed+6, 16))), 0o644))
			must(os.WriteFile(filepath.Join(d, "REDKEY", "x.dkey"), []byte(hex.EncodeToString(tree.Content(seed+7, 16))), 0o644))
		}
		must(os.MkdirAll(filepath.Join(d, "game", "PS3_GAME"), 0o755))
		must(os.WriteFile(filepath.Join(d, "game", "PS3_GAME", "PARAM.SFO"), makeSFO(map[string]string{"TITLE_ID": "BLES12345"}, []string{"TITLE_ID"}), 0o644))
	}
	fill(root, 1, true)
	for i, sib := range []string{"root-other", "root2", "rootx", "other", "roo"} {
		fill(filepath.Join(deep, sib), int64(100+i*10), false)
	}
	must(os.WriteFile(filepath.Join(deep, "secret.txt"), []byte("top secret outside the root"), 0o644))
	must(os.WriteFile(filepath.Join(base, "outer.txt"), []byte("even further outside"), 0o644))
	return root
}

type c01Path struct {
	p     []byte
	class string
}

func c01Paths(r *rand.Rand, n int) []c01Path {
	var out []c01Path
	add := func(class string, p string) { out = append(out, c01Path{[]byte(p), class}) }
	inside := []string{"dir", "file.bin", "x.txt", "dir/a.txt", "dir/sub", "PS3ISO/x.iso", "emptydir", "game"}
	sib := []string{"root-other", "root2", "rootx", "other", "roo", "root"}
	// hand-written probes
	for _, s := range sib {
		for _, t := range []string{"", "/file.bin", "/x.txt", "/dir", "/dir/a.txt", "/PS3ISO/x.iso", "/newdir", "/new.bin", "/emptydir", "/game"} {
			add("dotdot-sibling", "/../"+s+t)
			add("dotdot-sibling-rel", "../"+s+t)
			add("deep-dotdot-sibling", "/dir/sub/../../../"+s+t)
			add("dot-dotdot-sibling", "/./../"+s+t)
			add("dslash-dotdot-sibling", "//..//"+s+t)
			add("virtual-dotdot-sibling", "/***DVD***/../"+s+t)
			add("virtual-then-sibling", "/***DVD***/../../"+s+t)
			add("virtual-image-of-sibling", "/***DVD***/../"+s)
			add("ps3-image-of-sibling", "/***PS3***/../"+s+"/game")
			add("virtual-image-dotdot-inside", "/***DVD***/dir/../../"+s+t)
		}
	}
	for _, t := range []string{"secret.txt", "../outer.txt", "../../../../../../../../etc/hostname", "../../../../../../../../etc/os-release", "../../../../../../../../../../proc/self/environ"} {
		add("far-escape", "/../"+t)
		add("far-escape-rel", "../"+t)
		add("far-escape-deep", "/dir/sub/../../../"+t)
		add("far-escape-virtual", "/***DVD***/../../"+t)
	}
	add("absolute-os-path", "/etc/hostname")
	add("absolute-os-path", "//etc/os-release")
	add("only-dotdots", "/..")
	add("only-dotdots", "..")
	add("only-dotdots", "/../..")
	add("only-dotdots", strings.Repeat("../", 200))
	add("only-dotdots", "/"+strings.Repeat("../", 21000))
	add("long", "/"+strings.Repeat("a/", 30000))
	// long paths that collapse to a short one: padding of every size class (just below / at / above 255,
	// 1024, 4096, 32768 bytes and close to the 65535-byte maximum) in front of, and behind, the escaping part
	for _, n := range []int{120, 127, 128, 500, 512, 2040, 2047, 2048, 2100, 16000, 16384, 32700} {
		for _, pad := range []string{"./", "//", "d/../"} {
			reps := n * 2 / len(pad)
			if reps*len(pad) > 65400 {
				reps = 65400 / len(pad)
			}
			p := strings.Repeat(pad, reps)
			if pad == "d/../" {
				p = strings.ReplaceAll(p, "d/", "dir/")
				if len(p) > 65400 {
					p = p[:65400/7*7]
				}
			}
			add("long-collapsing-sibling", "/"+p+"../root-other/x.txt")
			add("long-collapsing-sibling", "/"+p+"../root-other")
			add("long-collapsing-far", "/"+p+"../../../../../../../../etc/hostname")
			add("long-collapsing-behind", "/../root-other/"+p+"x.txt")
			add("long-collapsing-virtual", "/***DVD***/"+p+"../root-other")
			add("long-collapsing-inside", "/"+p+"dir/a.txt")
		}
	}
	add("long-name", "/"+strings.Repeat("n", 255))
	add("long-name", "/../root-other/"+strings.Repeat("n", 255))
	add("nul", "/../root-other/x.txt\x00")
	add("nul", "/dir\x00/../../root-other/x.txt")
	add("nul", "\x00/../root-other")
	// the virtual prefixes glued to other text (the mask must be a whole path element)
	for _, pre := range []string{"***DVD***", "***PS3***"} {
		for _, t := range []string{"root-other", "root-other/game", "root2/dir", "rootx", "secret.txt", "other"} {
			add("virtual-glued", "/"+pre+"../"+t)
			add("virtual-glued", "/"+pre+"..//"+t)
			add("virtual-glued", pre+"../"+t)
			add("virtual-glued", "/"+pre+"x/../../"+t)
		}
		add("virtual-glued", "/"+pre+"..")
		add("virtual-glued", "/"+pre)
		add("virtual-glued", "/"+pre+"dir")
		add("virtual-glued", "/"+pre+"/")
	}
	// NUL glued to dot-dot elements (names like "..\x00" are ordinary names for a lexical cleaner)
	for _, dd := range []string{"..\x00", "\x00..", ".\x00.", "..\x00\x00", "\x00.\x00."} {
		for _, t := range []string{"root-other/x.txt", "root-other", "root2/dir/a.txt", "secret.txt", "rootx/PS3ISO/x.iso", "root-other/new.bin"} {
			add("nul-dotdot", "/"+dd+"/"+t)
			add("nul-dotdot", dd+"/"+t)
			add("nul-dotdot", "/dir/"+dd+"/"+dd+"/"+t)
		}
	}
	// absolute host paths: directories and files that exist on the host but not under the root
	for _, hp := range []string{"/etc", "/var/tmp", "/usr/lib", "/proc", "/etc/hostname", "/usr", "/bin", "/root", "/dev/null"} {
		add("host-path", hp)
		add("host-path", hp+"/")
		add("host-path", "/."+hp)
	}
	add("backslash", "\\..\\root-other\\x.txt")
	add("backslash", "/..\\root-other/x.txt")
	add("nonutf8", "/../root-other/\xff\xfe")
	add("empty", "")
	add("dots", "/.")
	add("dots", "/./././dir/./a.txt")
	add("key-lookup", "/PS3ISO/../PS3ISO/x.iso")
	add("key-lookup", "/PS3ISO/../../root-other/PS3ISO/x.iso")
	add("key-lookup", "/../root-other/PS3ISO/x.iso")
	add("key-lookup", "../root-other/PS3ISO/x.iso")
	add("key-lookup", "/PS3ISO/x.iso")
	add("key-lookup", "/ps3iso/../PS3ISO/x.iso")
	// grammar
	segs := []string{"..\x00", "\x00..", "etc", "var", "tmp", "..", ".", "", "dir", "sub", "file.bin", "x.txt", "a.txt", "root-other", "root2", "rootx", "other", "root", "roo", "secret.txt", "***DVD***", "***PS3***", "PS3ISO", "REDKEY", "x.iso", "x.dkey", "game", "\x00", strings.Repeat("L", 255), "\xff\xfe", "a\\b", "..\\..", "new", "emptydir"}
	for i := 0; i < n; i++ {
		k := 1 + r.Intn(7)
		var b strings.Builder
		if r.Intn(4) != 0 {
			b.WriteString("/")
		}
		dd := 0
		for j := 0; j < k; j++ {
			s := segs[r.Intn(len(segs))]
			if r.Intn(3) == 0 {
				s = ".."
			}
			if s == ".." {
				dd++
			}
			b.WriteString(s)
			if j < k-1 {
				if r.Intn(6) == 0 {
					b.WriteString("//")
				} else {
					b.WriteString("/")
				}
			}
		}
		cl := "grammar"
		if dd > 0 {
			cl = "grammar-dotdot"
		}
		add(cl, b.String())
	}
	_ = inside
	return out
}

func c01History(r *rand.Rand) []wire.Req {
	switch r.Intn(5) {
	case 0:
		return nil
	case 1:
		return []wire.Req{wire.P(wire.OpOpenDir, "/dir")}
	case 2:
		return []wire.Req{wire.P(wire.OpOpen, "/file.bin"), wire.Read(10, 0)}
	case 3:
		return []wire.Req{wire.P(wire.OpOpen, "/PS3ISO/x.iso"), wire.P(wire.OpOpenDir, "/")}
	}
	return []wire.Req{wire.P(wire.OpCreate, "/dir/up.tmp"), wire.Write([]byte("x"))}
}

func C01(e *Env) {
	run := e.Run
	run.Rule = "cases: one request per (path, opcode, write mode) after a random history, paths from hand-written escape probes (.., sibling directories whose name has the root's name as a prefix, virtual-image prefixes, key-file lookup, NUL, back-slash, 64 KiB long) and a segment grammar; monitors: spy file system path audit (every name reaching the OS layer must stay under the root), sentinel-tree snapshot around the campaign, reference model (an escaping path is answered like its clamped path or like a non-existent one), strace path audit of the real binary for 6 root spellings via flag/env/ini, A/B differential (same read-only sessions after mutating only the outside must give byte-identical streams); non-trivial = distinct (opcode, path class, mode, target) with a path that lexically dips above the root or uses a virtual prefix"
	base := e.Dir("W")
	root := c01Sentinel(base)
	rng := e.Rng(1)
	paths := c01Paths(rng, e.Pick(600, 20000))
	for _, hp := range []string{base, filepath.Join(base, "deep"), filepath.Join(base, "deep", "other"), filepath.Join(base, "deep", "root-other", "dir"), filepath.Join(base, "deep", "secret.txt")} {
		paths = append(paths, c01Path{[]byte(hp), "host-path"}, c01Path{[]byte(hp + "/new.bin"), "host-path"})
	}
	sentinelBefore := model.Snapshot(filepath.Join(base, "deep"))
	outerBefore, _ := os.ReadFile(filepath.Join(base, "outer.txt"))
	// ---------------------------------------------------------------- T-lib
	for _, aw := range []bool{false, true} {
		p := e.Worker(worker.Config{Root: root, AllowWrite: aw, BufSize: 65536}, fmt.Sprintf("c01-%v", aw), false, 0)
		addr := p.HostPort()
		w := &model.World{Root: root, AllowWrite: aw, Views: FullViews, Probe: func() error { return host.Probe(addr) }}
		type job struct {
			path c01Path
			op   wire.Op
			hist []wire.Req
		}
		var jobs []job
		for _, pa := range paths {
			for _, op := range wire.PathOps {
				if !e.Thorough && pa.class == "grammar" && rng.Intn(2) == 0 {
					continue
				}
				jobs = append(jobs, job{pa, op, c01History(rng)})
			}
		}
		var mu sync.Mutex
		ParallelDo(len(jobs), 8, func(i int) {
			j := jobs[i]
			reqs := append(append([]wire.Req{}, j.hist...), wire.Req{Op: j.op, Path: j.path.p})
			if j.op == wire.OpOpen {
				reqs = append(reqs, wire.Read(64, 0))
			}
			if j.op == wire.OpOpenDir {
				reqs = append(reqs, wire.Bare(wire.OpReadDir))
			}
			if j.op == wire.OpCreate {
				reqs = append(reqs, wire.Write([]byte("payload")))
			}
			mu.Lock() // mutating requests share the tree: serialise sessions in write mode
			if !aw {
				mu.Unlock()
			}
			res := RunLockstep(addr, w, reqs, e.Watchdog, 0, false)
			if aw {
				// undo what a session legitimately changed inside the root so that later cases see the same tree
				c01Restore(root)
				mu.Unlock()
			}
			run.Eval(1)
			_, _, esc := w.Resolve(j.path.p)
			virt, _, _ := model.VirtualOf(j.path.p)
			if esc || virt != model.VirtNone {
				run.Sig("%s %s aw=%v", j.op, j.path.class, aw)
			}
			if res.Fail != nil {
				if res.Fail.Inconclusive {
					run.Inconclusive(res.Fail.Error())
					return
				}
				// C01 claims the answers to paths that lexically leave the root (or use a virtual prefix /
				// NUL); a wrong answer to an ordinary inside path belongs to C02/C05/C06
				if !(esc || virt != model.VirtNone || bytes.IndexByte(j.path.p, 0) >= 0) || res.FailAt < len(j.hist) {
					run.Count("other_property_failures_not_judged", 1)
					return
				}
				run.Violate(res.Fail.Rule, fmt.Sprintf("%s %s", j.op, j.path.class), fmt.Sprintf("[allow_write=%v] %s", aw, res.Fail.Detail), map[string]any{"allow_write": aw, "path": string(j.path.p), "path_hex": hex.EncodeToString(head32(j.path.p)), "class": j.path.class, "opcode": j.op.String(), "history": reqStrings(j.hist), "transcript": tailStr(res.Log, 8)})
			}
		})
		rep, err := p.Do(worker.Cmd{Cmd: "report"})
		must(err)
		run.Count("os_level_paths_audited", int64(rep.Report.Paths))
		run.Count("requests_sent", int64(len(jobs)))
		for i, esc := range rep.Report.Escapes {
			if i >= 10 {
				break
			}
			run.Violate("os-path-outside-root", c01EscapeClass(esc, base), fmt.Sprintf("[allow_write=%v] a path outside the root reached the file-system layer: %s", aw, strings.TrimPrefix(esc, base)), map[string]any{"path": esc, "root": root})
		}
		CrashCheck(e, p, "c01 worker", nil)
		p.Stop()
	}
	// sentinel: nothing around the root may have changed (the root itself was restored after each session)
	sentinelAfter := model.Snapshot(filepath.Join(base, "deep"))
	var allowed []string
	for p := range sentinelAfter {
		if strings.HasPrefix(p, root+"/") || p == root {
			allowed = append(allowed, p)
		}
	}
	for p := range sentinelBefore {
		if strings.HasPrefix(p, root+"/") || p == root {
			allowed = append(allowed, p)
		}
	}
	if d := model.SnapDiff(sentinelBefore, sentinelAfter, allowed); len(d) > 0 {
		run.Violate("sentinel-changed", "outside-root", fmt.Sprintf("objects outside the served root changed: %v", d), map[string]any{"diff": d})
	}
	if b, _ := os.ReadFile(filepath.Join(base, "outer.txt")); !bytes.Equal(b, outerBefore) {
		run.Violate("sentinel-changed", "outer.txt", "W/outer.txt changed", nil)
	}
	run.Obs("sentinel_objects", len(sentinelBefore))
	c01AB(e, base, root, paths)
	c01NamedRoots(e, base)
	c01Strace(e, base, root, paths)
}

func c01EscapeClass(p, base string) string {
	rel := strings.TrimPrefix(p, base)
	parts := strings.Split(strings.Trim(rel, "/"), "/")
	if len(parts) >= 2 && parts[0] == "deep" {
		return "sibling:" + parts[1]
	}
	if strings.HasPrefix(p, base) {
		return "scratch:" + parts[0]
	}
	return "far"
}

// c01Restore removes what sessions may have created inside the root.
func c01Restore(root string) {
	keep := map[string]bool{"dir": true, "PS3ISO": true, "REDKEY": true, "emptydir": true, "file.bin": true, "x.txt": true, "game": true}
	ents, _ := os.ReadDir(root)
	for _, en := range ents {
		if !keep[en.Name()] {
			os.RemoveAll(filepath.Join(root, en.Name()))
		}
	}
	for _, d := range []string{"dir", "dir/sub", "emptydir", "PS3ISO", "REDKEY", "game", "game/PS3_GAME"} {
		ents, _ := os.ReadDir(filepath.Join(root, d))
		for _, en := range ents {
			switch d + "/" + en.Name() {
			case "dir/a.txt", "dir/sub", "dir/sub/c.txt", "PS3ISO/x.iso", "REDKEY/x.dkey", "game/PS3_GAME", "game/PS3_GAME/PARAM.SFO":
			default:
				os.RemoveAll(filepath.Join(root, d, en.Name()))
			}
		}
	}
	// recreate what may have been deleted
	for _, d := range []string{"dir/sub", "emptydir", "PS3ISO", "REDKEY", "game/PS3_GAME"} {
		os.MkdirAll(filepath.Join(root, d), 0o755)
	}
	re := func(rel string, seed, size int64) {
		if st, err := os.Stat(filepath.Join(root, rel)); err != nil || st.Size() != size {
			os.WriteFile(filepath.Join(root, rel), tree.Content(seed, size), 0o644)
		}
	}
	re("file.bin", 1, 3001)
	re("x.txt", 2, 51)
	re("dir/a.txt", 3, 11)
	re("dir/sub/c.txt", 4, 78)
	if _, err := os.Stat(filepath.Join(root, "PS3ISO", "x.iso")); err != nil {
		regs := []refcrypt.Region{{Start: 0, End: 1}, {Start: 4, End: 30}}
		plain := tree.Content(5, 12*2048)
		copy(plain, refcrypt.Table(regs))
		os.WriteFile(filepath.Join(root, "PS3ISO", "x.iso"), refcrypt.BuildImage(plain, regs, tree.Content(6, 16)), 0o644)
	}
	if _, err := os.Stat(filepath.Join(root, "REDKEY", "x.dkey")); err != nil {
		os.WriteFile(filepath.Join(root, "REDKEY", "x.dkey"), []byte(hex.EncodeToString(tree.Content(6, 16))), 0o644)
	}
	if _, err := os.Stat(filepath.Join(root, "game", "PS3_GAME", "PARAM.SFO")); err != nil {
		os.WriteFile(filepath.Join(root, "game", "PS3_GAME", "PARAM.SFO"), makeSFO(map[string]string{"TITLE_ID": "BLES12345"}, []string{"TITLE_ID"}), 0o644)
	}
}

// c01Stream sends read-only sessions and returns the concatenated raw answers (atime masked).
func c01Stream(addr string, paths []c01Path, wd time.Duration) map[string][]byte {
	out := map[string][]byte{}
	var mu sync.Mutex
	ParallelDo(len(paths), 8, func(i int) {
		pa := paths[i]
		var all []byte
		for _, op := range []wire.Op{wire.OpStat, wire.OpOpen, wire.OpOpenDir, wire.OpDirSize} {
			c, err := wire.Dial(addr, nil, wd)
			if err != nil {
				continue
			}
			reqs := []wire.Req{{Op: op, Path: pa.p}}
			switch op {
			case wire.OpOpen:
				// sector 0 and the first 64 bytes of sector 1: in a generated PS3 image the rest of
				// sector 1 is random filler, which legitimately differs between two opens
				reqs = append(reqs, wire.Read(2048, 0), wire.Read(64, 2048))
			case wire.OpOpenDir:
				reqs = append(reqs, wire.Bare(wire.OpReadDir))
			}
			for _, r := range reqs {
				if c.Send(r) != nil {
					break
				}
				b, st := readResponse(c, r, -1)
				m := maskTimes(r.Op, b)
				if r.Op == wire.OpReadDir {
					m = sortDirEntries(m)
				}
				all = append(all, m...)
				all = append(all, byte(st))
				if st != wire.Full {
					break
				}
			}
			c.Close()
		}
		mu.Lock()
		out[string(pa.p)] = all
		mu.Unlock()
	})
	return out
}

func sortDirEntries(b []byte) []byte {
	if len(b) < 8 {
		return b
	}
	var ents []string
	for off := 8; off+wire.SzDirEnt <= len(b); off += wire.SzDirEnt {
		ents = append(ents, string(b[off:off+wire.SzDirEnt]))
	}
	sortStrings(ents)
	out := append([]byte{}, b[:8]...)
	for _, s := range ents {
		out = append(out, s...)
	}
	return out
}

func sortStrings(s []string) {
	for i := 1; i < len(s); i++ {
		for j := i; j > 0 && s[j] < s[j-1]; j-- {
			s[j], s[j-1] = s[j-1], s[j]
		}
	}
}

// c01AB: responses must not depend on what exists outside the root.
func c01AB(e *Env, base, root string, paths []c01Path) {
	run := e.Run
	var sel []c01Path
	for i, p := range paths {
		if p.class != "grammar" || i%5 == 0 {
			sel = append(sel, p)
		}
	}
	if len(sel) > e.Pick(1200, 6000) {
		sel = sel[:e.Pick(1200, 6000)]
	}
	p := e.Worker(worker.Config{Root: root, BufSize: 65536}, "c01-ab", false, 0)
	defer p.Stop()
	a := c01Stream(p.HostPort(), sel, e.Watchdog)
	// mutate only the outside: rename siblings away, replace contents, drop secret, swap keys
	deep := filepath.Join(base, "deep")
	for _, sib := range []string{"root-other", "root2", "rootx", "other", "roo"} {
		must(os.Rename(filepath.Join(deep, sib), filepath.Join(deep, sib+".moved")))
	}
	must(os.MkdirAll(filepath.Join(deep, "root-other"), 0o755))
	must(os.WriteFile(filepath.Join(deep, "root-other", "x.txt"), []byte("completely different content of another length"), 0o644))
	must(os.Rename(filepath.Join(deep, "secret.txt"), filepath.Join(deep, "secret.moved")))
	must(os.WriteFile(filepath.Join(base, "outer.txt"), []byte("changed"), 0o644))
	b := c01Stream(p.HostPort(), sel, e.Watchdog)
	// restore
	os.RemoveAll(filepath.Join(deep, "root-other"))
	for _, sib := range []string{"root-other", "root2", "rootx", "other", "roo"} {
		os.Rename(filepath.Join(deep, sib+".moved"), filepath.Join(deep, sib))
	}
	os.Rename(filepath.Join(deep, "secret.moved"), filepath.Join(deep, "secret.txt"))
	n := 0
	for _, pa := range sel {
		run.Eval(1)
		if !bytes.Equal(a[string(pa.p)], b[string(pa.p)]) {
			n++
			if n <= 6 {
				run.Violate("depends-on-outside", pa.class, fmt.Sprintf("the answers to path %q changed when only objects outside the root were changed", trim40(string(pa.p))), map[string]any{"path": string(pa.p), "class": pa.class})
			}
		}
	}
	run.Obs("ab_differential_paths", len(sel))
}

var straceRe = regexp.MustCompile(`^\d+\s+(\w+)\((?:AT_FDCWD|\d+)?(?:<[^>]*>)?,?\s*"((?:[^"\\]|\\.)*)"`)

// c01Strace runs the real binary under strace for several root spellings and audits every path
// operand of a file-system syscall.
func c01Strace(e *Env, base, root string, paths []c01Path) {
	run := e.Run
	if e.Bin == "" {
		fatalf("C01 needs the CLI binary")
	}
	if _, err := exec.LookPath("strace"); err != nil {
		run.Assume("strace not available: the syscall audit of the binary was skipped")
		return
	}
	deep := filepath.Join(base, "deep")
	ini := filepath.Join(base, "c01.ini")
	must(os.WriteFile(ini, []byte("[server]\nroot = "+root+"\n"), 0o644))
	type spelling struct {
		name string
		cwd  string
		args []string
		env  []string
	}
	spells := []spelling{
		{"absolute flag", base, []string{"server", "--root=" + root}, nil},
		{"relative flag", deep, []string{"server", "--root=root"}, nil},
		{"default dot", root, []string{"server"}, nil},
		{"trailing slash", base, []string{"server", "--root=" + root + "/"}, nil},
		{"a/../root", deep, []string{"server", "--root=other/../root"}, nil},
		{"dot-slash", deep, []string{"server", "--root=./root/."}, nil},
		{"env", base, []string{"server"}, []string{"PS3NETSRV_ROOT=" + root}},
		{"ini", base, []string{"--config=" + ini, "server"}, nil},
	}
	if !e.Thorough {
		spells = []spelling{spells[0], spells[1], spells[2], spells[4], spells[6], spells[7]}
	}
	var sel []c01Path
	for i, p := range paths {
		if p.class != "grammar" && p.class != "grammar-dotdot" || i%9 == 0 {
			sel = append(sel, p)
		}
	}
	maxN := e.Pick(150, 2000)
	if len(sel) > maxN {
		r := rand.New(rand.NewSource(e.Seed))
		r.Shuffle(len(sel), func(i, j int) { sel[i], sel[j] = sel[j], sel[i] })
		sel = sel[:maxN]
	}
	farTargets := []string{"/etc/hostname", "/etc/os-release", "/proc/self/environ"}
	for si, sp := range spells {
		for _, aw := range []bool{false, true} {
			trace := filepath.Join(e.Scratch, fmt.Sprintf("strace.%d.%v", si, aw))
			args := append([]string{"-f", "-qq", "-o", trace, "-e", "trace=%file", e.Bin}, sp.args...)
			args = append(args, "--listen-addr=127.0.0.1:0")
			if aw {
				args = append(args, "--allow-write")
			}
			p, err := host.SpawnBin("strace", args, host.Opt{Dir: e.Dir("logs"), Tag: fmt.Sprintf("c01-strace%d", si), Env: append([]string{"HOME=" + e.Dir("home")}, sp.env...)}, sp.cwd, true)
			if err != nil {
				run.Inconclusive("binary under strace did not start: " + err.Error())
				continue
			}
			addr := p.HostPort()
			time.Sleep(300 * time.Millisecond) // let the asynchronous start-up scan (warnLargeDir) finish: it is not request-driven
			mark, _ := os.ReadFile(trace)
			baseline := len(mark)
			w := &model.World{Root: root, AllowWrite: aw, Views: FullViews, Probe: func() error { return host.Probe(addr) }}
			for _, pa := range sel {
				for _, op := range wire.PathOps {
					if (len(pa.p)+int(op))%3 != 0 && !e.Thorough {
						continue
					}
					reqs := []wire.Req{{Op: op, Path: pa.p}}
					if op == wire.OpOpen {
						reqs = append(reqs, wire.Read(16, 0))
					}
					res := RunLockstep(addr, w, reqs, e.Watchdog, 0, false)
					if aw {
						c01Restore(root)
					}
					run.Eval(1)
					_, _, escP := w.Resolve(pa.p)
					virtP, _, _ := model.VirtualOf(pa.p)
					if res.Fail != nil && !res.Fail.Inconclusive && !(escP || virtP != model.VirtNone || bytes.IndexByte(pa.p, 0) >= 0) {
						run.Count("other_property_failures_not_judged", 1)
					} else if res.Fail != nil && !res.Fail.Inconclusive {
						run.Violate("bin-"+res.Fail.Rule, fmt.Sprintf("%s %s", op, pa.class), fmt.Sprintf("[binary, root spelled %q, allow_write=%v] %s", sp.name, aw, res.Fail.Detail), map[string]any{"spelling": sp.name, "args": sp.args, "path": string(pa.p)})
					}
				}
			}
			if aw {
				// upload histories, complete and torn (the client goes away inside the payload): whatever the
				// server does about the file afterwards — flush, close, clean-up — happens below the root
				for k, target := range []string{"/c01up.bin", "/dir/../c01up2.bin", "/" + strings.TrimPrefix(filepath.Join(base, "root-other", "c01up3.bin"), "/"), "/../root-other/c01up4.bin"} {
					if c, err := wire.Dial(addr, nil, e.Watchdog); err == nil {
						// the parents, one level at a time (the third target mirrors, below the root, the absolute
						// path of a place beside the root: a name that means something to the host as well)
						pre := ""
						for _, el := range strings.Split(strings.Trim(filepath.Dir(filepath.Clean(target)), "/"), "/") {
							if el == "" || el == ".." {
								continue
							}
							pre += "/" + el
							c.Send(wire.P(wire.OpMkdir, pre))
							c.ReadN(wire.SzResult)
						}
						c.Send(wire.P(wire.OpCreate, target))
						c.ReadN(wire.SzResult)
						if k%2 == 0 {
							c.Send(wire.Write([]byte("complete upload")))
							c.ReadN(wire.SzResult)
						}
						c.SendRaw(wire.Req{Op: wire.OpWrite, Payload: []byte("torn upl"), DeclLen: wire.U32(100000)}.Bytes())
						if k < 2 {
							c.Close()
						} else {
							c.Reset()
						}
						run.Eval(1)
					}
				}
				time.Sleep(200 * time.Millisecond)
				host.Probe(addr) // the server has dealt with the torn connections by the time it answers this
				c01Restore(root)
			}
			CrashCheck(e, p, "c01 binary under strace", sp)
			p.Stop()
			tb, _ := os.ReadFile(trace)
			lines := strings.Split(string(tb[min(baseline, len(tb)):]), "\n")
			seenOutside := map[string]bool{}
			nPaths := 0
			for _, l := range lines {
				m := straceRe.FindStringSubmatch(l)
				if m == nil {
					continue
				}
				raw := unescapeStrace(m[2])
				if raw == "" {
					continue
				}
				full := raw
				if !filepath.IsAbs(full) {
					full = filepath.Join(sp.cwd, full)
				}
				full = filepath.Clean(full)
				nPaths++
				if full == root || strings.HasPrefix(full, root+"/") {
					continue
				}
				sensitive := strings.HasPrefix(full, base+"/") || full == base
				for _, ft := range farTargets {
					if full == ft {
						sensitive = true
					}
				}
				if sensitive && !seenOutside[full] {
					seenOutside[full] = true
					run.Violate("syscall-path-outside-root", c01EscapeClass(full, base), fmt.Sprintf("[binary, root spelled %q, allow_write=%v] while serving requests the process issued %s on %s", sp.name, aw, m[1], strings.TrimPrefix(full, base)), map[string]any{"spelling": sp.name, "syscall_line": l})
				} else if !sensitive {
					run.Count("other_outside_paths_recorded_not_judged", 1)
				}
			}
			run.Count("syscall_path_operands_audited", int64(nPaths))
			run.Sig("strace spelling=%s aw=%v", sp.name, aw)
			os.Remove(trace)
		}
	}
	run.Assume("strace audit judges paths inside the scratch area around the root and the far-escape targets (/etc/hostname, /etc/os-release, /proc/self/environ); other paths outside the root (runtime, time zone, cgroup files) are counted, not judged")
	run.Assume("trees contain no symlinks (outside the claim)")
}

func unescapeStrace(s string) string {
	var b bytes.Buffer
	for i := 0; i < len(s); i++ {
		if s[i] != '\\' || i+1 >= len(s) {
			b.WriteByte(s[i])
			continue
		}
		i++
		switch s[i] {
		case 'n':
			b.WriteByte('\n')
		case 't':
			b.WriteByte('\t')
		case 'r':
			b.WriteByte('\r')
		case '"', '\\':
			b.WriteByte(s[i])
		case 'x':
			if i+2 < len(s) {
				var v byte
				fmt.Sscanf(s[i+1:i+3], "%02x", &v)
				b.WriteByte(v)
				i += 2
			}
		default:
			if s[i] >= '0' && s[i] <= '7' {
				v := 0
				j := i
				for ; j < len(s) && j < i+3 && s[j] >= '0' && s[j] <= '7'; j++ {
					v = v*8 + int(s[j]-'0')
				}
				b.WriteByte(byte(v))
				i = j - 1
			} else {
				b.WriteByte(s[i])
			}
		}
	}
	return b.String()
}


// c01NamedRoots: "all spellings of the root" includes its *name*. The served root is itself called
// PS3ISO / ps3iso / REDKEY / GAMES, and the directories the key lookup knows by name (REDKEY, PS3ISO)
// and key files for the images inside exist *beside* the root. The implicit key lookup must stay
// inside: (1) no name outside the root reaches the file-system layer, (2) the answers for the images —
// including the bytes of sectors that a key would decrypt — do not change when only the outside changes.
func c01NamedRoots(e *Env, base string) {
	run := e.Run
	key := tree.Content(901, 16)
	other := tree.Content(902, 16)
	plain := tree.Content(903, 12*2048)
	regs := []refcrypt.Region{{Start: 0, End: 1}, {Start: 4, End: 9}}
	copy(plain, refcrypt.Table(regs))
	img := refcrypt.BuildImage(plain, regs, key)
	hexKey := func(k []byte) []byte { return []byte(hex.EncodeToString(k)) }
	for _, rn := range []string{"PS3ISO", "ps3iso", "REDKEY", "GAMES", "Ps3Iso"} {
		par := filepath.Join(base, "named", rn+"-parent")
		root := filepath.Join(par, rn)
		for _, f := range []string{"img.iso", "sub/img.iso", "PS3ISO/in.iso", "PS3ISO/nokey.iso", "ps3iso/deep/img.iso"} {
			must(os.MkdirAll(filepath.Dir(filepath.Join(root, f)), 0o755))
			must(os.WriteFile(filepath.Join(root, f), img, 0o644))
		}
		must(os.MkdirAll(filepath.Join(root, "REDKEY"), 0o755))
		must(os.WriteFile(filepath.Join(root, "REDKEY", "in.dkey"), hexKey(key), 0o644)) // a key that does apply, inside
		outside := func(k []byte) {
			for _, f := range []string{"img.dkey", "REDKEY/img.dkey", "REDKEY/sub/img.dkey", "REDKEY/nokey.dkey", "REDKEY/in.dkey", "REDKEY/deep/img.dkey", "PS3ISO/img.dkey", "sub/img.dkey", "REDKEY/" + rn + "/img.dkey", "REDKEY/" + rn + "/sub/img.dkey"} {
				must(os.MkdirAll(filepath.Dir(filepath.Join(par, f)), 0o755))
				if k == nil {
					os.Remove(filepath.Join(par, f))
				} else {
					must(os.WriteFile(filepath.Join(par, f), k, 0o644))
				}
			}
		}
		stream := func(addr string) map[string][]byte {
			out := map[string][]byte{}
			for _, im := range []string{"/img.iso", "/sub/img.iso", "/PS3ISO/in.iso", "/PS3ISO/nokey.iso", "/ps3iso/deep/img.iso", "img.iso", "/./img.iso"} {
				c, err := wire.Dial(addr, nil, e.Watchdog)
				if err != nil {
					continue
				}
				var all []byte
				for _, r := range []wire.Req{wire.P(wire.OpStat, im), wire.P(wire.OpOpen, im), wire.Read(2048, 0), wire.Read(3*2048, 2*2048-100), wire.Read(70000, 0)} {
					if c.Send(r) != nil {
						break
					}
					b, st := readResponse(c, r, -1)
					all = append(append(all, maskTimes(r.Op, b)...), byte(st))
					if st != wire.Full {
						break
					}
				}
				c.Close()
				out[im] = all
				run.Eval(1)
			}
			return out
		}
		p := e.Worker(worker.Config{Root: root, BufSize: 65536}, "c01-named-"+rn, false, 0)
		addr := p.HostPort()
		outside(hexKey(key)) // the right key waits outside
		a := stream(addr)
		outside(hexKey(other)) // another key
		b := stream(addr)
		outside([]byte("not a key"))
		c := stream(addr)
		outside(nil)
		d := stream(addr)
		n := 0
		for im, ref := range d {
			for vi, got := range []map[string][]byte{a, b, c} {
				if !bytes.Equal(got[im], ref) && n < 4 {
					n++
					run.Violate("depends-on-outside", "root-named-"+rn, fmt.Sprintf("served root is called %q: the answers for %q (STAT, OPEN, reads reaching sectors a key would decrypt) change with key files that only exist beside the root (%s)", rn, im, []string{"the image's key", "another key", "rubbish"}[vi]), map[string]any{"root": root, "image": im})
				}
			}
		}
		rep, err := p.Do(worker.Cmd{Cmd: "report"})
		if err == nil && rep.Report != nil {
			run.Count("os_level_paths_audited", int64(rep.Report.Paths))
			for i, esc := range rep.Report.Escapes {
				if i >= 4 {
					break
				}
				run.Violate("os-path-outside-root", "root-named-"+rn, fmt.Sprintf("served root is called %q: a path outside the root reached the file-system layer: %s", rn, strings.TrimPrefix(esc, base)), map[string]any{"path": esc, "root": root})
			}
		}
		// control: the key inside the root does apply (otherwise this scenario would observe nothing)
		if want := plain[4096 : 4096+16]; !bytes.Contains(d["/PS3ISO/in.iso"], want) {
			run.Inconclusive(fmt.Sprintf("named root %q: the image with a key inside the root was not served decrypted; the scenario observes nothing", rn))
		}
		run.Sig("root named %s: key lookup with look-alike directories beside the root", rn)
		CrashCheck(e, p, "c01 named-root worker", nil)
		p.Stop()
	}
}
