//go:build verif

package checks

import (
	"bytes"
	"context"
	"fmt"
	"os"
	"os/exec"
	"path/filepath"
	"sort"
	"strconv"
	"strings"
	"sync"
	"time"
)

// A second, third-party decoder for C07 where one is installed: libarchive's bsdtar reads ISO 9660
// with Joliet, validates more of the volume descriptor set than my reader needs (it does not
// recognise a volume whose set terminator is malformed) and shares no code with either the
// generator or /verif/harness/iso. It is optional: without it the check is what it was.
var (
	bsdtarOnce sync.Once
	bsdtarPath string
)

func bsdtar() string {
	bsdtarOnce.Do(func() {
		for _, c := range []string{"bsdtar", "/root/miniconda/bin/bsdtar", "/usr/bin/bsdtar"} {
			if p, err := exec.LookPath(c); err == nil {
				// must really read ISO images
				if out, err := exec.Command(p, "--version").CombinedOutput(); err == nil && bytes.Contains(out, []byte("libarchive")) {
					bsdtarPath = p
					return
				}
			}
		}
	})
	return bsdtarPath
}

// thirdPartyProblems extracts the Joliet hierarchy and lists the primary one with bsdtar and
// compares both with the source entries. Only called for trees of portable names without leading
// dot/dash, at most 64 characters, plain mode (libarchive has conventions of its own outside that:
// Joliet names cut at 103 characters, trailing "." dropped, PS3 sector 0 mistaken for lzma).
func thirdPartyProblems(scratch, name string, img []byte, ents []srcEntry) (probs []string, ran bool) {
	bt := bsdtar()
	if bt == "" {
		return nil, false
	}
	for _, en := range ents {
		for _, comp := range strings.Split(strings.Trim(en.rel, "/"), "/") {
			if len(comp) > 64 || strings.HasPrefix(comp, ".") || strings.HasPrefix(comp, "-") || strings.HasSuffix(comp, ".") {
				return nil, false
			}
		}
	}
	upper := map[string]bool{}
	for _, en := range ents {
		k := strings.ToUpper(en.rel)
		if upper[k] {
			return nil, false // names that coincide in the primary hierarchy: a listing cannot tell them apart
		}
		upper[k] = true
	}
	imgPath := filepath.Join(scratch, name+".3p.iso")
	outDir := filepath.Join(scratch, name+".3p.out")
	if err := os.WriteFile(imgPath, img, 0o644); err != nil {
		return nil, false
	}
	defer os.Remove(imgPath)
	defer func() {
		filepath.Walk(outDir, func(p string, info os.FileInfo, err error) error {
			if err == nil {
				os.Chmod(p, 0o755)
			}
			return nil
		})
		os.RemoveAll(outDir)
	}()
	os.MkdirAll(outDir, 0o755)
	ctx, cancel := context.WithTimeout(context.Background(), 120*time.Second)
	defer cancel()
	// --- Joliet: extract and compare bytes
	if out, err := exec.CommandContext(ctx, bt, "-xf", imgPath, "-C", outDir).CombinedOutput(); err != nil {
		if ctx.Err() != nil {
			return nil, false // the tool hung: no verdict
		}
		return []string{fmt.Sprintf("bsdtar could not extract the image: %v: %s", err, firstLines(string(out), 3))}, true
	}
	got := map[string]srcEntry{}
	filepath.Walk(outDir, func(p string, info os.FileInfo, err error) error {
		if err != nil || p == outDir {
			return nil
		}
		rel := strings.TrimPrefix(p, outDir)
		got[rel] = srcEntry{rel: rel, dir: info.IsDir(), size: info.Size(), os: p}
		return nil
	})
	for _, en := range ents {
		g, ok := got[en.rel]
		switch {
		case !ok:
			probs = append(probs, fmt.Sprintf("joliet (bsdtar): %s %q of the source is missing", kindWord(en.dir), en.rel))
		case g.dir != en.dir:
			probs = append(probs, fmt.Sprintf("joliet (bsdtar): %q is a %s, source has a %s", en.rel, kindWord(g.dir), kindWord(en.dir)))
		case !en.dir:
			a, _ := os.ReadFile(en.os)
			b, _ := os.ReadFile(g.os)
			if !bytes.Equal(a, b) {
				probs = append(probs, fmt.Sprintf("joliet (bsdtar): file %q has %d bytes, first difference at %d; source has %d bytes", en.rel, len(b), firstDiffIdx(a, b), len(a)))
			}
		}
		delete(got, en.rel)
	}
	for rel := range got {
		probs = append(probs, fmt.Sprintf("joliet (bsdtar): %q is in the image but not in the source", rel))
	}
	// --- primary: listing (names upper-cased), kinds and sizes
	out, err := exec.CommandContext(ctx, bt, "--options", "!joliet", "-tvf", imgPath).Output()
	if err != nil {
		if ctx.Err() != nil {
			return probs, true
		}
		return append(probs, fmt.Sprintf("bsdtar could not list the primary hierarchy: %v", err)), true
	}
	listed := map[string]string{}
	for _, ln := range strings.Split(string(out), "\n") {
		f := strings.Fields(ln)
		if len(f) < 9 {
			continue
		}
		nm := strings.Join(f[8:], " ")
		if nm == "." {
			continue
		}
		sz, _ := strconv.ParseInt(f[4], 10, 64)
		if strings.HasPrefix(f[0], "d") {
			listed["/"+strings.TrimSuffix(nm, "/")] = "dir"
		} else {
			listed["/"+nm] = fmt.Sprintf("file %d", sz)
		}
	}
	var want []string
	for _, en := range ents {
		k := strings.ToUpper(en.rel)
		w := "dir"
		if !en.dir {
			w = fmt.Sprintf("file %d", en.size)
		}
		want = append(want, k)
		if g, ok := listed[k]; !ok {
			probs = append(probs, fmt.Sprintf("primary (bsdtar): %s %q of the source is missing", kindWord(en.dir), k))
		} else if g != w {
			probs = append(probs, fmt.Sprintf("primary (bsdtar): %q is listed as %s, source has %s", k, g, w))
		}
		delete(listed, k)
	}
	var extra []string
	for k := range listed {
		extra = append(extra, k)
	}
	sort.Strings(extra)
	for _, k := range extra {
		probs = append(probs, fmt.Sprintf("primary (bsdtar): %q is in the image but not in the source", k))
	}
	if len(probs) > 8 {
		probs = append(probs[:8], fmt.Sprintf("... %d more", len(probs)-8))
	}
	return probs, true
}

func kindWord(dir bool) string {
	if dir {
		return "directory"
	}
	return "file"
}
