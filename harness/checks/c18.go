//go:build verif

package checks

import (
	"bytes"
	"fmt"
	"os"
	"path/filepath"
	"strings"
	"sync"
	"time"

	"verif/tree"
	"verif/worker"
)

func C18(e *Env) {
	run := e.Run
	run.Rule = "cases: (tree, pair of opens) — for random trees (C07 generator, both modes) the image of the unchanged directory is obtained by successive library opens, opens on different connections, 4..16 concurrent opens through a race-built server, and make-iso; every pair must have equal announced size and equal bytes outside exactly {PVD/SVD creation+modification timestamps (bytes 813..846 of sectors 16 and 17), PS3 sector 1 bytes 64..511}; non-trivial = distinct (tree kind, mode, way of opening)"
	parent := e.Dir("W/root")
	r := e.Rng(18)
	n := e.Pick(60, 800)
	type tc struct {
		name string
		ps3  bool
		kind string
	}
	var trees []tc
	for i := 0; i < n; i++ {
		ps3 := i%2 == 1
		opt := tree.GenOpt{MaxDepth: r.Intn(4), MaxEntries: 1 + r.Intn(14), MaxSize: 40000, NameLen: 1 + r.Intn(20), EmptyFiles: true}
		kind := "random"
		if i%5 == 0 {
			opt.MaxDepth, opt.MaxEntries = 1, 150
			opt.MaxSize = 100
			kind = "wide"
		}
		if i%6 == 3 {
			// hundreds of members in one directory (anything that treats big directories differently,
			// e.g. scans them in parallel, must still lay them out the same way every time)
			opt.MaxDepth, opt.MaxEntries, opt.MaxSize = 0, 700, 60
			kind = "very-wide"
		}
		if i%7 == 0 {
			opt.MaxSize = 1 // many empty / tiny files: equal rLBA ordering
			kind = "tiny-files"
		}
		name := fmt.Sprintf("t%04d", i)
		troot, _ := genISOTree(r, parent, name, opt, ps3)
		if kind == "very-wide" || strings.HasPrefix(kind, "very-wide") {
			for k := 0; k < 600; k++ { // at least 600 members whatever the generator drew
				os.WriteFile(filepath.Join(troot, fmt.Sprintf("vw%04d.bin", k)), []byte{byte(k), byte(k >> 8)}, 0o644)
			}
		}
		if i%9 == 4 {
			// members that fill their last sector exactly (no padding after them), followed by others: every
			// route to the image (reads, positional reads, a whole-image copy as make-iso does) places the
			// next member in the same sector
			kind += "+sector-multiples"
			for k, sz := range []int64{2048, 11, 4096, 0, 6144, 3000, 2048} {
				os.WriteFile(filepath.Join(troot, fmt.Sprintf("sm%d_%d.bin", k, sz)), tree.Content(int64(500+k), sz), 0o644)
			}
		}
		if i%4 == 1 {
			// dates the one-byte year field of a directory record cannot hold, the epoch, far future
			kind += "+odd-dates"
			dates := []int64{-3786825600 /* 1850 */, -1, 0, 1, 7258118400 /* 2200 */, 4102444800 /* 2100 */, 8000000000 /* 2223 */, 946684800}
			k := 0
			filepath.Walk(troot, func(p string, fi os.FileInfo, err error) error {
				if err == nil {
					t := time.Unix(dates[k%len(dates)], 0)
					os.Chtimes(p, t, t)
					k++
				}
				return nil
			})
		}
		trees = append(trees, tc{name, ps3, kind})
	}
	p := e.Worker(worker.Config{Root: parent, BufSize: 65536, Log: os.Getenv("VERIF_WLOG")}, "c18", true, 0)
	defer p.Stop()
	addr := p.HostPort()
	var bytesCmp int64
	var mu sync.Mutex
	cmp := func(t tc, how string, ref, img []byte, refAnn, ann int64) {
		run.Eval(1)
		run.Sig("%s ps3=%v %s", t.kind, t.ps3, how)
		wit := map[string]any{"tree": t.name, "ps3": t.ps3, "kind": t.kind, "opened": how}
		if refAnn != ann {
			run.Violate("size-differs", how, fmt.Sprintf("[%s ps3=%v] announced size %d vs %d (%s)", t.name, t.ps3, refAnn, ann, how), wit)
			return
		}
		a, b := maskImage(ref, t.ps3), maskImage(img, t.ps3)
		mu.Lock()
		bytesCmp += int64(len(a))
		mu.Unlock()
		if !bytes.Equal(a, b) {
			d := firstDiffIdx(a, b)
			wit["first_difference_at"] = d
			wit["sector"] = d / 2048
			run.Violate("bytes-differ", how, fmt.Sprintf("[%s ps3=%v] images of the unchanged tree differ at offset %d (sector %d, in-sector %d), lengths %d/%d (%s)", t.name, t.ps3, d, d/2048, d%2048, len(a), len(b), how), wit)
		}
	}
	// phase 1: the reference image of every tree; then more than a second passes, so that anything
	// derived from the time of the open (instead of from the tree) differs in the later opens
	type refImg struct {
		img []byte
		ann int64
		ok  bool
	}
	refs := make([]refImg, len(trees))
	openLib := func(t tc) ([]byte, int64, bool) {
		v, _, err, perr := libOpenImage(parent, "/"+t.name, t.ps3, 0)
		if err != nil || perr != nil {
			return nil, 0, false
		}
		defer v.Close()
		st, _ := v.Stat()
		img, err, perr := readAllSeq(v, 65536, st.Size()+1<<20)
		if err != nil || perr != nil {
			return nil, 0, false
		}
		return img, st.Size(), true
	}
	ParallelDo(len(trees), 8, func(i int) {
		img, ann, ok := openLib(trees[i])
		refs[i] = refImg{img, ann, ok}
	})
	time.Sleep(1200 * time.Millisecond)
	ParallelDo(len(trees), 6, func(i int) {
		t := trees[i]
		rel := "/" + t.name
		open := func() ([]byte, int64, bool) {
			v, _, err, perr := libOpenImage(parent, rel, t.ps3, 0)
			if err != nil || perr != nil {
				return nil, 0, false
			}
			defer v.Close()
			st, _ := v.Stat()
			img, err, perr := readAllSeq(v, 65536, st.Size()+1<<20)
			if err != nil || perr != nil {
				return nil, 0, false
			}
			return img, st.Size(), true
		}
		ref, refAnn, ok := refs[i].img, refs[i].ann, refs[i].ok
		if !ok {
			run.Violate("creation-failed", t.kind, fmt.Sprintf("[%s] image of a portable-name tree could not be produced", t.name), map[string]any{"tree": t.name})
			return
		}
		if img, ann, ok := open(); ok {
			cmp(t, "second library open", ref, img, refAnn, ann)
		}
		pre := "/***DVD***"
		if t.ps3 {
			pre = "/***PS3***"
		}
		// opens on different connections
		for k := 0; k < 2; k++ {
			img, ann, err := netFetchImage(addr, pre+rel, e.Watchdog, 512<<20)
			if err != nil {
				run.Violate("network-fetch-failed", t.kind, fmt.Sprintf("[%s] %v", t.name, err), map[string]any{"tree": t.name})
				return
			}
			cmp(t, "another connection", ref, img, refAnn, ann)
		}
		// concurrent opens
		k := 4 + i%13
		var wg sync.WaitGroup
		imgs := make([][]byte, k)
		anns := make([]int64, k)
		errs := make([]error, k)
		for c := 0; c < k; c++ {
			wg.Add(1)
			go func(c int) {
				defer wg.Done()
				imgs[c], anns[c], errs[c] = netFetchImage(addr, pre+rel, e.Watchdog, 512<<20)
			}(c)
		}
		wg.Wait()
		for c := 0; c < k; c++ {
			if errs[c] != nil {
				run.Violate("network-fetch-failed", "concurrent", fmt.Sprintf("[%s] concurrent open %d of %d: %v", t.name, c, k, errs[c]), map[string]any{"tree": t.name})
				continue
			}
			cmp(t, "concurrent open", ref, imgs[c], refAnn, anns[c])
		}
		run.Count("concurrent_opens", int64(k))
		// the same unchanged directory opened in the *other* mode in between (a game directory can be had
		// as a plain image too), and other directories: each mode's image stays what it was
		if t.ps3 {
			td := t
			td.ps3 = false
			var dvdRef []byte
			var dvdAnn int64
			other := fmt.Sprintf("/t%04d", (i+2)%len(trees))
			for step, pth := range []string{"/***DVD***" + rel, "/***PS3***" + rel, "/***DVD***" + other, "/***PS3***" + rel, "/***DVD***" + rel, "/***PS3***" + other, "/***PS3***" + rel} {
				img, ann, err := netFetchImage(addr, pth, e.Watchdog, 512<<20)
				if strings.HasSuffix(pth, other) {
					continue // whatever it is (it may not be a game directory): only there to be opened in between
				}
				if err != nil {
					run.Violate("network-fetch-failed", "cross-mode", fmt.Sprintf("[%s] step %d (%s): %v", t.name, step, pth, err), map[string]any{"tree": t.name})
					break
				}
				switch {
				case strings.HasPrefix(pth, "/***PS3***"):
					cmp(t, fmt.Sprintf("PS3-mode open after opens in the other mode (step %d)", step), ref, img, refAnn, ann)
				case dvdRef == nil:
					dvdRef, dvdAnn = img, ann
				default:
					cmp(td, fmt.Sprintf("plain-mode open after opens in PS3 mode (step %d)", step), dvdRef, img, dvdAnn, ann)
				}
			}
			run.Count("cross_mode_histories", 1)
			run.Sig("cross-mode history %s", t.kind)
		}
		if e.Bin != "" && (i%e.Pick(5, 3) == 0 || strings.Contains(t.kind, "sector-multiples")) {
			out := filepath.Join(e.Scratch, t.name+".cli.iso")
			code, output := makeISOCLI(e.Bin, filepath.Join(parent, t.name), t.ps3, out)
			if code != 0 {
				run.Violate("make-iso-failed", t.kind, fmt.Sprintf("[%s] make-iso exit %d: %s", t.name, code, firstLines(output, 5)), map[string]any{"tree": t.name})
			} else {
				b, err := os.ReadFile(out)
				must(err)
				cmp(t, "make-iso", ref, b, refAnn, int64(len(b)))
			}
			os.Remove(out)
		}
		if i%max(1, len(trees)/5) == 0 {
			run.Sample(map[string]any{"tree": t.name, "ps3": t.ps3, "kind": t.kind, "image_size": len(ref), "concurrent_opens": k})
		}
	})
	run.Obs("masked_bytes_compared", bytesCmp)
	CrashCheck(e, p, "c18 worker", nil)
	p.Stop()
	races := p.RaceReports()
	run.Obs("race_reports", len(races))
	for i, rr := range dedupeRaces(races) {
		if i >= 5 {
			break
		}
		run.Violate("data-race", raceKey(rr), "race detector report while the same directory was opened concurrently: "+firstLines(rr, 14), map[string]any{"report": rr})
	}
}
