//go:build verif

package checks

import (
	"fmt"
	"math/rand"
	"os"
	"path/filepath"
	"sync"

	"verif/model"
	"verif/tree"
)

type isoViewEntry struct {
	v    model.View
	fail bool
	ok   bool
}

var (
	isoViewMu    sync.Mutex
	isoViewCache = map[string]isoViewEntry{}
)

// isoViews gives the expected bytes of a generated image: the canonical image is one sequential
// read of a library object of the same directory (its content and structure are C07/C08's
// business); the fields two opens may differ in (C18's mask) are don't-care.
var isoBuildMu sync.Mutex

func isoViews(w *model.World, virtual int, rel string) (model.View, bool, bool) {
	ps3 := virtual == model.VirtPS3
	key := fmt.Sprintf("%s|%s|%v", w.Root, rel, ps3)
	isoViewMu.Lock()
	if e, ok := isoViewCache[key]; ok {
		isoViewMu.Unlock()
		return e.v, e.fail, e.ok
	}
	isoViewMu.Unlock()
	e := func() isoViewEntry {
		st, err := os.Stat(filepath.Join(w.Root, rel))
		if err != nil || !st.IsDir() {
			return isoViewEntry{fail: true, ok: true} // not an existing directory: the open must fail
		}
		if ps3 {
			if _, err := os.Stat(filepath.Join(w.Root, rel, "PS3_GAME", "PARAM.SFO")); err != nil {
				return isoViewEntry{fail: true, ok: true} // PS3 image needs the game's PARAM.SFO
			}
			if id := readTitleID(filepath.Join(w.Root, rel)); len(id) != 9 {
				return isoViewEntry{} // unusual TITLE_ID: not judged
			}
		}
		// one reference image at a time: the harness must not itself be a concurrent user of the library
		// under test (a defect that needs concurrent builds would take the harness down, not the server)
		isoBuildMu.Lock()
		defer isoBuildMu.Unlock()
		v, _, err, perr := libOpenImage(w.Root, rel, ps3, 0)
		if err != nil || perr != nil {
			return isoViewEntry{} // creation trouble is judged by C04/C07/C08, not here
		}
		defer v.Close()
		fi, _ := v.Stat()
		if fi.Size() > 256<<20 {
			return isoViewEntry{}
		}
		img, err, perr := readAllSeq(v, 65536, fi.Size()+1<<20)
		if err != nil || perr != nil || int64(len(img)) != fi.Size() {
			return isoViewEntry{}
		}
		return isoViewEntry{v: &model.BytesView{B: img, K: "generated-image", MFree: true, DC: imageDontCare(ps3)}, ok: true}
	}()
	isoViewMu.Lock()
	isoViewCache[key] = e
	isoViewMu.Unlock()
	return e.v, e.fail, e.ok
}

// isoObjects creates a few source trees below root/isotrees and returns the image objects.
func isoObjects(e *Env, root string, r *rand.Rand) []c02Obj {
	var objs []c02Obj
	parent := filepath.Join(root, "isotrees")
	must(os.MkdirAll(parent, 0o755))
	w := &model.World{Root: root}
	for i := 0; i < e.Pick(4, 30); i++ {
		ps3 := i%2 == 1
		name := fmt.Sprintf("t%02d", i)
		genISOTree(r, parent, name, tree.GenOpt{MaxDepth: 2, MaxEntries: 6, MaxSize: 150000, NameLen: 10, EmptyFiles: true}, ps3)
		pre, virt := "/***DVD***", model.VirtDVD
		if ps3 {
			pre, virt = "/***PS3***", model.VirtPS3
		}
		v, _, ok := isoViews(w, virt, "/isotrees/"+name)
		if !ok || v == nil {
			continue // creation trouble: reported by the image checks
		}
		objs = append(objs, c02Obj{pre + "/isotrees/" + name, v.Size(), "generated-image"})
	}
	return objs
}
