//go:build verif

package checks

import (
	"math/rand"

	"verif/model"
)

func isoViews(w *model.World, virtual int, rel string) (model.View, bool, bool) {
	return nil, false, false
}

func isoObjects(e *Env, root string, r *rand.Rand) []c02Obj { return nil }
