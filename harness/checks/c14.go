//go:build verif

package checks

import (
	"fmt"
	"math/big"
	"math/rand"
	"net"
	"net/netip"
	"strconv"
	"strings"

	"github.com/xakep666/ps3netsrv-go/pkg/iprange"
)

// ---- refip: the documented address set, written from the statement on net/netip + math/big ----

type refRange struct{ lo, hi *big.Int } // inclusive, in the 128-bit space (IPv4 as ::ffff:a.b.c.d)

func to128(a netip.Addr) *big.Int {
	b := a.As16()
	return new(big.Int).SetBytes(b[:])
}

func (r refRange) contains(a netip.Addr) bool {
	v := to128(a)
	return v.Cmp(r.lo) >= 0 && v.Cmp(r.hi) <= 0
}

type refVerdict int

const (
	refAccept refVerdict = iota
	refReject
	refUnclassified
)

func plainAddr(s string) (netip.Addr, bool) {
	a, err := netip.ParseAddr(s)
	if err != nil || a.Zone() != "" {
		return netip.Addr{}, false
	}
	return a, true
}

func contiguousMask(m netip.Addr) (int, bool) {
	b := m.As4()
	v := uint32(b[0])<<24 | uint32(b[1])<<16 | uint32(b[2])<<8 | uint32(b[3])
	n := 0
	for n < 32 && v&(1<<(31-n)) != 0 {
		n++
	}
	if n < 32 && v<<uint(n) != 0 {
		return 0, false
	}
	return n, true
}

func block(a netip.Addr, bits int) refRange {
	p, _ := a.Prefix(bits)
	lo := to128(p.Addr())
	width := a.BitLen() - bits
	size := new(big.Int).Lsh(big.NewInt(1), uint(width))
	hi := new(big.Int).Add(lo, new(big.Int).Sub(size, big.NewInt(1)))
	if width >= 2 { // more than two addresses: network and broadcast are excluded
		lo = new(big.Int).Add(lo, big.NewInt(1))
		hi = new(big.Int).Sub(hi, big.NewInt(1))
	}
	return refRange{lo, hi}
}

// refParse classifies a specification string per the statement.
func refParse(s string) (refRange, refVerdict) {
	if strings.ContainsAny(s, " \t\n%") {
		return refRange{}, refUnclassified
	}
	if i := strings.IndexAny(s, "/-"); i >= 0 {
		left, right := s[:i], s[i+1:]
		if s[i] == '-' {
			a, ok1 := plainAddr(left)
			b, ok2 := plainAddr(right)
			if !ok1 || !ok2 {
				return refRange{}, refReject
			}
			if a.Is4In6() || b.Is4In6() {
				return refRange{}, refUnclassified
			}
			if a.Is4() != b.Is4() {
				return refRange{}, refReject
			}
			if a.Compare(b) > 0 {
				return refRange{}, refReject
			}
			return refRange{to128(a), to128(b)}, refAccept
		}
		a, ok := plainAddr(left)
		if !ok {
			return refRange{}, refReject
		}
		if a.Is4In6() {
			return refRange{}, refUnclassified
		}
		if n, err := strconv.Atoi(right); err == nil {
			if right != strconv.Itoa(n) {
				// a sign is not part of a prefix length ("/-0" would otherwise be the whole address space):
				// not a documented form, hence rejected; leading zeros are not classified by the statement
				if n < 0 || right[0] == '+' || right[0] == '-' {
					return refRange{}, refReject
				}
				return refRange{}, refUnclassified
			}
			if n < 0 || n > a.BitLen() {
				return refRange{}, refReject
			}
			return block(a, n), refAccept
		}
		m, ok := plainAddr(right)
		if !ok {
			return refRange{}, refReject
		}
		if m.Is4In6() {
			return refRange{}, refUnclassified
		}
		if !a.Is4() || !m.Is4() {
			return refRange{}, refReject // netmask form is documented for IPv4 only
		}
		n, ok := contiguousMask(m)
		if !ok {
			return refRange{}, refReject
		}
		return block(a, n), refAccept
	}
	a, ok := plainAddr(s)
	if !ok {
		return refRange{}, refReject
	}
	return refRange{to128(a), to128(a)}, refAccept
}

func from128(v *big.Int) (netip.Addr, bool) {
	if v.Sign() < 0 || v.BitLen() > 128 {
		return netip.Addr{}, false
	}
	var b [16]byte
	v.FillBytes(b[:])
	return netip.AddrFrom16(b), true
}

// ---- generators ----

func randV4(r *rand.Rand) netip.Addr {
	var b [4]byte
	r.Read(b[:])
	if r.Intn(4) == 0 {
		b[3] = []byte{0, 1, 254, 255}[r.Intn(4)]
	}
	return netip.AddrFrom4(b)
}

func randV6(r *rand.Rand) netip.Addr {
	var b [16]byte
	r.Read(b[:])
	switch r.Intn(4) {
	case 0:
		for i := 8; i < 16; i++ {
			b[i] = 0
		}
	case 1:
		copy(b[:], []byte{0x20, 0x01, 0x0d, 0xb8})
	}
	if b[0] == 0 && b[10] == 0xff && b[11] == 0xff { // avoid accidental v4-mapped
		b[0] = 0x20
	}
	return netip.AddrFrom16(b)
}

func c14Specs(e *Env, r *rand.Rand) []string {
	var specs []string
	add := func(s string) { specs = append(specs, s) }
	reps := e.Pick(6, 600)
	for rep := 0; rep < reps; rep++ {
		for n := 0; n <= 32; n++ {
			a := randV4(r)
			add(fmt.Sprintf("%s/%d", a, n))
			p, _ := a.Prefix(n)
			add(fmt.Sprintf("%s/%d", p.Addr(), n))
			m := net.CIDRMask(n, 32)
			add(fmt.Sprintf("%s/%s", a, net.IP(m)))
		}
		for n := 0; n <= 128; n++ {
			a := randV6(r)
			add(fmt.Sprintf("%s/%d", a, n))
			p, _ := a.Prefix(n)
			add(fmt.Sprintf("%s/%d", p.Addr(), n))
		}
	}
	// non-contiguous masks
	for i := 0; i < e.Pick(200, 20000); i++ {
		var m [4]byte
		r.Read(m[:])
		add(fmt.Sprintf("%s/%s", randV4(r), netip.AddrFrom4(m)))
	}
	for _, m := range []string{"0.0.0.255", "0.0.255.255", "0.255.255.255", "0.0.255.0", "0.255.0.0", "0.128.0.0", "0.0.0.1", "0.0.0.128", "0.0.1.0", "0.255.255.0", "0.0.0.254"} {
		add("192.168.1.0/" + m)
		add(fmt.Sprintf("%s/%s", randV4(r), m))
	}
	// out-of-range prefixes and junk
	for _, bad := range []string{"33", "129", "999", "-1", "", "x", "24x", "0x18", "1e1", "255.255.255", "255.255.255.256", "2001:db8::",
		// numbers that are a valid length modulo 2^8, 2^16, 2^32, 2^64 (a narrow accumulator wraps)
		"256", "280", "320", "384", "65536", "65560", "4294967296", "4294967320", "18446744073709551616", "18446744073709551640", "99999999999999999999999999999999"} {
		add("192.0.2.0/" + bad)
		add("2001:db8::/" + bad)
	}
	for n := 129; n < 140; n++ {
		add(fmt.Sprintf("2001:db8::/%d", n))
	}
	for n := 33; n < 128; n += 7 {
		add(fmt.Sprintf("10.0.0.0/%d", n))
	}
	// ranges
	for i := 0; i < e.Pick(300, 40000); i++ {
		a, b := randV4(r), randV4(r)
		if r.Intn(3) == 0 {
			w := r.Intn(300)
			v := new(big.Int).Add(to128(a), big.NewInt(int64(w)))
			if x, ok := from128(v); ok && x.Is4In6() {
				b = x.Unmap()
			}
		}
		add(fmt.Sprintf("%s-%s", a, b))
		add(fmt.Sprintf("%s-%s", b, a))
		c, d := randV6(r), randV6(r)
		if r.Intn(3) == 0 {
			v := new(big.Int).Add(to128(c), big.NewInt(int64(r.Intn(70000))))
			if x, ok := from128(v); ok {
				d = x
			}
		}
		add(fmt.Sprintf("%s-%s", c, d))
		add(fmt.Sprintf("%s-%s", d, c))
		add(fmt.Sprintf("%s-%s", a, a))
		if i%10 == 0 {
			add(fmt.Sprintf("%s-%s", a, c)) // mixed family
			add(fmt.Sprintf("%s-%s", c, a))
		}
	}
	for _, low := range []string{"::", "::1", "::2", "::fffe:ffff:ffff", "::ffff", "0:0:0:0:0:fffe::", "::1:0:0"} {
		for _, v4 := range []string{"0.0.0.0", "192.0.2.10", "255.255.255.255", "10.0.0.1"} {
			add(low + "-" + v4)
			add(v4 + "-" + low)
		}
	}
	for _, hi := range []string{"::1:0:0:0", "1::", "2001:db8::", "ffff::", "::ffff:ffff:ffff:ffff"} {
		for _, v4 := range []string{"0.0.0.0", "192.0.2.10", "255.255.255.255"} {
			add(hi + "-" + v4)
			add(v4 + "-" + hi)
		}
	}
	// singles and bad addresses
	for i := 0; i < e.Pick(100, 10000); i++ {
		add(randV4(r).String())
		add(randV6(r).String())
	}
	for _, bad := range []string{"", "192.0.2", "192.0.2.", "192.0.2.256", "192.0.2.1.1", "2001:db8", "2001:db8:::1", "g::1", "1.2.3.4-", "-1.2.3.4", "1.2.3.4-5.6.7", "::1-", "1.2.3.4/", "/24", "-", "/", "a.b.c.d", "1.2.3.4-1.2.3.4-1.2.3.5", "1.2.3.4/24/24", "01.2.3.4", "1.2.3.04/24"} {
		add(bad)
	}
	// unclassified forms (generated, recorded, not judged)
	for _, sg := range []string{"+24", "-0", "+0", "-00", "+8", "+32", "+032", "-32"} {
		add("10.0.0.0/" + sg)
		add("2001:db8::/" + sg)
	}
	add("2001:db8::/+128")
	add("2001:db8::/+64")
	for _, u := range []string{"::ffff:10.0.0.0/104", "::ffff:10.0.0.1-::ffff:10.0.0.9", " 10.0.0.1", "10.0.0.0/024", "fe80::1%lo"} {
		add(u)
	}
	return specs
}

func probesFor(rr refRange, ok bool, r *rand.Rand, n int) []netip.Addr {
	var out []netip.Addr
	addBig := func(v *big.Int) {
		if a, ok := from128(v); ok {
			out = append(out, a)
		}
	}
	if ok {
		for _, d := range []int64{-2, -1, 0, 1, 2} {
			addBig(new(big.Int).Add(rr.lo, big.NewInt(d)))
			addBig(new(big.Int).Add(rr.hi, big.NewInt(d)))
		}
		span := new(big.Int).Sub(rr.hi, rr.lo)
		if span.Sign() > 0 {
			for i := 0; i < n; i++ {
				addBig(new(big.Int).Add(rr.lo, new(big.Int).Rand(r, span)))
			}
		}
	}
	for i := 0; i < n; i++ {
		out = append(out, randV4(r), randV6(r))
	}
	return out
}

func C14(e *Env) {
	run := e.Run
	run.Rule = "cases: (specification, probe) pairs; specifications from the documented grammar and near misses (all prefix lengths 0..32/0..128 with and without host bits, contiguous and non-contiguous masks, ranges of many widths, reversed/mixed bounds, bad addresses); probes at borders +-2, random interior/exterior, in 4-byte, 16-byte and v4-mapped forms; exhaustive membership over every address of small blocks. non-trivial = distinct (spec class, probe position class, probe form) with an accepted spec, or distinct rejected-class"
	r := e.Rng(14)
	specs := c14Specs(e, r)
	var accepted, rejected, unclassified int
	for _, s := range specs {
		rr, verdict := refParse(s)
		var got *iprange.IPRange
		var err error
		func() {
			defer func() {
				if p := recover(); p != nil {
					err = fmt.Errorf("panic: %v", p)
					run.Violate("panic", "ParseIPRange", fmt.Sprintf("ParseIPRange(%q) panicked: %v", s, p), map[string]any{"spec": s})
				}
			}()
			got, err = iprange.ParseIPRange(s)
		}()
		run.Eval(1)
		switch verdict {
		case refUnclassified:
			unclassified++
			continue
		case refReject:
			rejected++
			run.Sig("reject:%s", specClass(s))
			if err == nil {
				run.Violate("accepts-invalid", specClass(s), fmt.Sprintf("ParseIPRange(%q) was accepted as %v but the specification is invalid", s, got), map[string]any{"spec": s})
			}
			continue
		}
		accepted++
		if err != nil {
			run.Violate("rejects-valid", specClass(s), fmt.Sprintf("ParseIPRange(%q) failed: %v", s, err), map[string]any{"spec": s})
			continue
		}
		probes := probesFor(rr, true, r, e.Pick(4, 12))
		for _, p := range probes {
			c14Probe(run.Eval, e, s, rr, got, p)
		}
		if accepted%200 == 1 {
			run.Sample(map[string]any{"spec": s, "reference_set": fmt.Sprintf("%x..%x", rr.lo, rr.hi), "probes": len(probes)})
		}
	}
	// exhaustive membership over small blocks
	minBits := e.Pick(22, 14)
	nb := 0
	for bits := 32; bits >= minBits; bits-- {
		for rep := 0; rep < e.Pick(2, 3); rep++ {
			a := randV4(r)
			for _, s := range []string{fmt.Sprintf("%s/%d", a, bits), fmt.Sprintf("%s/%s", a, net.IP(net.CIDRMask(bits, 32)))} {
				rr, _ := refParse(s)
				got, err := iprange.ParseIPRange(s)
				if err != nil {
					run.Violate("rejects-valid", specClass(s), fmt.Sprintf("ParseIPRange(%q) failed: %v", s, err), map[string]any{"spec": s})
					continue
				}
				p, _ := a.Prefix(bits)
				start := new(big.Int).Sub(to128(p.Addr()), big.NewInt(2))
				n := (1 << (32 - bits)) + 4
				for i := 0; i < n; i++ {
					if x, ok := from128(new(big.Int).Add(start, big.NewInt(int64(i)))); ok {
						c14Probe(run.Eval, e, s, rr, got, x)
					}
				}
				nb++
			}
		}
	}
	for bits := 128; bits >= 128-(32-minBits); bits-- {
		a := randV6(r)
		s := fmt.Sprintf("%s/%d", a, bits)
		rr, _ := refParse(s)
		got, err := iprange.ParseIPRange(s)
		if err != nil {
			run.Violate("rejects-valid", specClass(s), fmt.Sprintf("ParseIPRange(%q) failed: %v", s, err), map[string]any{"spec": s})
			continue
		}
		p, _ := a.Prefix(bits)
		start := new(big.Int).Sub(to128(p.Addr()), big.NewInt(2))
		n := (1 << (128 - bits)) + 4
		for i := 0; i < n; i++ {
			if x, ok := from128(new(big.Int).Add(start, big.NewInt(int64(i)))); ok {
				c14Probe(run.Eval, e, s, rr, got, x)
			}
		}
		nb++
	}
	run.Obs("specs", len(specs))
	run.Obs("specs_accepted_by_reference", accepted)
	run.Obs("specs_rejected_by_reference", rejected)
	run.Obs("specs_unclassified_not_judged", unclassified)
	run.Obs("blocks_enumerated_exhaustively", nb)
	run.Obs("smallest_prefix_enumerated", minBits)
	run.Exhaustive = true
	run.Assume("forms the statement does not classify (v4-mapped literals in specs, whitespace, signs/leading zeros in prefix lengths, zones) are generated but not judged")
	run.Floor(accepted > 500 && rejected > 200, "too few specifications")
}

func specClass(s string) string {
	switch {
	case strings.Contains(s, "-"):
		if strings.Contains(s, ":") && strings.Contains(s, ".") {
			return "range-mixed"
		}
		if strings.Contains(s, ":") {
			return "range-v6"
		}
		return "range-v4"
	case strings.Contains(s, "/"):
		i := strings.Index(s, "/")
		fam := "v4"
		if strings.Contains(s[:i], ":") {
			fam = "v6"
		}
		if strings.Contains(s[i+1:], ".") || strings.Contains(s[i+1:], ":") {
			return "mask-" + fam
		}
		return "cidr-" + fam + "/" + s[i+1:]
	case strings.Contains(s, ":"):
		return "single-v6"
	}
	return "single-v4"
}

func c14Probe(eval func(int), e *Env, spec string, rr refRange, got *iprange.IPRange, p netip.Addr) {
	want := rr.contains(p)
	forms := map[string]net.IP{}
	if p.Is4() || p.Is4In6() {
		u := p.Unmap()
		b4 := u.As4()
		b16 := u.As16()
		forms["4-byte"] = net.IP(b4[:])
		forms["16-byte-mapped"] = net.IP(b16[:])
	} else {
		b16 := p.As16()
		forms["16-byte"] = net.IP(b16[:])
	}
	pos := "outside"
	if want {
		pos = "inside"
	}
	v := to128(p)
	if v.Cmp(rr.lo) == 0 || v.Cmp(rr.hi) == 0 {
		pos = "border"
	} else if new(big.Int).Sub(rr.lo, v).Cmp(big.NewInt(1)) == 0 || new(big.Int).Sub(v, rr.hi).Cmp(big.NewInt(1)) == 0 {
		pos = "just-outside"
	}
	for name, ip := range forms {
		eval(1)
		var res bool
		func() {
			defer func() {
				if x := recover(); x != nil {
					e.Run.Violate("panic", "Contains", fmt.Sprintf("Contains(%v) on %q panicked: %v", ip, spec, x), map[string]any{"spec": spec, "probe": p.String()})
				}
			}()
			res = got.Contains(ip)
		}()
		e.Run.Sig("%s %s %s", specClass(spec), pos, name)
		if res != want {
			e.Run.Violate("membership", specClass(spec)+"-"+pos, fmt.Sprintf("range %q (parsed as %v): Contains(%s as %s) = %v, documented set says %v", spec, got, p, name, res, want),
				map[string]any{"spec": spec, "probe": p.String(), "form": name, "got": res, "want": want})
		}
	}
}
