//go:build verif

package checks

import (
	"bytes"
	"errors"
	"fmt"
	"io"
	"math/rand"
	"os"
	"path/filepath"
	"regexp"
	"strings"

	"github.com/spf13/afero"

	rfs "github.com/xakep666/ps3netsrv-go/pkg/fs"

	"verif/refcrypt"
	"verif/tree"
)

// shortFile makes the underlying file return short reads at PRNG-chosen cut points.
type shortFile struct {
	afero.File
	r     *rand.Rand
	every int // 1 in every N reads is cut (0 = never)
	cuts  int
}

func (s *shortFile) Read(p []byte) (int, error) {
	if s.every > 0 && len(p) > 1 && s.r.Intn(s.every) == 0 {
		k := 1 + s.r.Intn(len(p)-1)
		switch s.r.Intn(4) {
		case 0:
			k = 1 + s.r.Intn(min(len(p)-1, 40))
		case 1: // cut just around a sector border
			k = max(1, min(len(p)-1, (s.r.Intn(len(p)/2048+1))*2048+s.r.Intn(33)-16))
		}
		s.cuts++
		return s.File.Read(p[:k])
	}
	return s.File.Read(p)
}

// ReadAt may also come back short without an error when the underlying file is a wrapper or a
// network file system: the statement lists short reads for positional access too.
func (s *shortFile) ReadAt(p []byte, off int64) (int, error) {
	if s.every > 0 && len(p) > 1 && s.r.Intn(s.every) == 0 {
		k := 1 + s.r.Intn(len(p)-1)
		if s.r.Intn(3) == 0 {
			k = max(1, min(len(p)-1, (s.r.Intn(len(p)/2048+1))*2048+s.r.Intn(4000)-2000))
		}
		s.cuts++
		return s.File.ReadAt(p[:k], off)
	}
	return s.File.ReadAt(p, off)
}

type viewOp struct {
	Kind   string `json:"kind"` // read | readat | seek
	N      int    `json:"n,omitempty"`
	Off    int64  `json:"off,omitempty"`
	Whence int    `json:"whence,omitempty"`
}

type c10Case struct {
	Key        []byte            `json:"key"`
	Regions    []refcrypt.Region `json:"regions"`
	Sectors    int               `json:"sectors"`
	Tail       int               `json:"tail"`
	Seed       int64             `json:"seed"`
	Clear      bool              `json:"clear_regions"`
	ShortEvery int               `json:"short_every"`
	Ops        []viewOp          `json:"ops"`
	Shape      string            `json:"shape"`
}

// genRegions draws a valid table: plain regions {start,end} inclusive, first starts at 0, every
// plain region has at least two sectors except in the shape "one-sector-plain" ({s,s}: the end is the
// region's last sector), later regions may lie beyond the file.
func genRegions(r *rand.Rand, sectors int) ([]refcrypt.Region, string) {
	shape := []string{"two", "few", "many", "adjacent", "enc-to-eof", "beyond", "last-sector", "far-border", "one-sector-plain"}[r.Intn(9)]
	var regs []refcrypt.Region
	cur := uint32(0)
	add := func(plainLen, gap uint32) {
		regs = append(regs, refcrypt.Region{Start: cur, End: cur + plainLen - 1})
		cur += plainLen + gap
	}
	switch shape {
	case "two":
		a := uint32(2 + r.Intn(max(1, sectors/3)))
		gap := uint32(1 + r.Intn(max(1, sectors/3)))
		add(a, gap)
		add(uint32(2+r.Intn(sectors)), 0)
	case "few", "many", "adjacent":
		n := 3 + r.Intn(4)
		if shape == "many" {
			n = 20 + r.Intn(236)
		}
		for i := 0; i < n; i++ {
			gap := uint32(r.Intn(4))
			if shape == "adjacent" && r.Intn(2) == 0 {
				gap = 0
			}
			if shape != "adjacent" && gap == 0 && r.Intn(3) != 0 {
				gap = 1
			}
			add(uint32(2+r.Intn(4)), gap)
		}
	case "enc-to-eof":
		add(uint32(2+r.Intn(max(1, sectors/2))), 0)
		cur = uint32(sectors) + uint32(r.Intn(3)) // next plain region starts at/after EOF: encrypted up to the end
		if cur <= regs[0].End {
			cur = regs[0].End + 2
		}
		add(5, 0)
	case "beyond":
		add(uint32(2+r.Intn(max(1, sectors/2))), uint32(1+r.Intn(5)))
		add(uint32(2+r.Intn(5)), uint32(sectors))
		add(10, 3)
		add(7, 0)
	case "one-sector-plain":
		// the end of a plain region is its last sector (inclusive): {s,s} is a plain region of one sector;
		// with {0,0} first, the encrypted region starts at sector 1
		first := uint32(1)
		if r.Intn(3) == 0 {
			first = uint32(2 + r.Intn(4))
		}
		add(first, uint32(1+r.Intn(3)))
		for i := 0; i < 1+r.Intn(4); i++ {
			add(uint32(1+r.Intn(2)), uint32(r.Intn(3)))
		}
		add(uint32(2+r.Intn(4)), 0)
	case "far-border":
		// sector numbers are 32-bit unsigned in the table: later plain regions may start at or beyond
		// 2^31 (far behind the file): everything after the first plain region is encrypted up to EOF
		add(uint32(2+r.Intn(max(1, sectors/2))), 0)
		cur = []uint32{1<<31 - 3, 1<<31 - 2, 1<<31 - 1, 1 << 31, 1<<31 + 1, 3 << 30, 1<<32 - 40}[r.Intn(7)]
		add(uint32(2+r.Intn(5)), uint32(r.Intn(3)))
		if r.Intn(2) == 0 && cur < 1<<32-20 {
			add(uint32(2+r.Intn(5)), 0)
		}
	case "last-sector":
		a := uint32(2 + r.Intn(max(1, sectors/2)))
		add(a, 0)
		gap := uint32(1 + r.Intn(3))
		cur = regs[0].End + 1 + gap
		if int(cur)+2 <= sectors {
			regs = append(regs, refcrypt.Region{Start: cur, End: uint32(sectors - 1)})
		} else {
			add(4, 0)
		}
	}
	return regs, shape
}

func genOps(r *rand.Rand, size int64, n int) []viewOp {
	var ops []viewOp
	far := FarOffsets()
	offs := func() int64 {
		if r.Intn(14) == 0 {
			return far[r.Intn(len(far))]
		}
		switch r.Intn(6) {
		case 0:
			return int64(r.Intn(int(size/2048)+1)) * 2048
		case 1:
			return int64(r.Intn(int(size/2048)+1))*2048 + int64(r.Intn(33)) - 16
		case 2:
			return size - int64(r.Intn(5000))
		case 3:
			return size + int64(r.Intn(100))
		}
		return r.Int63n(size + 1)
	}
	lens := func() int {
		// one request in twenty asks for more than a mebibyte at once (the ordinary read's limit and a
		// caller's buffer are the client's choice), aligned or not at either end
		if size > 1<<20 && r.Intn(20) == 0 {
			return int(min(size, int64(1<<20+r.Intn(800000)))) - []int{0, 1, 2047, 2048, 100}[r.Intn(5)]
		}
		switch r.Intn(6) {
		case 0:
			return 1 + r.Intn(16)
		case 1:
			return 2048
		case 2:
			return 2048*(1+r.Intn(8)) + r.Intn(3) - 1
		case 3:
			return 1 + r.Intn(70000)
		}
		return 1 + r.Intn(5000)
	}
	for i := 0; i < n; i++ {
		switch r.Intn(5) {
		case 0:
			o := offs()
			w := r.Intn(3)
			switch w {
			case 1:
				o = int64(r.Intn(9000)) - 4000
			case 2:
				o = -int64(r.Intn(int(min(size, 9000)) + 1))
			}
			ops = append(ops, viewOp{Kind: "seek", Off: o, Whence: w})
		case 1:
			ops = append(ops, viewOp{Kind: "readat", N: lens(), Off: max(0, offs())})
		default:
			ops = append(ops, viewOp{Kind: "read", N: lens()})
		}
	}
	return ops
}

var panicLineRe = regexp.MustCompile(`[0-9]+`)

func panicClass(v any) string {
	s := fmt.Sprint(v)
	s = panicLineRe.ReplaceAllString(s, "N")
	if len(s) > 70 {
		s = s[:70]
	}
	return s
}

type rsView interface {
	io.Reader
	io.ReaderAt
	io.Seeker
}

// checkViewOps drives a Read/Seek/ReadAt sequence against want (the one fixed byte string the view
// must present) and returns the first discrepancy.
func checkViewOps(v rsView, want []byte, ops []viewOp) (rule, feature, detail string, at int) {
	size := int64(len(want))
	pos := int64(0)
	zero := 0
	for i, op := range ops {
		var rule, feature, detail string
		func() {
			defer func() {
				if p := recover(); p != nil {
					rule, feature, detail = "panic", panicClass(p), fmt.Sprintf("%s(n=%d off=%d whence=%d) at position %d panicked: %v", op.Kind, op.N, op.Off, op.Whence, pos, p)
				}
			}()
			switch op.Kind {
			case "seek":
				var target int64
				switch op.Whence {
				case io.SeekStart:
					target = op.Off
				case io.SeekCurrent:
					target = pos + op.Off
				case io.SeekEnd:
					target = size + op.Off
				}
				got, err := v.Seek(op.Off, op.Whence)
				if target < 0 {
					if err == nil {
						rule, feature, detail = "seek", "negative-accepted", fmt.Sprintf("Seek(%d,%d) from %d to a negative position returned %d, nil", op.Off, op.Whence, pos, got)
					}
					return
				}
				if err != nil {
					if target > size {
						return // seeking beyond the end may be refused
					}
					rule, feature, detail = "seek", "refused", fmt.Sprintf("Seek(%d,%d) from %d (target %d of %d) failed: %v", op.Off, op.Whence, pos, target, size, err)
					return
				}
				if got != target {
					rule, feature, detail = "seek", fmt.Sprintf("whence%d-result", op.Whence), fmt.Sprintf("Seek(%d,%d) from %d returned %d, want %d (size %d)", op.Off, op.Whence, pos, got, target, size)
					return
				}
				pos = target
			case "read":
				buf := make([]byte, op.N)
				k, err := v.Read(buf)
				if k < 0 || k > op.N {
					rule, feature, detail = "read", "count", fmt.Sprintf("Read(%d) at %d returned n=%d", op.N, pos, k)
					return
				}
				if pos >= size {
					if k != 0 || err != io.EOF {
						rule, feature, detail = "read", "past-end", fmt.Sprintf("Read(%d) at %d (size %d) returned n=%d err=%v, want 0, EOF", op.N, pos, size, k, err)
					}
					return
				}
				if pos+int64(k) > size {
					rule, feature, detail = "read", "beyond-size", fmt.Sprintf("Read(%d) at %d returned %d bytes, more than remain before the announced size %d", op.N, pos, k, size)
					return
				}
				if !bytes.Equal(buf[:k], want[pos:pos+int64(k)]) {
					d := firstDiffIdx(buf[:k], want[pos:pos+int64(k)])
					rule, feature, detail = "wrong-bytes", "read", fmt.Sprintf("Read(%d) at %d: byte %d (image offset %d) is %#02x, want %#02x", op.N, pos, d, pos+int64(d), buf[d], want[pos+int64(d)])
					return
				}
				if err != nil && !(err == io.EOF && pos+int64(k) == size) {
					rule, feature, detail = "read", "error", fmt.Sprintf("Read(%d) at %d (size %d) returned n=%d err=%v", op.N, pos, size, k, err)
					return
				}
				if k == 0 {
					zero++
					if zero >= 3 {
						rule, feature, detail = "read", "no-progress", fmt.Sprintf("Read(%d) at %d (size %d) returned 0, nil repeatedly", op.N, pos, size)
					}
					return
				}
				zero = 0
				pos += int64(k)
			case "readat":
				buf := make([]byte, op.N)
				k, err := v.ReadAt(buf, op.Off)
				if k < 0 || k > op.N {
					rule, feature, detail = "readat", "count", fmt.Sprintf("ReadAt(%d,%d) returned n=%d", op.N, op.Off, k)
					return
				}
				if op.Off >= size {
					if k != 0 || err == nil {
						rule, feature, detail = "readat", "past-end", fmt.Sprintf("ReadAt(%d,%d) (size %d) returned n=%d err=%v", op.N, op.Off, size, k, err)
					}
					return
				}
				if op.Off+int64(k) > size {
					rule, feature, detail = "readat", "beyond-size", fmt.Sprintf("ReadAt(%d,%d) returned %d bytes, beyond the announced size %d", op.N, op.Off, k, size)
					return
				}
				if !bytes.Equal(buf[:k], want[op.Off:op.Off+int64(k)]) {
					d := firstDiffIdx(buf[:k], want[op.Off:op.Off+int64(k)])
					rule, feature, detail = "wrong-bytes", "readat", fmt.Sprintf("ReadAt(%d,%d): byte %d (image offset %d) is %#02x, want %#02x", op.N, op.Off, d, op.Off+int64(d), buf[d], want[op.Off+int64(d)])
					return
				}
				avail := min(int64(op.N), size-op.Off)
				if k == 0 && avail > 0 && err == nil {
					// positional reads need not fill the buffer (the statements only ask for progress), but
					// returning nothing without an error before the end is no progress
					rule, feature, detail = "readat", "no-progress", fmt.Sprintf("ReadAt(%d,%d) (size %d) returned 0 bytes with a nil error", op.N, op.Off, size)
					return
				}
				if int64(k) == int64(op.N) && err != nil && err != io.EOF {
					rule, feature, detail = "readat", "error", fmt.Sprintf("ReadAt(%d,%d) returned all bytes and err=%v", op.N, op.Off, err)
					return
				}
				if int64(k) < avail && err != nil && k == 0 && !errors.Is(err, io.EOF) {
					// an error with no progress on a satisfiable range: reported as a failure of the view
					rule, feature, detail = "readat", "error", fmt.Sprintf("ReadAt(%d,%d) (size %d) failed: %v", op.N, op.Off, size, err)
					return
				}
			}
		}()
		if rule != "" {
			return rule, feature, detail, i
		}
	}
	return "", "", "", -1
}

func (c *c10Case) build() (stored, plain []byte) {
	size := c.Sectors*refcrypt.Sector + c.Tail
	plain = tree.Content(c.Seed, int64(size))
	copy(plain, refcrypt.Table(c.Regions))
	// bytes of sector 0 after the table stay random: "nothing else is altered"
	stored = refcrypt.BuildImage(plain, c.Regions, c.Key)
	return
}

func C10(e *Env) {
	run := e.Run
	run.Rule = "cases: (key, region table, content, header-clearing flag, short-read plan, operation sequence) — random 16-byte keys; tables of 2..255 plain regions (adjacent, encrypted-up-to-EOF, beyond the file, ending at the last sector); Read/Seek/ReadAt sequences with unaligned offsets and lengths on the real EncryptedISO view over a file on disk whose Reads are cut at PRNG-chosen points; every returned byte compared with refcrypt's plaintext; plus invalid tables that must be rejected; non-trivial = distinct (table shape, op kind, alignment class, short-read yes/no, clear flag)"
	note, err := refcrypt.SelfCheck()
	if err != nil {
		fatalf("refcrypt self-check failed: %v", err)
	}
	run.Obs("refcrypt_anchor", note)
	dir := e.Dir("c10")
	rng := e.Rng(10)
	nCases := e.Pick(3000, 400000)
	nOps := e.Pick(100, 150)
	var cases []c10Case
	for i := 0; i < nCases; i++ {
		sectors := 8 + rng.Intn(120)
		if i%10 == 0 {
			sectors = 300 + rng.Intn(500)
		}
		if i%40 == 7 {
			sectors = 600 + rng.Intn(900) // 1.2 .. 3 MiB: room for single requests beyond a mebibyte
		}
		c := c10Case{Key: tree.Content(rng.Int63(), 16), Sectors: sectors, Seed: rng.Int63(), Clear: rng.Intn(2) == 0}
		c.Regions, c.Shape = genRegions(rng, sectors)
		if rng.Intn(6) == 0 {
			c.Tail = 1 + rng.Intn(2047)
		}
		switch rng.Intn(3) {
		case 0:
			c.ShortEvery = 0
		case 1:
			c.ShortEvery = 1
		default:
			c.ShortEvery = 2 + rng.Intn(6)
		}
		c.Ops = genOps(rng, int64(sectors*refcrypt.Sector+c.Tail), nOps)
		cases = append(cases, c)
	}
	var bytesCompared int64
	ParallelDo(len(cases), 16, func(i int) {
		c := cases[i]
		stored, _ := c.build()
		want := refcrypt.Plaintext(stored, c.Regions, c.Key, c.Clear)
		p := filepath.Join(dir, fmt.Sprintf("img%06d.iso", i))
		must(os.WriteFile(p, stored, 0o644))
		defer os.Remove(p)
		f, err := afero.NewOsFs().Open(p)
		must(err)
		defer f.Close()
		sf := &shortFile{File: f, r: rand.New(rand.NewSource(c.Seed + 1)), every: c.ShortEvery}
		var v *rfs.EncryptedISO
		var perr any
		func() {
			defer func() { perr = recover() }()
			v, err = rfs.NewEncryptedISO(sf, c.Key, c.Clear)
		}()
		run.Eval(1)
		if perr != nil {
			run.Violate("panic", "constructor:"+panicClass(perr), fmt.Sprintf("NewEncryptedISO panicked: %v", perr), c)
			return
		}
		if err != nil {
			if c.ShortEvery > 0 && sf.cuts > 0 {
				// a short read of the header during construction is a legal behaviour of the file: the
				// constructor must cope (binary.Read uses io.ReadFull) -- an error here is a violation
			}
			run.Violate("valid-table-rejected", c.Shape, fmt.Sprintf("NewEncryptedISO rejected a valid table (%d regions, shape %s): %v", len(c.Regions), c.Shape, err), c)
			return
		}
		rule, feature, detail, at := checkViewOps(v, want, c.Ops)
		for _, op := range c.Ops {
			al := "unaligned"
			if op.Off%2048 == 0 && op.N%2048 == 0 {
				al = "aligned"
			}
			run.Sig("%s %s %s short=%v clear=%v", c.Shape, op.Kind, al, c.ShortEvery > 0, c.Clear)
		}
		run.Count("operations", int64(len(c.Ops)))
		run.Count("short_reads_injected", int64(sf.cuts))
		if rule != "" {
			cc := c
			cc.Ops = c.Ops[:at+1]
			feat := feature
			if rule == "wrong-bytes" {
				feat = fmt.Sprintf("%s,short=%v", feature, c.ShortEvery > 0)
			}
			run.Violate(rule, feat, fmt.Sprintf("[%d sectors+%d, %d regions (%s), short-read 1/%d, clear=%v] op #%d: %s", c.Sectors, c.Tail, len(c.Regions), c.Shape, c.ShortEvery, c.Clear, at, detail), cc)
			return
		}
		if i%max(1, len(cases)/6) == 0 {
			cc := c
			cc.Ops = c.Ops[:min(8, len(c.Ops))]
			run.Sample(cc)
		}
	})
	_ = bytesCompared
	c10Invalid(e, dir)
	run.Assume("region table entries are plain regions with inclusive end sector (DESIGN.md C10); single-sector plain regions and tables with fewer than 2 regions are not judged")
}

// c10Invalid: tables from the unambiguous invalid classes must be rejected with an error.
func c10Invalid(e *Env, dir string) {
	run := e.Run
	rng := e.Rng(1010)
	key := tree.Content(5, 16)
	type bad struct {
		name string
		tbl  []byte
		size int
	}
	var list []bad
	mk := func(regs []refcrypt.Region) []byte { return refcrypt.Table(regs) }
	for i := 0; i < e.Pick(40, 400); i++ {
		s := uint32(1 + rng.Intn(50))
		list = append(list,
			bad{"first-start-nonzero", mk([]refcrypt.Region{{Start: s, End: s + 5}, {Start: s + 9, End: s + 20}}), 64 * 2048},
			bad{"end-before-start", mk([]refcrypt.Region{{Start: 0, End: 10}, {Start: 30 + s, End: 20 + s - uint32(rng.Intn(10)) - 1}}), 64 * 2048},
			bad{"start-before-previous-start", mk([]refcrypt.Region{{Start: 0, End: 30 + s}, {Start: uint32(rng.Intn(int(20 + s))), End: 90 + s}}), 64 * 2048},
		)
		// table longer than the file
		n := 3 + rng.Intn(200)
		regs := make([]refcrypt.Region, n)
		cur := uint32(0)
		for k := range regs {
			regs[k] = refcrypt.Region{Start: cur, End: cur + 2}
			cur += 4
		}
		full := mk(regs)
		list = append(list, bad{"table-longer-than-file", full[:8+rng.Intn(len(full)-8)], 0})
	}
	for i, b := range list {
		img := b.tbl
		if b.size > len(img) {
			img = append(bytes.Clone(b.tbl), tree.Content(int64(i), int64(b.size-len(b.tbl)))...)
		}
		p := filepath.Join(dir, fmt.Sprintf("bad%05d.iso", i))
		must(os.WriteFile(p, img, 0o644))
		f, err := afero.NewOsFs().Open(p)
		must(err)
		var perr any
		func() {
			defer func() { perr = recover() }()
			_, err = rfs.NewEncryptedISO(f, key, false)
		}()
		f.Close()
		os.Remove(p)
		run.Eval(1)
		run.Sig("invalid table: %s", b.name)
		wit := map[string]any{"class": b.name, "table_hex": fmt.Sprintf("%x", b.tbl[:min(len(b.tbl), 64)]), "file_size": len(img)}
		if perr != nil {
			run.Violate("panic", "constructor:"+panicClass(perr), fmt.Sprintf("NewEncryptedISO panicked on an invalid table (%s): %v", b.name, perr), wit)
		} else if err == nil {
			run.Violate("invalid-table-accepted", b.name, fmt.Sprintf("NewEncryptedISO accepted an invalid region table of class %s", b.name), wit)
		} else if strings.Contains(err.Error(), "panic") {
			run.Violate("panic", b.name, err.Error(), wit)
		}
	}
}
