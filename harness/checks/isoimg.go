//go:build verif

package checks

import (
	"bytes"
	"fmt"
	"io"
	"math/rand"
	"os"
	"os/exec"
	"path/filepath"
	"sort"
	"strings"
	"time"

	"github.com/spf13/afero"

	rfs "github.com/xakep666/ps3netsrv-go/pkg/fs"

	"verif/iso"
	"verif/spyfs"
	"verif/tree"
	"verif/wire"
)

type memSource []byte

func (m memSource) ReadAt(p []byte, off int64) (int, error) {
	if off >= int64(len(m)) {
		return 0, io.EOF
	}
	n := copy(p, m[off:])
	if n < len(p) {
		return n, io.EOF
	}
	return n, nil
}

// libImage opens the generated image of root/rel through the real library on a spy file system
// (optionally shuffling directory listings) and returns the object. Panics are returned as perr.
func libOpenImage(root, rel string, ps3 bool, shuffleSeed int64) (v *rfs.VirtualISO, spy *spyfs.Spy, err error, perr any) {
	spy = spyfs.New(afero.NewOsFs(), root)
	spy.Reset(nil, false, shuffleSeed)
	fsys := afero.NewBasePathFs(spy, root)
	func() {
		defer func() { perr = recover() }()
		v, err = rfs.NewVirtualISO(fsys, rel, ps3)
	}()
	return
}

// readAllSeq reads the whole object with sequential Reads of the given buffer size.
func readAllSeq(r io.Reader, bufSize int, limit int64) (out []byte, err error, perr any) {
	func() {
		defer func() { perr = recover() }()
		buf := make([]byte, bufSize)
		zero := 0
		for int64(len(out)) <= limit {
			n, e := r.Read(buf)
			out = append(out, buf[:n]...)
			if e == io.EOF {
				return
			}
			if e != nil {
				err = e
				return
			}
			if n == 0 {
				zero++
				if zero > 3 {
					err = fmt.Errorf("Read returned 0, nil repeatedly at offset %d", len(out))
					return
				}
			}
		}
		err = fmt.Errorf("more than %d bytes delivered", limit)
	}()
	return
}

// streamToSparse copies r to a sparse file (zero chunks are skipped) and returns the byte count.
func streamToSparse(r io.Reader, path string) (n int64, err error, perr any) {
	f, e := os.Create(path)
	if e != nil {
		return 0, e, nil
	}
	defer f.Close()
	func() {
		defer func() { perr = recover() }()
		buf := make([]byte, 1<<20)
		zero := make([]byte, 1<<20)
		for {
			k, e := io.ReadFull(r, buf)
			if k > 0 {
				if !bytes.Equal(buf[:k], zero[:k]) {
					if _, werr := f.WriteAt(buf[:k], n); werr != nil {
						err = werr
						return
					}
				}
				n += int64(k)
			}
			if e == io.EOF || e == io.ErrUnexpectedEOF {
				break
			}
			if e != nil {
				err = e
				return
			}
		}
		err = f.Truncate(n)
	}()
	return
}

// netFetchImage obtains an image through the server: OPEN + sequential READs of 1 MiB.
func netFetchImage(addr, path string, wd time.Duration, maxBytes int64) (img []byte, announced int64, err error) {
	c, err := wire.Dial(addr, nil, wd)
	if err != nil {
		return nil, 0, err
	}
	defer c.Close()
	if err := c.Send(wire.P(wire.OpOpen, path)); err != nil {
		return nil, 0, err
	}
	b, st := c.ReadN(wire.SzOpen)
	if st != wire.Full {
		return nil, 0, fmt.Errorf("OPEN %s: %d bytes then %s", path, len(b), st)
	}
	announced = wire.DecodeOpen(b).Size
	if announced < 0 {
		return nil, announced, fmt.Errorf("OPEN %s refused", path)
	}
	if announced > maxBytes {
		return nil, announced, fmt.Errorf("image of %d bytes exceeds the fetch limit", announced)
	}
	for off := int64(0); off < announced; {
		if err := c.Send(wire.Read(1<<20, uint64(off))); err != nil {
			return img, announced, err
		}
		h, st := c.ReadN(4)
		if st != wire.Full {
			return img, announced, fmt.Errorf("READ at %d: announcement %d bytes then %s", off, len(h), st)
		}
		n := int64(wire.I32(h))
		if n <= 0 {
			return img, announced, fmt.Errorf("READ at %d of %d announced %d", off, announced, n)
		}
		d, st := c.ReadN(int(n))
		img = append(img, d...)
		if st != wire.Full {
			return img, announced, fmt.Errorf("READ at %d: body %d/%d then %s", off, len(d), n, st)
		}
		off += n
	}
	return img, announced, nil
}

// makeISOCLI runs the real make-iso tool.
func makeISOCLI(bin, dir string, ps3 bool, out string) (code int, output string) {
	args := []string{"make-iso"}
	if ps3 {
		args = append(args, "--ps3-mode")
	}
	args = append(args, dir, out)
	cmd := exec.Command(bin, args...)
	cmd.Env = append(os.Environ(), "TZ=UTC", "HOME=/nonexistent")
	b, _ := cmd.CombinedOutput()
	return cmd.ProcessState.ExitCode(), string(b)
}

type srcEntry struct {
	rel  string // "/a/b"
	dir  bool
	size int64
	os   string
}

// walkSource lists the source tree (symlinks resolved like the generator does: by Stat).
func walkSource(root string) (ents []srcEntry, err error) {
	var walk func(osdir, rel string) error
	walk = func(osdir, rel string) error {
		names, err := os.ReadDir(osdir)
		if err != nil {
			return err
		}
		for _, de := range names {
			p := filepath.Join(osdir, de.Name())
			st, err := os.Stat(p)
			if err != nil {
				return err
			}
			r := rel + "/" + de.Name()
			if st.IsDir() {
				ents = append(ents, srcEntry{rel: r, dir: true, os: p})
				if err := walk(p, r); err != nil {
					return err
				}
			} else {
				ents = append(ents, srcEntry{rel: r, size: st.Size(), os: p})
			}
		}
		return nil
	}
	err = walk(root, "")
	return
}

func childCounts(ents []srcEntry) map[string]int {
	m := map[string]int{"/": 0}
	for _, e := range ents {
		parent := filepath.Dir(e.rel)
		m[parent]++
		if e.dir {
			if _, ok := m[e.rel]; !ok {
				m[e.rel] = 0
			}
		}
	}
	return m
}

// contentProblems compares one hierarchy of a decoded image with the source tree (C07's oracle).
// upper: compare names upper-cased (primary hierarchy). full: compare every byte of big files.
func contentProblems(src iso.Source, h *iso.Hierarchy, ents []srcEntry, upper bool, full bool, r *rand.Rand, bytesCmp *int64) []string {
	var probs []string
	add := func(f string, a ...any) {
		if len(probs) < 6 {
			probs = append(probs, fmt.Sprintf(f, a...))
		}
	}
	name := func(s string) string {
		if upper {
			return strings.ToUpper(s)
		}
		return s
	}
	hn := "joliet"
	if upper {
		hn = "primary"
	}
	if h == nil || h.Root == nil {
		return []string{hn + " hierarchy could not be decoded"}
	}
	wantDirs := map[string]bool{"/": true}
	wantFiles := map[string]srcEntry{}
	for _, e := range ents {
		if e.dir {
			wantDirs[name(e.rel)] = true
		} else {
			wantFiles[name(e.rel)] = e
		}
	}
	gotDirs := map[string]bool{}
	for _, d := range h.DirPaths() {
		gotDirs[d] = true
	}
	for d := range wantDirs {
		if !gotDirs[d] {
			add("%s: directory %q of the source is missing", hn, d)
		}
	}
	for d := range gotDirs {
		if !wantDirs[d] {
			add("%s: directory %q is not in the source", hn, d)
		}
	}
	fm := h.FileMap()
	// a version suffix ";1" on file identifiers is legal in both hierarchies (the reader strips it in
	// the primary one already): tolerate it in Joliet too
	for p, f := range fm {
		if strings.HasSuffix(p, ";1") {
			if _, clash := fm[strings.TrimSuffix(p, ";1")]; !clash {
				delete(fm, p)
				fm[strings.TrimSuffix(p, ";1")] = f
			}
		}
	}
	// duplicates hidden by FileMap: count records
	nFiles := 0
	for _, d := range h.Dirs {
		nFiles += len(d.Files)
	}
	if nFiles != len(fm) {
		add("%s: %d file records but %d distinct paths (duplicate entries)", hn, nFiles, len(fm))
	}
	for p := range fm {
		if _, ok := wantFiles[p]; !ok {
			add("%s: file %q is not in the source", hn, p)
		}
	}
	paths := make([]string, 0, len(wantFiles))
	for p := range wantFiles {
		paths = append(paths, p)
	}
	sort.Strings(paths)
	for _, p := range paths {
		e := wantFiles[p]
		f, ok := fm[p]
		if !ok {
			add("%s: file %q of the source is missing", hn, p)
			continue
		}
		if f.Size != e.size {
			add("%s: file %q has size %d, source has %d (extents %v)", hn, p, f.Size, e.size, f.Extents)
			continue
		}
		if e.size == 0 {
			continue
		}
		sf, err := os.Open(e.os)
		if err != nil {
			add("harness: %v", err)
			continue
		}
		cmp := func(off, n int64) bool {
			if off < 0 {
				off = 0
			}
			if off+n > e.size {
				n = e.size - off
			}
			if n <= 0 {
				return true
			}
			a := make([]byte, n)
			b := make([]byte, n)
			if _, err := sf.ReadAt(a, off); err != nil && err != io.EOF {
				add("harness: %v", err)
				return false
			}
			if err := iso.ReadFileAt(src, f, off, b); err != nil {
				add("%s: file %q: cannot read [%d,+%d) from the image: %v", hn, p, off, n, err)
				return false
			}
			*bytesCmp += n
			if !bytes.Equal(a, b) {
				add("%s: file %q: byte at file offset %d differs from the source (extents %v)", hn, p, off+int64(firstDiffIdx(a, b)), f.Extents)
				return false
			}
			return true
		}
		if e.size <= 8<<20 || full {
			for off := int64(0); off < e.size; off += 4 << 20 {
				if !cmp(off, 4<<20) {
					break
				}
			}
		} else {
			// windows: ends, every extent border, every 4 GiB-ish border, markers, random
			pts := []int64{0, e.size - 4096, 1<<32 - 4096, 1 << 32, 0xFFFFF800 - 2048, 0xFFFFF800, 2*0xFFFFF800 - 2048, 2 * 0xFFFFF800, 1<<31 - 2048}
			for i := 0; i < 6; i++ {
				pts = append(pts, r.Int63n(e.size))
			}
			for _, pt := range pts {
				if pt >= 0 && pt < e.size && !cmp(pt-2048, 8192) {
					break
				}
			}
		}
		sf.Close()
	}
	return probs
}

// genISOTree creates a random source tree for image generation below parent/name.
func genISOTree(r *rand.Rand, parent, name string, opt tree.GenOpt, ps3 bool) (string, *tree.Node) {
	n := tree.Gen(r, opt)
	n.Name = name
	root := filepath.Join(parent, name)
	must(os.MkdirAll(root, 0o755))
	must(tree.MaterializeRoot(root, n))
	if ps3 {
		must(os.MkdirAll(filepath.Join(root, "PS3_GAME"), 0o755))
		keys := []string{"CATEGORY", "TITLE", "TITLE_ID", "VERSION", "APP_VER", "PARENTAL_LEVEL", "PS3_SYSTEM_VER"}
		fields := map[string]string{"CATEGORY": "DG", "TITLE": "Game " + name, "TITLE_ID": titleIDFor(r), "VERSION": "01.00", "APP_VER": "01.00", "PARENTAL_LEVEL": "5", "PS3_SYSTEM_VER": "03.4100"}
		// any key order, 1..7 entries, TITLE_ID always present
		r.Shuffle(len(keys), func(i, j int) { keys[i], keys[j] = keys[j], keys[i] })
		keep := keys[:1+r.Intn(len(keys))]
		has := false
		for _, k := range keep {
			if k == "TITLE_ID" {
				has = true
			}
		}
		if !has {
			keep[r.Intn(len(keep))] = "TITLE_ID"
		}
		var keyOrder []string
		if r.Intn(2) == 0 {
			keyOrder = append([]string{}, keep...)
			r.Shuffle(len(keyOrder), func(i, j int) { keyOrder[i], keyOrder[j] = keyOrder[j], keyOrder[i] })
		}
		must(os.WriteFile(filepath.Join(root, "PS3_GAME", "PARAM.SFO"), makeSFOKeyOrder(fields, keep, keyOrder), 0o644))
	}
	return root, n
}

func titleIDFor(r *rand.Rand) string {
	pre := []string{"BLES", "BLUS", "BCES", "BCUS", "NPEB", "BLJM"}[r.Intn(6)]
	return fmt.Sprintf("%s%05d", pre, r.Intn(100000))
}

func readTitleID(root string) string {
	b, err := os.ReadFile(filepath.Join(root, "PS3_GAME", "PARAM.SFO"))
	if err != nil {
		return ""
	}
	// independent mini-parser: find the TITLE_ID key through the index table
	if len(b) < 20 {
		return ""
	}
	le := func(o int) int { return int(b[o]) | int(b[o+1])<<8 | int(b[o+2])<<16 | int(b[o+3])<<24 }
	ks, ds, n := le(8), le(12), le(16)
	for i := 0; i < n && 20+16*i+16 <= len(b); i++ {
		e := 20 + 16*i
		ko := int(b[e]) | int(b[e+1])<<8
		k := ks + ko
		end := k
		for end < len(b) && b[end] != 0 {
			end++
		}
		if k < len(b) && string(b[k:end]) == "TITLE_ID" {
			dl, do := le(e+4), le(e+12)
			s := ds + do
			if s+dl <= len(b) && dl > 0 {
				return strings.TrimRight(string(b[s:s+dl]), "\x00")
			}
		}
	}
	return ""
}

// maskImage zeroes exactly the fields C18 exempts: volume creation/modification timestamps of
// sectors 16 and 17 (bytes 813..846) and, in PS3 mode, bytes 64..511 of sector 1.
func maskImage(img []byte, ps3 bool) []byte {
	b := bytes.Clone(img)
	z := func(from, to int) {
		for i := from; i < to && i < len(b); i++ {
			b[i] = 0
		}
	}
	z(16*2048+813, 16*2048+847)
	z(17*2048+813, 17*2048+847)
	if ps3 {
		z(2048+64, 2048+512)
	}
	return b
}
