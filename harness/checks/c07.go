//go:build verif

package checks

import (
	"encoding/binary"
	"encoding/hex"
	"fmt"
	"math/rand"
	"os"
	"path/filepath"
	"strings"
	"verif/refcrypt"

	"verif/iso"
	"verif/tree"
	"verif/worker"
)

type isoCase struct {
	Name    string `json:"name"`
	PS3     bool   `json:"ps3"`
	Kind    string `json:"kind"` // random | bigfile | hostile-names | wide | deep
	Shuffle int64  `json:"readdir_shuffle_seed"`
	Root    string `json:"-"`
	Entries int    `json:"entries"`
	Feature string `json:"feature"`
}

// isoTrees generates the source trees of the C07/C08 campaign below parent.
func isoTrees(e *Env, r *rand.Rand, parent string, hostileNames bool) []isoCase {
	var cases []isoCase
	n := e.Pick(80, 2000)
	for i := 0; i < n; i++ {
		ps3 := i%3 == 1
		opt := tree.GenOpt{MaxDepth: r.Intn(5), MaxEntries: 1 + r.Intn(12), MaxSize: 70000, NameLen: 1 + r.Intn(30), EmptyFiles: true}
		kind := "random"
		switch {
		case i%10 == 3:
			opt.MaxDepth, opt.MaxEntries = 8, 3
			kind = "deep"
		case i%10 == 7:
			opt.MaxDepth, opt.MaxEntries = 1, e.Pick(120, 300)
			opt.MaxSize = 3000
			kind = "wide"
		case i%10 == 9:
			opt.MaxDepth, opt.MaxEntries = 0, 0
			kind = "empty-root"
		}
		name := fmt.Sprintf("t%04d", i)
		root, spec := genISOTree(r, parent, name, opt, ps3)
		nEnt := 0
		tree.Walk(spec, "", func(string, *tree.Node) { nEnt++ })
		c := isoCase{Name: name, PS3: ps3, Kind: kind, Root: root, Entries: nEnt}
		if i%4 == 2 {
			c.Shuffle = r.Int63()
		}
		cases = append(cases, c)
	}
	// hand-made shapes: empty file before other files, only empty files, sector-multiple sizes
	mk := func(name string, ps3 bool, files map[string]int64, dirs ...string) {
		root := filepath.Join(parent, name)
		must(os.MkdirAll(root, 0o755))
		for _, d := range dirs {
			must(os.MkdirAll(filepath.Join(root, d), 0o755))
		}
		k := int64(0)
		for f, sz := range files {
			k++
			must(os.MkdirAll(filepath.Dir(filepath.Join(root, f)), 0o755))
			must(os.WriteFile(filepath.Join(root, f), tree.Content(k*131+sz, sz), 0o644))
		}
		if ps3 {
			must(os.MkdirAll(filepath.Join(root, "PS3_GAME"), 0o755))
			must(os.WriteFile(filepath.Join(root, "PS3_GAME", "PARAM.SFO"), makeSFO(map[string]string{"TITLE_ID": "BCES00104", "TITLE": "x"}, []string{"TITLE", "TITLE_ID"}), 0o644))
		}
		cases = append(cases, isoCase{Name: name, PS3: ps3, Kind: "shape", Root: root, Entries: len(files) + len(dirs), Feature: name})
	}
	mk("empty-first", false, map[string]int64{"a_empty": 0, "b": 100, "c": 2048})
	mk("empty-last", false, map[string]int64{"a": 100, "z_empty": 0})
	mk("only-empty", false, map[string]int64{"e1": 0, "e2": 0, "e3": 0})
	mk("empty-middle-ps3", true, map[string]int64{"a": 1, "b_empty": 0, "c": 2049, "d/e_empty": 0, "d/f": 4096})
	mk("sector-multiples", false, map[string]int64{"a": 2048, "b": 4096, "c": 2047, "d": 2049, "e": 1})
	mk("empty-dirs", false, map[string]int64{"x/file": 10}, "e1", "e2/e3", "x/empty")
	mk("single-file", true, map[string]int64{"only.bin": 65537})
	// PARAM.SFO whose TITLE_ID is stored in the other defined string format (0x0004: UTF-8 without
	// terminating NUL, length = number of characters): the whole TITLE_ID belongs to the product code
	mk("sfo-titleid-format-0004", true, map[string]int64{"only.bin": 3000})
	{
		sfo := makeSFO(map[string]string{"TITLE": "x", "TITLE_ID": "BCES00104"}, []string{"TITLE", "TITLE_ID"})
		ent := 20 + 16*1 // second index entry
		binary.LittleEndian.PutUint16(sfo[ent+2:], 0x0004)
		binary.LittleEndian.PutUint32(sfo[ent+4:], 9)
		must(os.WriteFile(filepath.Join(parent, "sfo-titleid-format-0004", "PS3_GAME", "PARAM.SFO"), sfo, 0o644))
	}
	// a file and a sibling directory whose names differ only in case (same identifier in the primary
	// hierarchy apart from the kind): both must be there, the directory with its own children
	mk("file-dir-case", false, map[string]int64{"name": 5, "NAME/in": 7, "NAME/sub/deep": 2049, "zz": 1})
	mk("dir-file-case", false, map[string]int64{"Data/in": 7, "data": 5, "x/Data": 3, "x/data/y": 4})
	// sibling directories one of whose names is a prefix of the other (with sub-directories below the
	// longer one, and the same again one level down): parent links are not a matter of string prefixes
	mk("prefix-siblings", false, map[string]int64{"a/x": 1, "ab/sub/y": 2, "ab/sub2/deep/z": 3, "abc/q": 4, "d1/f": 5, "d10/sub/g": 6, "d100/sub/sub/h": 7,
		"top/USR/a": 8, "top/USRDIR/in/b": 9, "top/USRDIR2/in/in/c": 10}, "a/empty", "ab/empty")
	mk("prefix-siblings-ps3", true, map[string]int64{"PS3_GAMEDATA/sub/z": 3, "PS3_GAME/USRDIR/eboot": 4, "PS3_GAME/USR/x": 1, "PS3_GAME/USRDIR/USR/y": 2, "PS3_G/x/y": 5})
	// portable names the random generator avoids: leading dot or dash, trailing dot, only dots and dashes
	mk("dot-names", false, map[string]int64{".hidden": 3, "..a": 4, "...": 5, "-dash": 6, "a.": 7, ".dir/x": 8, "trailing./y": 1, "a.b.c.d": 2, "-": 9, "_": 10, ".d2/.f": 11, "--/--": 12})
	mk("dot-names-ps3", true, map[string]int64{".hidden": 3, "PS3_GAME/.x": 4, "PS3_GAME/USRDIR/..a": 5})
	// long portable names: every length around the 64 characters that Joliet tools traditionally allow, up
	// to the longest name an image is made for; siblings that agree in their first 64 / 100 characters
	{
		long := func(n int, tail string) string {
			b := strings.Repeat("LongPortableName_0123456789-abcdefghijklmnopqrstuvwxyz.ABCDEFGHIJ", 3)[:n-len(tail)]
			return b + tail
		}
		files := map[string]int64{}
		for i, n := range []int{63, 64, 65, 66, 80, 100, 109, 110} {
			files[long(n, fmt.Sprintf(".f%d", i))] = int64(100 + i)
			files[long(n, fmt.Sprintf(".g%d", i))] = int64(3000 + i)
			files[long(n, fmt.Sprintf("_d%d", i))+"/"+long(n, ".in")] = int64(50 + i)
			files[long(n, fmt.Sprintf("_d%d", i))+"/"+long(65, "_sub")+"/x"] = int64(7 + i)
		}
		mk("long-names", false, files)
		mk("long-names-ps3", true, map[string]int64{long(65, ".a"): 1, long(65, ".b"): 2, "PS3_GAME/" + long(110, ".c"): 3, "PS3_GAME/" + long(110, ".d"): 2049})
	}
	mk("file-dir-case-ps3", true, map[string]int64{"usrdir": 5, "USRDIR/eboot.bin": 4097})
	// directories whose records end exactly on a sector border, in the primary or the Joliet hierarchy
	// ("." and ".." take 34+34 bytes; a record is 33+len+pad bytes, Joliet names take 2 bytes per character)
	for L := 1; L <= 16; L++ {
		for _, joliet := range []bool{false, true} {
			idl := L
			if joliet {
				idl = 2 * L
			}
			rec := 33 + idl + (idl+1)%2
			for k := 1; k <= 2; k++ {
				var nrec int
				if k == 1 {
					if (2048-68)%rec != 0 {
						continue
					}
					nrec = (2048 - 68) / rec
				} else {
					if 2048%rec != 0 {
						continue
					}
					nrec = (2048-68)/rec + 2048/rec // first sector as full as it gets, second one exactly full
				}
				files := map[string]int64{}
				for i := 0; i < nrec; i++ {
					files[fmt.Sprintf("%0*d", L, i)] = int64(1 + i%3)
				}
				if len(files) != nrec {
					continue
				}
				mk(fmt.Sprintf("exactfill-L%d-j%v-k%d", L, joliet, k), L%2 == 0 && false, files)
				// the same inside a sub-directory (followed by more directories)
				sub := map[string]int64{"zz/after": 3}
				for n := range files {
					sub["sub/"+n] = files[n]
				}
				mk(fmt.Sprintf("exactfill-sub-L%d-j%v-k%d", L, joliet, k), false, sub)
			}
		}
	}
	// members that look like images the server would transform when opened by themselves (a keyed
	// .iso below a PS3ISO directory, a file carrying the 3k3y watermark): inside a generated image they are
	// just files, byte for byte — this shape is always fetched through the server as well
	mk("member-looks-like-images", false, map[string]int64{"PS3ISO/x.iso": 40 * 2048, "PS3ISO/x.dkey": 32, "GAMES/k3.bin": 8192, "plain.bin": 100})
	{
		d := filepath.Join(parent, "member-looks-like-images")
		regs := []refcrypt.Region{{Start: 0, End: 1}, {Start: 6, End: 9}}
		plain := tree.Content(77, 40*2048)
		copy(plain, refcrypt.Table(regs))
		key := tree.Content(78, 16)
		must(os.WriteFile(filepath.Join(d, "PS3ISO", "x.iso"), refcrypt.BuildImage(plain, regs, key), 0o644))
		must(os.WriteFile(filepath.Join(d, "PS3ISO", "x.dkey"), []byte(hex.EncodeToString(key)), 0o644))
		k3 := tree.Content(79, 8192)
		copy(k3[maskBegin:], wmDec)
		must(os.WriteFile(filepath.Join(d, "GAMES", "k3.bin"), k3, 0o644))
	}
	// directory counts at which the Joliet path table needs more sectors than the primary one (its
	// identifiers are twice as long): every table has its own length
	for _, nd := range []int{80, 110, 300} {
		m := map[string]int64{}
		for i := 0; i < nd; i++ {
			m[fmt.Sprintf("dir%05d/f%d", i, i%3)] = int64(1 + i%7)
		}
		mk(fmt.Sprintf("dirs%d", nd), nd == 110, m)
	}
	if hostileNames {
		mk("collide-dirs-mapped", false, map[string]int64{"save#1/a": 1, "save$1/b": 2, "save#1/sub/c": 3, "other/x": 4})
		mk("collide-dirs-case", false, map[string]int64{"Data/x": 4, "DATA/y": 5, "DATA/sub/z": 6})
		// C08 space: long names, non-ASCII, colliding after mapping, many entries, > 1000 directories
		for _, l := range []int{64, 100, 110, 111, 127, 128, 200, 255} {
			mk(fmt.Sprintf("longfile%d", l), false, map[string]int64{strings.Repeat("n", l): 5, "z": 1})
			mk(fmt.Sprintf("longdir%d", l), false, map[string]int64{strings.Repeat("d", l) + "/in": 5})
		}
		mk("nonascii", false, map[string]int64{"日本語.bin": 10, "éèà.txt": 20, "ß/ü.dat": 30, "bad\xff\xfe": 3})
		mk("collide", false, map[string]int64{"a?b": 1, "a*b": 2, "a b": 3})
		mk("collide-case", false, map[string]int64{"Readme": 1, "README": 2, "readme": 3})
		mk("collide-dirs", false, map[string]int64{"d?x/1": 1, "d*x/2": 2})
		mk("longvolname-0123456789abcdef0123456789abcdef-xyz", false, map[string]int64{"f": 1})
		many := map[string]int64{}
		for i := 0; i < e.Pick(1100, 3000); i++ {
			many[fmt.Sprintf("dir%04d/f", i)] = int64(i % 5)
		}
		mk("thousand-dirs", false, many)
		wide := map[string]int64{}
		for i := 0; i < e.Pick(400, 2000); i++ {
			wide[fmt.Sprintf("file-with-a-rather-long-name-%05d.dat", i)] = int64(i % 3)
		}
		mk("hundreds-entries", false, wide)
	}
	return cases
}

// bigFileTrees creates trees with synthetic (sparse) files around the 4 GiB extent limits.
func bigFileTrees(e *Env, parent string) []isoCase {
	part := int64(0xFFFFF800)
	sizes := [][]int64{{1<<32 + 1, 5, 1, 2, 3, 4, 5, 6, 7, 8, 9, 10, 11, 12, 13, 14, 15, 16}, {2 * part, 1}}
	if e.Thorough {
		sizes = [][]int64{{1<<32 - 2048}, {1<<32 - 1, 0, 7}, {1 << 32}, {1<<32 + 1, 5}, {2*part - 1, 2 * part, 3}, {2*part + 1}, {9 << 30, 100, 1, 2, 3, 4, 5, 6, 7, 8, 9, 10, 11, 12, 13, 14}}
	}
	var cases []isoCase
	for i, set := range sizes {
		name := fmt.Sprintf("big%02d", i)
		root := filepath.Join(parent, name)
		must(os.MkdirAll(root, 0o755))
		for k, sz := range set {
			n := &tree.Node{Name: fmt.Sprintf("f%d_%d.bin", k, sz), Size: sz, Seed: int64(i*10 + k)}
			if sz > 1<<20 {
				n.Sparse = true
				n.Marks = []int64{0, part - 64, part, part + 64, 2*part - 64, 2 * part, 1<<32 - 64, 1 << 32, sz - 64, sz / 2}
				var ok []int64
				for _, m := range n.Marks {
					if m >= 0 && m+64 <= sz {
						ok = append(ok, m)
					}
				}
				n.Marks = ok
			}
			must(tree.Materialize(root, n))
		}
		cases = append(cases, isoCase{Name: name, Kind: "bigfile", Root: root, Entries: len(set), Feature: fmt.Sprint(set[:min(len(set), 3)]), Shuffle: int64(i + 1)})
	}
	return cases
}

// isoCampaign runs the shared C07/C08 campaign; prop selects whose oracle reports violations.
func isoCampaign(e *Env, prop string) {
	run := e.Run
	parent := e.Dir("W/root")
	r := e.Rng(7)
	cases := isoTrees(e, r, parent, prop == "C08")
	cases = append(cases, bigFileTrees(e, parent)...)
	p := e.Worker(worker.Config{Root: parent, BufSize: 65536}, strings.ToLower(prop), false, 0)
	defer p.Stop()
	addr := p.HostPort()
	var bytesCmp int64
	creationFailed := 0
	judge := func(c isoCase, source string, src iso.Source, size, announced int64, ents []srcEntry) {
		img, rissues := iso.Read(src, size)
		wit := map[string]any{"case": c, "image_source": source, "image_size": size}
		if prop == "C07" {
			var probs []string
			if img.Primary == nil || img.Joliet == nil {
				for _, is := range rissues {
					probs = append(probs, is.String())
				}
			}
			rr := rand.New(rand.NewSource(int64(len(c.Name))))
			var bc int64
			probs = append(probs, contentProblems(src, img.Primary, ents, true, e.Thorough, rr, &bc)...)
			probs = append(probs, contentProblems(src, img.Joliet, ents, false, e.Thorough, rr, &bc)...)
			run.Count("file_bytes_compared", bc)
			if len(probs) > 0 {
				feat := c.Kind
				if c.Feature != "" {
					feat = c.Kind + ":" + c.Feature
				}
				for _, pr := range probs {
					if strings.Contains(pr, "size 0") || strings.Contains(pr, "_empty") {
						feat = c.Kind + ":empty-file"
					}
				}
				wit["problems"] = probs
				run.Violate("tree-mismatch", feat, fmt.Sprintf("[%s via %s, ps3=%v] decoded image differs from the source tree: %s", c.Name, source, c.PS3, strings.Join(probs, "; ")), wit)
			}
			return
		}
		// C08
		opts := iso.ValidateOpts{AnnouncedSize: announced, PS3: c.PS3, ChildCount: childCounts(ents)}
		if c.PS3 {
			opts.TitleID = readTitleID(c.Root)
		}
		issues := iso.Validate(src, img, opts)
		for _, is := range rissues {
			if !strings.HasPrefix(is.ID, "R-escape") {
				issues = append(issues, is)
			}
		}
		seen := map[string]bool{}
		for _, is := range issues {
			if seen[is.ID] {
				continue
			}
			seen[is.ID] = true
			feat := c.Kind
			if c.Feature != "" {
				feat = c.Kind + ":" + c.Feature
			}
			wit["all_issues"] = issueStrings(issues)
			run.Violate(is.ID, feat, fmt.Sprintf("[%s via %s, ps3=%v, %d entries] %s", c.Name, source, c.PS3, c.Entries, is.Detail), wit)
		}
	}
	ParallelDo(len(cases), 8, func(i int) {
		c := cases[i]
		ents, err := walkSource(c.Root)
		must(err)
		rel := "/" + c.Name
		run.Eval(1)
		// (a) library view, one sequential read
		v, _, err, perr := libOpenImage(parent, rel, c.PS3, c.Shuffle)
		if perr != nil || err != nil {
			creationFailed++
			run.Count("image_creation_failed", 1)
			if prop == "C07" {
				// C07's space contains only portable names: creation must succeed
				run.Violate("creation-failed", c.Kind, fmt.Sprintf("[%s ps3=%v] NewVirtualISO failed on a tree of portable names: err=%v panic=%v", c.Name, c.PS3, err, perr), map[string]any{"case": c})
			}
			return
		}
		st, _ := v.Stat()
		announced := st.Size()
		sig := fmt.Sprintf("%s ps3=%v shuffle=%v", c.Kind, c.PS3, c.Shuffle != 0)
		if c.Kind == "bigfile" {
			tmp := filepath.Join(e.Scratch, c.Name+".img")
			n, err, perr := streamToSparse(v, tmp)
			v.Close()
			defer os.Remove(tmp)
			if perr != nil || err != nil {
				run.Violate("sequential-read-failed", "bigfile:"+c.Feature, fmt.Sprintf("[%s] sequential read of the image stopped at %d of %d: err=%v panic=%v", c.Name, n, announced, err, perr), map[string]any{"case": c})
				return
			}
			f, err := os.Open(tmp)
			must(err)
			defer f.Close()
			judge(c, "library", f, n, announced, ents)
			run.Sig("%s via library", sig)
			return
		}
		img, err, perr := readAllSeq(v, 65536, announced+1<<20)
		v.Close()
		if perr != nil || err != nil {
			feat := c.Kind
			if c.Feature != "" {
				feat += ":" + c.Feature
			}
			hasEmpty := false
			for _, en := range ents {
				if !en.dir && en.size == 0 {
					hasEmpty = true
				}
			}
			if hasEmpty {
				feat = c.Kind + ":has-empty-file"
			}
			run.Violate("sequential-read-failed", feat, fmt.Sprintf("[%s ps3=%v] sequential read of the image stopped at %d of %d: err=%v panic=%v", c.Name, c.PS3, len(img), announced, err, perr), map[string]any{"case": c})
			return
		}
		judge(c, "library", memSource(img), int64(len(img)), announced, ents)
		run.Sig("%s via library", sig)
		if prop == "C07" && !c.PS3 && len(img) <= 64<<20 && (c.Kind == "random" || c.Kind == "deep" || c.Kind == "wide" || c.Kind == "empty-root" || c.Kind == "shape") {
			if probs, ran := thirdPartyProblems(e.Scratch, c.Name, img, ents); ran {
				run.Count("images_decoded_by_bsdtar_too", 1)
				run.Sig("%s via library, decoded by bsdtar", sig)
				if len(probs) > 0 {
					feat := c.Kind
					if c.Feature != "" {
						feat += ":" + c.Feature
					}
					run.Violate("tree-mismatch-third-party-reader", feat, fmt.Sprintf("[%s via library, ps3=false] libarchive's bsdtar decodes the image differently from the source tree: %s", c.Name, strings.Join(probs, "; ")), map[string]any{"case": c, "problems": probs})
				}
			}
		}
		// (b) over the network
		if i%e.Pick(3, 2) == 0 || strings.HasPrefix(c.Name, "member-looks") {
			pre := "/***DVD***"
			if c.PS3 {
				pre = "/***PS3***"
			}
			nimg, nann, err := netFetchImage(addr, pre+rel, e.Watchdog, 512<<20)
			if err != nil {
				run.Violate("network-fetch-failed", c.Kind, fmt.Sprintf("[%s] fetching the image through the server failed: %v", c.Name, err), map[string]any{"case": c})
			} else {
				judge(c, "network", memSource(nimg), int64(len(nimg)), nann, ents)
				run.Sig("%s via network", sig)
			}
		}
		// (c) make-iso
		if e.Bin != "" && i%e.Pick(4, 2) == 1 {
			out := filepath.Join(e.Scratch, c.Name+".cli.iso")
			code, output := makeISOCLI(e.Bin, c.Root, c.PS3, out)
			if code != 0 {
				run.Violate("make-iso-failed", c.Kind, fmt.Sprintf("[%s] make-iso exit %d: %s", c.Name, code, firstLines(output, 6)), map[string]any{"case": c})
			} else {
				b, err := os.ReadFile(out)
				must(err)
				judge(c, "make-iso", memSource(b), int64(len(b)), 0, ents)
				run.Sig("%s via make-iso", sig)
			}
			os.Remove(out)
		}
		// the directory changes (another game under the same name: new TITLE_ID, a file added, one
		// resized) and is opened again in the same processes: the new image describes the new tree
		if c.Kind != "bigfile" && i%e.Pick(3, 2) == 2 {
			pre := "/***DVD***"
			if c.PS3 {
				pre = "/***PS3***"
			}
			netFetchImage(addr, pre+rel, e.Watchdog, 512<<20) // make sure the server has seen the old tree
			if c.PS3 {
				old := readTitleID(c.Root)
				nid := "NPUB" + fmt.Sprintf("%05d", (i*7919)%100000)
				if nid == old {
					nid = "NPUA00001"
				}
				must(os.WriteFile(filepath.Join(c.Root, "PS3_GAME", "PARAM.SFO"), makeSFO(map[string]string{"TITLE": "replaced", "TITLE_ID": nid}, []string{"TITLE_ID", "TITLE"}), 0o644))
			}
			must(os.WriteFile(filepath.Join(c.Root, "zz-added-later.bin"), tree.Content(int64(i), 5000), 0o644))
			for _, en := range ents {
				if !en.dir && en.size > 0 && !strings.Contains(en.rel, "PARAM.SFO") {
					must(os.WriteFile(en.os, tree.Content(int64(i)+1, en.size+2049), 0o644))
					break
				}
			}
			ents2, err := walkSource(c.Root)
			must(err)
			c2 := c
			c2.Feature = "changed-then-reopened"
			if v2, _, err, perr := libOpenImage(parent, rel, c.PS3, 0); err == nil && perr == nil {
				st2, _ := v2.Stat()
				img2, err, perr := readAllSeq(v2, 65536, st2.Size()+1<<20)
				v2.Close()
				if err == nil && perr == nil {
					judge(c2, "library, after the tree changed", memSource(img2), int64(len(img2)), st2.Size(), ents2)
				}
			} else {
				run.Violate("creation-failed", "changed-then-reopened", fmt.Sprintf("[%s] image of the changed tree could not be created: err=%v panic=%v", c.Name, err, perr), map[string]any{"case": c})
			}
			if nimg, nann, err := netFetchImage(addr, pre+rel, e.Watchdog, 512<<20); err == nil {
				judge(c2, "network, after the tree changed", memSource(nimg), int64(len(nimg)), nann, ents2)
			} else {
				run.Violate("network-fetch-failed", "changed-then-reopened", fmt.Sprintf("[%s] %v", c.Name, err), map[string]any{"case": c})
			}
			run.Sig("%s changed-then-reopened", sig)
		}
		if i%max(1, len(cases)/6) == 0 {
			run.Sample(map[string]any{"case": c, "image_size": len(img), "source_entries": len(ents)})
		}
	})
	_ = bytesCmp
	run.Obs("trees", len(cases))
	CrashCheck(e, p, strings.ToLower(prop)+" worker", nil)
}

func issueStrings(is []iso.Issue) []string {
	var out []string
	for _, i := range is {
		out = append(out, i.String())
	}
	if len(out) > 20 {
		out = out[:20]
	}
	return out
}

func C07(e *Env) {
	e.Run.Rule = "cases: source trees (random: depth 0..8, 0..300 entries per directory, sizes from {0,1,2047,2048,2049,64KiB+-1,random}, empty directories, empty files before/after other files, shuffled readdir order; synthetic sparse files around 4 GiB / 2x0xFFFFF800 / 9 GiB) x mode {plain, PS3} x image source {library sequential read, network, make-iso}; each image is decoded by the independent reader (verif/iso) and both hierarchies are compared with the source tree (directories, files, sizes, bytes; primary names upper-cased); non-trivial = distinct (tree kind, mode, shuffle, image source)"
	isoCampaign(e, "C07")
}

func C08(e *Env) {
	e.Run.Rule = "cases: the C07 trees plus hostile names (long names up to 255 bytes, non-ASCII, colliding after mapping, hundreds of entries, >1000 directories) for which image creation succeeds; every produced image (library, network, make-iso) is checked by the strict validator against exactly the invariants V01..V11 of DESIGN.md Appendix C; non-trivial = distinct (tree kind, mode, image source)"
	isoCampaign(e, "C08")
}
