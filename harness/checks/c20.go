//go:build verif

package checks

import (
	"bytes"
	"encoding/hex"
	"fmt"
	"os"
	"os/exec"
	"path/filepath"
	"strings"
	"time"

	"verif/model"
	"verif/refcrypt"
	"verif/tree"
	"verif/worker"
)

type cliResult struct {
	code   int
	stdout []byte
	stderr []byte
}

func runCLI(bin string, cwd string, args ...string) cliResult {
	cmd := exec.Command(bin, args...)
	cmd.Dir = cwd
	cmd.Env = append(os.Environ(), "TZ=UTC", "HOME=/nonexistent")
	var so, se bytes.Buffer
	cmd.Stdout, cmd.Stderr = &so, &se
	cmd.Run()
	code := -1
	if cmd.ProcessState != nil {
		code = cmd.ProcessState.ExitCode()
	}
	return cliResult{code, so.Bytes(), se.Bytes()}
}

func C20(e *Env) {
	run := e.Run
	run.Rule = "cases: tool invocations — make-iso on random trees in both modes (output compared with the image the server serves for the same directory, C18 mask), decrypt redump / 3k3y on random encrypted images (output to a new file and to '-' compared with refcrypt's plaintext with cleared region table; then placed under a served root inside and outside PS3ISO and fetched back: must come back byte-identical), and every tool with an output path that already exists (regular file, directory, symlink to a file): the existing object must be unchanged (snapshot) and the exit status non-zero; non-trivial = distinct (tool, mode/format, output kind, served-back location)"
	if e.Bin == "" {
		fatalf("C20 needs the CLI binary")
	}
	if _, err := refcrypt.SelfCheck(); err != nil {
		fatalf("refcrypt self-check: %v", err)
	}
	root := e.Dir("W/root")
	out := e.Dir("out")
	r := e.Rng(20)
	must(os.MkdirAll(filepath.Join(root, "PS3ISO"), 0o755))
	must(os.MkdirAll(filepath.Join(root, "GAMES"), 0o755))
	p := e.Worker(worker.Config{Root: root, BufSize: 65536}, "c20", false, 0)
	defer p.Stop()
	addr := p.HostPort()

	// ---------------------------------------------------------------- make-iso
	nTrees := e.Pick(30, 4000)
	for i := 0; i < nTrees; i++ {
		ps3 := i%2 == 1
		name := fmt.Sprintf("t%03d", i)
		// half of the plain-mode runs get a tree that looks like a game (valid PS3_GAME/PARAM.SFO): the mode
		// is what the flag says, not what the tree looks like
		looksPS3 := ps3 || i%4 == 0
		dir, _ := genISOTree(r, root, name, tree.GenOpt{MaxDepth: r.Intn(4), MaxEntries: 1 + r.Intn(10), MaxSize: 70000, NameLen: 14, EmptyFiles: true}, looksPS3)
		outFile := filepath.Join(out, name+".iso")
		// the output file's name is the operator's choice: one run in four names it like something inside
		// the tree (written elsewhere, so it is not a member): the image is that of the whole tree all the same
		outNamedLikeMember := ""
		if i%4 == 2 {
			var members []string
			filepath.WalkDir(dir, func(p string, d os.DirEntry, err error) error {
				if err == nil && p != dir {
					members = append(members, filepath.Base(p))
				}
				return nil
			})
			if len(members) > 0 {
				must(os.MkdirAll(filepath.Join(out, "named"), 0o755))
				outNamedLikeMember = members[r.Intn(len(members))]
				outFile = filepath.Join(out, "named", outNamedLikeMember)
			}
		}
		args := []string{"make-iso"}
		if ps3 {
			args = append(args, "--ps3-mode")
		}
		// the same directory can be named in many ways (shell completion appends a slash)
		spelled, spelling := dir, "absolute"
		relDir, _ := filepath.Rel(out, dir)
		switch i % 7 {
		case 1, 2:
			spelled, spelling = dir+"/", "absolute, trailing slash"
		case 3:
			spelled, spelling = dir+"/.", "absolute, trailing /."
		case 4:
			spelled, spelling = filepath.Dir(dir)+"/./"+filepath.Base(dir)+"//", "absolute with /./ and //"
		case 5:
			spelled, spelling = relDir, "relative"
		case 6:
			spelled, spelling = relDir+"/", "relative, trailing slash"
		}
		res := runCLI(e.Bin, out, append(args, spelled, outFile)...)
		run.Eval(1)
		run.Sig("make-iso ps3=%v dir spelled %s", ps3, spelling)
		if outNamedLikeMember != "" {
			run.Sig("make-iso ps3=%v output named like a member", ps3)
		}
		wit := map[string]any{"tool": "make-iso", "ps3": ps3, "tree": name, "directory_argument": spelled, "output_file": outFile, "exit": res.code, "stderr": firstLines(string(res.stderr), 6)}
		if res.code != 0 {
			run.Violate("tool-failed", "make-iso", fmt.Sprintf("make-iso on a tree of portable names exited %d: %s", res.code, firstLines(string(res.stderr)+string(res.stdout), 4)), wit)
			continue
		}
		got, err := os.ReadFile(outFile)
		must(err)
		pre := "/***DVD***/"
		if ps3 {
			pre = "/***PS3***/"
		}
		served, ann, err := netFetchImage(addr, pre+name, e.Watchdog, 1<<30)
		if err != nil {
			run.Violate("served-image-unavailable", "make-iso", fmt.Sprintf("the server could not serve the image of the same directory: %v", err), wit)
			continue
		}
		if int64(len(got)) != ann || !bytes.Equal(maskImage(got, ps3), maskImage(served, ps3)) {
			d := firstDiffIdx(maskImage(got, ps3), maskImage(served, ps3))
			run.Violate("make-iso-differs", fmt.Sprintf("ps3=%v,dir=%s", ps3, spelling), fmt.Sprintf("[directory given as %q] make-iso output (%d bytes) differs from the image the server serves for the same directory (%d bytes) at offset %d (sector %d)", spelled, len(got), ann, d, d/2048), wit)
		}
		os.Remove(outFile)
		// the same to standard output
		res2 := runCLI(e.Bin, out, append(args, dir, "-")...)
		run.Eval(1)
		run.Sig("make-iso ps3=%v to stdout", ps3)
		if res2.code != 0 {
			run.Violate("tool-failed", "make-iso-stdout", fmt.Sprintf("make-iso to '-' exited %d: %s", res2.code, firstLines(string(res2.stderr), 4)), wit)
		} else if int64(len(res2.stdout)) != ann || !bytes.Equal(maskImage(res2.stdout, ps3), maskImage(served, ps3)) {
			d := firstDiffIdx(maskImage(res2.stdout, ps3), maskImage(served, ps3))
			run.Violate("make-iso-differs", fmt.Sprintf("stdout,ps3=%v", ps3), fmt.Sprintf("make-iso to standard output wrote %d bytes, the served image has %d; first difference at offset %d (stdout starts with %q)", len(res2.stdout), ann, d, string(res2.stdout[:min(len(res2.stdout), 50)])), wit)
		}
		if i < 2 {
			run.Sample(wit)
		}
	}

	// ---------------------------------------------------------------- decrypt
	nImg := e.Pick(60, 12000)
	for i := 0; i < nImg; i++ {
		format := []string{"redump", "3k3y"}[i%2]
		sectors := 16 + r.Intn(200)
		c := c10Case{Key: randBytes(r, 16), Sectors: sectors, Seed: r.Int63()}
		c.Regions, c.Shape = genRegions(r, sectors)
		// one image in three does not end on a sector border (the incomplete last sector is stored as it is)
		tail := 0
		if i%3 == 2 {
			tail = []int{1, 7, 1000, 2047, 1 + r.Intn(2047)}[r.Intn(5)]
		}
		c.Tail = tail
		plain := tree.Content(c.Seed, int64(sectors*2048+tail))
		// what a real dump looks like: a whole number of MiB whose last blocks are nothing but zeros (in
		// plaintext; stored encrypted when the region table says so)
		zeroTail := i%8 == 5 || i%8 == 6
		if zeroTail {
			sectors = 512 * (2 + r.Intn(2))
			c.Sectors, c.Tail, tail = sectors, 0, 0
			plain = tree.Content(c.Seed, int64(sectors*2048))
			clear(plain[len(plain)-(1<<20)-r.Intn(300000):])
			if i%8 == 5 {
				c.Regions, c.Shape = []refcrypt.Region{{Start: 0, End: 3}, {Start: uint32(sectors - 40), End: uint32(sectors - 1)}}, "zero-tail-mostly-encrypted"
			} else {
				c.Regions, c.Shape = []refcrypt.Region{{Start: 0, End: 3}, {Start: 100, End: uint32(sectors + 5)}}, "zero-tail-plain"
			}
		}
		if format == "3k3y" {
			// sector 1 (holding the watermark area start) must be plain: region 0 covers sectors 0..1
			c.Regions = []refcrypt.Region{{Start: 0, End: 1}, {Start: uint32(4 + r.Intn(4)), End: uint32(sectors/2 + 2)}, {Start: uint32(sectors/2 + 5 + r.Intn(3)), End: uint32(sectors + 10)}}
			copy(plain, make([]byte, 32))
		}
		copy(plain, refcrypt.Table(c.Regions))
		if format == "3k3y" {
			copy(plain[maskBegin:], wmEnc)
			copy(plain[maskBegin+16:], c.Key)
		}
		stored := refcrypt.BuildImage(plain, c.Regions, c.Key)
		want := refcrypt.Plaintext(stored, c.Regions, c.Key, true)
		in := filepath.Join(out, fmt.Sprintf("in%03d.iso", i))
		keyf := filepath.Join(out, fmt.Sprintf("in%03d.dkey", i))
		must(os.WriteFile(in, stored, 0o644))
		must(os.WriteFile(keyf, []byte(hex.EncodeToString(c.Key)), 0o644))
		inBefore := model.Snapshot(in)
		for _, target := range []string{"file", "stdout", "stdout-to-file"} {
			outFile := filepath.Join(out, fmt.Sprintf("dec%03d.iso", i))
			dst := outFile
			if target != "file" {
				dst = "-"
			}
			if target == "stdout-to-file" && !zeroTail && i%5 != 0 {
				continue
			}
			var args []string
			if format == "redump" {
				args = []string{"decrypt", "redump", in, keyf, dst}
			} else {
				args = []string{"decrypt", "3k3y", in, dst}
			}
			var res cliResult
			if target == "stdout-to-file" {
				// "decrypt ... - > image.iso": standard output is a regular file, not a pipe
				of, err := os.Create(outFile + ".redirected")
				must(err)
				cmd := exec.Command(e.Bin, args...)
				cmd.Dir = out
				cmd.Env = append(os.Environ(), "TZ=UTC", "HOME=/nonexistent")
				var se bytes.Buffer
				cmd.Stdout, cmd.Stderr = of, &se
				cmd.Run()
				of.Close()
				res = cliResult{code: cmd.ProcessState.ExitCode(), stderr: se.Bytes()}
				res.stdout, _ = os.ReadFile(outFile + ".redirected")
				os.Remove(outFile + ".redirected")
			} else {
				res = runCLI(e.Bin, out, args...)
			}
			run.Eval(1)
			run.Sig("decrypt %s -> %s (%s)", format, target, c.Shape)
			wit := map[string]any{"tool": "decrypt " + format, "output": target, "regions": c.Regions, "sectors": sectors, "exit": res.code, "stderr": firstLines(string(res.stderr), 5)}
			if res.code != 0 {
				run.Violate("tool-failed", "decrypt-"+format, fmt.Sprintf("decrypt %s of a valid image exited %d: %s", format, res.code, firstLines(string(res.stderr)+string(res.stdout[:min(len(res.stdout), 300)]), 4)), wit)
				continue
			}
			var got []byte
			if target != "file" {
				got = res.stdout
			} else {
				got, _ = os.ReadFile(outFile)
			}
			dc := [][2]int64(nil)
			if format == "3k3y" {
				dc = [][2]int64{{maskBegin, maskEnd}} // what becomes of the watermark/key area is judged by the serve-back test
			}
			if d := diffWithDC(got, want, dc, 0); d != "" {
				extra := ""
				if target != "file" && len(got) > len(want) && bytes.HasSuffix(got, want[len(want)-4096:]) {
					extra = fmt.Sprintf(" (standard output starts with %q)", string(got[:min(60, len(got)-len(want))]))
				}
				run.Violate("decrypt-output-differs", format+"-to-"+target, fmt.Sprintf("decrypt %s to %s: output differs from the reference plaintext with cleared region table: %s%s", format, target, d, extra), wit)
				os.Remove(outFile)
				continue
			}
			if target == "file" {
				// served back from PS3ISO (no key beside it) and from elsewhere: byte-identical
				for _, loc := range []string{"PS3ISO", "GAMES"} {
					name := fmt.Sprintf("back%03d.iso", i)
					must(os.WriteFile(filepath.Join(root, loc, name), got, 0o644))
					served, _, err := netFetchImage(addr, "/"+loc+"/"+name, e.Watchdog, 1<<30)
					run.Eval(1)
					run.Sig("serve-back %s from %s", format, loc)
					if err != nil {
						run.Violate("serve-back-failed", format+"-from-"+loc, fmt.Sprintf("the decrypt output of a %s image placed in /%s cannot be fetched back: %v", format, loc, err), wit)
					} else if !bytes.Equal(served, got) {
						d := firstDiffIdx(served, got)
						run.Violate("serve-back-transformed", format+"-from-"+loc, fmt.Sprintf("the decrypt output of a %s image placed in /%s is served back altered (first difference at %#x): a second transformation was applied", format, loc, d), wit)
					}
					os.Remove(filepath.Join(root, loc, name))
				}
			}
			os.Remove(outFile)
		}
		if d := model.SnapDiff(inBefore, model.Snapshot(in), nil); len(d) > 0 {
			run.Violate("input-modified", format, fmt.Sprintf("decrypt modified its input image: %v", d), nil)
		}
		os.Remove(in)
		os.Remove(keyf)
	}

	// ---------------------------------------------------------------- existing outputs are never touched
	regs := []refcrypt.Region{{Start: 0, End: 1}, {Start: 5, End: 40}}
	plain := tree.Content(99, 30*2048)
	copy(plain, refcrypt.Table(regs))
	key := randBytes(r, 16)
	in := filepath.Join(out, "clobber-in.iso")
	must(os.WriteFile(in, refcrypt.BuildImage(plain, regs, key), 0o644))
	keyf := filepath.Join(out, "clobber.dkey")
	must(os.WriteFile(keyf, []byte(hex.EncodeToString(key)), 0o644))
	p3 := bytes.Clone(plain)
	copy(p3[maskBegin:], wmEnc)
	copy(p3[maskBegin+16:], key)
	in3 := filepath.Join(out, "clobber-in3.iso")
	must(os.WriteFile(in3, refcrypt.BuildImage(p3, regs, key), 0o644))
	srcDir, _ := genISOTree(r, root, "clobbertree", tree.GenOpt{MaxDepth: 1, MaxEntries: 4, MaxSize: 5000, NameLen: 8}, false)
	victims := e.Dir("victims")
	for vi, kind := range []string{"existing-file", "existing-empty-file", "existing-directory", "symlink-to-file", "existing-big-file", "new-path-with-existing-.part", "new-path-with-existing-.tmp"} {
		for ti, tool := range [][]string{{"make-iso", srcDir}, {"make-iso", "--ps3-mode", srcDir}, {"decrypt", "redump", in, keyf}, {"decrypt", "3k3y", in3}} {
			target := filepath.Join(victims, fmt.Sprintf("v%d_%d", vi, ti))
			switch kind {
			case "existing-file":
				must(os.WriteFile(target, []byte("precious data that must survive"), 0o600))
			case "existing-empty-file":
				must(os.WriteFile(target, nil, 0o644))
			case "existing-directory":
				must(os.MkdirAll(filepath.Join(target, "inner"), 0o755))
				must(os.WriteFile(filepath.Join(target, "inner", "f"), []byte("x"), 0o644))
			case "symlink-to-file":
				must(os.WriteFile(target+".real", []byte("the link's target, must survive"), 0o644))
				must(os.Symlink(target+".real", target))
			case "existing-big-file":
				must(os.WriteFile(target, tree.Content(int64(vi*10+ti), 3<<20), 0o644))
			case "new-path-with-existing-.part":
				must(os.WriteFile(target+".part", []byte("somebody else's partial download, must survive"), 0o644))
			case "new-path-with-existing-.tmp":
				must(os.WriteFile(target+".tmp", []byte("another file that merely looks temporary"), 0o644))
				must(os.WriteFile(target+"~", []byte("editor backup"), 0o644))
			}
			newPath := strings.HasPrefix(kind, "new-path")
			before := model.Snapshot(victims)
			res := runCLI(e.Bin, out, append(append([]string{}, tool...), target)...)
			after := model.Snapshot(victims)
			run.Eval(1)
			run.Sig("%s onto %s", strings.Join(tool[:min(2, len(tool))], " "), kind)
			wit := map[string]any{"tool": tool, "target_kind": kind, "exit": res.code, "stderr": firstLines(string(res.stderr), 4)}
			var allow []string
			if newPath {
				allow = []string{target} // the output itself is new; everything that existed must be as before
			}
			if d := model.SnapDiff(before, after, allow); len(d) > 0 {
				run.Violate("clobbered", kind, fmt.Sprintf("%v with an already existing output (%s) changed it: %v", tool[:2], kind, d), wit)
			}
			if newPath {
				os.Remove(target)
			} else if res.code == 0 {
				run.Violate("clobber-exit-zero", kind, fmt.Sprintf("%v with an already existing output (%s) exited 0", tool[:2], kind), wit)
			}
		}
	}
	// ---------------------------------------------------------------- an output that appears while the tool starts
	// "Never overwrites an already existing output file" also covers a file that another process
	// creates between the tool's look at the path and its opening of it. The window is made
	// deterministic with strace: every stat-family call of the tool is held for a while *after* the
	// kernel has answered it; the monitor watches the trace and, as soon as the tool has been told
	// "no such file" for its output path, creates that file exclusively (so it provably existed
	// before the tool opened anything there). Whatever the tool does next, the file must stay as
	// created.
	if _, err := exec.LookPath("strace"); err != nil {
		run.Assume("strace not available: the appearing-output window was not explored")
	} else {
		sentinel := bytes.Repeat([]byte("created by somebody else while the tool was starting; must survive. "), 4000)
		for ti, tool := range [][]string{{"make-iso", srcDir}, {"decrypt", "redump", in, keyf}, {"decrypt", "3k3y", in3}} {
			target := filepath.Join(victims, fmt.Sprintf("appearing_%d.iso", ti))
			trace := filepath.Join(out, fmt.Sprintf("appearing_%d.strace", ti))
			os.Remove(target)
			os.Remove(trace)
			args := append([]string{"-f", "-qq", "-o", trace, "-e", "trace=newfstatat,statx,stat,lstat,access,faccessat,faccessat2", "-e", "inject=newfstatat,statx,stat,lstat,access,faccessat,faccessat2:delay_exit=250000", e.Bin}, append(append([]string{}, tool...), target)...)
			cmd := exec.Command("strace", args...)
			cmd.Dir = out
			cmd.Env = append(os.Environ(), "TZ=UTC", "HOME=/nonexistent")
			var se bytes.Buffer
			cmd.Stderr = &se
			must(cmd.Start())
			done := make(chan struct{})
			go func() { cmd.Wait(); close(done) }()
			planted, sawLook := false, false
		watch:
			for {
				select {
				case <-done:
					break watch
				default:
				}
				if b, err := os.ReadFile(trace); err == nil && !planted {
					for _, ln := range strings.Split(string(b), "\n") {
						if strings.Contains(ln, "\""+target+"\"") && strings.Contains(ln, "ENOENT") {
							sawLook = true
							if f, err := os.OpenFile(target, os.O_WRONLY|os.O_CREATE|os.O_EXCL, 0o600); err == nil {
								f.Write(sentinel)
								f.Close()
								planted = true
							}
							break
						}
					}
				}
				time.Sleep(2 * time.Millisecond)
			}
			run.Eval(1)
			wit := map[string]any{"tool": tool, "target": target, "exit": cmd.ProcessState.ExitCode(), "stderr": firstLines(se.String(), 4)}
			switch {
			case !sawLook:
				// the tool never asked whether the path exists before opening it: no window of this kind
				run.Count("appearing_output_no_lookup_seen", 1)
				run.Sig("%s with an output appearing: no separate look at the path", strings.Join(tool[:min(2, len(tool))], " "))
			case !planted:
				run.Count("appearing_output_not_planted", 1)
			default:
				run.Sig("%s with an output appearing after the tool looked", strings.Join(tool[:min(2, len(tool))], " "))
				run.Count("appearing_output_planted", 1)
				got, err := os.ReadFile(target)
				if err != nil || !bytes.Equal(got, sentinel) {
					d := -1
					if err == nil {
						d = firstDiffIdx(got, sentinel)
					}
					run.Violate("clobbered", "appeared-after-lookup", fmt.Sprintf("%v: the output path did not exist when the tool looked, another process then created it (exclusively, %d bytes) before the tool opened it; afterwards the file is changed (err=%v, length %d, first difference at %d, tool exit %d)", tool[:2], len(sentinel), err, len(got), d, cmd.ProcessState.ExitCode()), wit)
				}
			}
			os.Remove(target)
		}
	}
	CrashCheck(e, p, "c20 worker", nil)
}
