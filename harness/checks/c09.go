//go:build verif

package checks

import (
	"bytes"
	"fmt"
	"io"
	"math/rand"
	"os"
	"os/exec"
	"path/filepath"
	"sort"

	rfs "github.com/xakep666/ps3netsrv-go/pkg/fs"

	"verif/host"
	"verif/iso"
	"verif/model"
	"verif/spyfs"
	"verif/tree"
	"verif/wire"
	"verif/worker"
)

var c09Sizes = []int64{0, 1, 2047, 2048, 2049}

type c09Tree struct {
	Name  string  `json:"name"`
	Sizes []int64 `json:"file_sizes"`
	PS3   bool    `json:"ps3"`
}

// structuralBoundaries derives the zone borders of an image from its own directory records:
// start of each file, unpadded end, padded end, first file LBA (end of metadata), end of the last
// file's padding (start of the pad area), total size.
func structuralBoundaries(img []byte) []int64 {
	set := map[int64]bool{0: true, int64(len(img)): true}
	im, _ := iso.Read(memSource(img), int64(len(img)))
	if im != nil && im.Joliet != nil {
		var last int64
		for _, f := range im.Joliet.FileMap() {
			for _, x := range f.Extents {
				s := int64(x.LBA) * 2048
				set[s] = true
				set[s+int64(x.Len)] = true
				pe := s + (int64(x.Len)+2047)/2048*2048
				set[pe] = true
				last = max(last, pe)
			}
		}
		for _, d := range im.Joliet.Dirs {
			set[int64(d.LBA)*2048] = true
			set[int64(d.LBA)*2048+int64(d.Len)] = true
		}
		if last > 0 {
			set[last] = true
		}
	}
	var out []int64
	for b := range set {
		for _, d := range []int64{-1, 0, 1} {
			if b+d >= 0 && b+d <= int64(len(img))+1 {
				out = append(out, b+d)
			}
		}
	}
	sort.Slice(out, func(i, j int) bool { return out[i] < out[j] })
	// dedupe
	k := 0
	for i, v := range out {
		if i == 0 || v != out[k-1] {
			out[k] = v
			k++
		}
	}
	return out[:k]
}

func zoneOf(bounds []int64, off int64) int {
	return sort.Search(len(bounds), func(i int) bool { return bounds[i] > off })
}

func C09(e *Env) {
	run := e.Run
	run.Rule = "cases: (tree, operation) — exhaustive small scope: all trees of <=k files with sizes from {0,1,2047,2048,2049} x all (offset,length) pairs drawn from the image's structural boundaries +-1 (metadata end, file starts, unpadded and padded ends, pad-area start, total size), each as ReadAt and as Seek+Read; plus random Read/Seek/ReadAt sequences (n up to 1 MiB, offsets in [0,size+4096], all whence values) on random trees, on a fresh object and after a sequential pass; plus the same offsets through READ/READCRIT over the network; every call's (n, err, bytes) is checked against the canonical image = one sequential read; non-trivial = distinct (zone of start, zone of end, alignment, op kind)"
	parent := e.Dir("W/root")
	maxFiles := e.Pick(3, 4)
	var trees []c09Tree
	var rec func(prefix []int64)
	rec = func(prefix []int64) {
		if len(prefix) > 0 {
			trees = append(trees, c09Tree{Name: fmt.Sprintf("s%05d", len(trees)), Sizes: append([]int64(nil), prefix...), PS3: len(trees)%7 == 3})
		}
		if len(prefix) == maxFiles {
			return
		}
		for _, s := range c09Sizes {
			rec(append(prefix, s))
		}
	}
	rec(nil)
	run.Obs("small_scope_trees", len(trees))
	build := func(t c09Tree) string {
		root := filepath.Join(parent, t.Name)
		must(os.MkdirAll(root, 0o755))
		for i, sz := range t.Sizes {
			must(os.WriteFile(filepath.Join(root, fmt.Sprintf("f%d.bin", i)), tree.Content(int64(i)*7+sz+3, sz), 0o644))
		}
		if t.PS3 {
			must(os.MkdirAll(filepath.Join(root, "PS3_GAME"), 0o755))
			must(os.WriteFile(filepath.Join(root, "PS3_GAME", "PARAM.SFO"), makeSFO(map[string]string{"TITLE_ID": "BLUS30001"}, []string{"TITLE_ID"}), 0o644))
		}
		return root
	}
	var opsTotal int64
	checkTree := func(t c09Tree, rel string, ps3 bool, exhaustive bool, r *rand.Rand, nRandom int) {
		wit := map[string]any{"tree": t}
		// canonical image: one sequential pass on its own object
		v0, _, err, perr := libOpenImage(parent, rel, ps3, 0)
		if err != nil || perr != nil {
			run.Violate("creation-failed", "small-tree", fmt.Sprintf("[%v] NewVirtualISO failed: err=%v panic=%v", t.Sizes, err, perr), wit)
			return
		}
		st, _ := v0.Stat()
		announced := st.Size()
		canon, err, perr := readAllSeq(v0, 32768, announced+1<<20)
		if perr != nil {
			run.Violate("panic", "sequential:"+panicClass(perr), fmt.Sprintf("[sizes %v] sequential read panicked at %d: %v", t.Sizes, len(canon), perr), wit)
			v0.Close()
			return
		}
		if err != nil || int64(len(canon)) != announced {
			feat := "sequential"
			for _, s := range t.Sizes {
				if s == 0 {
					feat = "sequential:has-empty-file"
				}
			}
			run.Violate("sequential-read", feat, fmt.Sprintf("[sizes %v ps3=%v] one sequential read delivered %d bytes, announced %d, err=%v", t.Sizes, ps3, len(canon), announced, err), wit)
			v0.Close()
			return
		}
		bounds := structuralBoundaries(canon)
		// the same object after the sequential pass, and a fresh object (masked: own timestamps)
		v1, _, err, perr := libOpenImage(parent, rel, ps3, 0)
		if err != nil || perr != nil {
			v0.Close()
			return
		}
		defer v0.Close()
		defer v1.Close()
		masked := maskImage(canon, ps3)
		objs := []struct {
			name string
			v    rsView
			want []byte
			mask bool
		}{{"after-sequential-pass", v0, canon, false}, {"fresh-object", v1, masked, true}}
		ops := []viewOp{{Kind: "seek", Off: 0, Whence: io.SeekStart}}
		if exhaustive {
			for _, a := range bounds {
				for _, b := range bounds {
					if b <= a || b-a > int64(len(canon))+2 {
						continue
					}
					ops = append(ops, viewOp{Kind: "readat", Off: a, N: int(b - a)})
					ops = append(ops, viewOp{Kind: "seek", Off: a, Whence: io.SeekStart}, viewOp{Kind: "read", N: int(b - a)})
				}
			}
		}
		ops = append(ops, genOpsISO(r, int64(len(canon)), nRandom)...)
		for _, ob := range objs {
			v := ob.v
			if ob.mask {
				v = &maskedView{rsView: ob.v, ps3: ps3}
			}
			rule, feature, detail, at := checkViewOps(v, ob.want, ops)
			run.Eval(len(ops))
			opsTotal += int64(len(ops))
			if rule != "" {
				op := ops[at]
				zs, ze := zoneOf(bounds, op.Off), zoneOf(bounds, op.Off+int64(op.N))
				_ = zs
				_ = ze
				w2 := map[string]any{"tree": t, "object": ob.name, "failing_op": op, "op_index": at, "image_size": len(canon), "boundaries": bounds}
				if at > 0 {
					w2["previous_ops"] = ops[max(0, at-4):at]
				}
				run.Violate(rule, feature, fmt.Sprintf("[sizes %v ps3=%v, %s, image %d bytes] %s", t.Sizes, ps3, ob.name, len(canon), detail), w2)
				break
			}
		}
		for _, op := range ops {
			if op.Kind == "seek" {
				run.Sig("seek whence=%d", op.Whence)
				continue
			}
			al := "unaligned"
			if op.Off%2048 == 0 && op.N%2048 == 0 {
				al = "aligned"
			}
			if op.Kind == "read" {
				run.Sig("read %s", al)
				continue
			}
			run.Sig("readat zone%d->zone%d of %d %s", zoneOf(bounds, op.Off), zoneOf(bounds, op.Off+int64(op.N)), len(bounds), al)
		}
	}
	ParallelDo(len(trees), 16, func(i int) {
		t := trees[i]
		build(t)
		checkTree(t, "/"+t.Name, t.PS3, true, rand.New(rand.NewSource(e.Seed+int64(i))), 30)
	})
	// random trees with random op sequences
	r := e.Rng(9)
	nSeq := e.Pick(1000, 100000)
	type rt struct {
		name string
		ps3  bool
	}
	var rts []rt
	for i := 0; i < e.Pick(24, 200); i++ {
		ps3 := i%3 == 0
		name := fmt.Sprintf("r%04d", i)
		genISOTree(r, parent, name, tree.GenOpt{MaxDepth: r.Intn(4), MaxEntries: 1 + r.Intn(10), MaxSize: 300000, NameLen: 12, EmptyFiles: true}, ps3)
		rts = append(rts, rt{name, ps3})
	}
	ParallelDo(nSeq, 16, func(i int) {
		t := rts[i%len(rts)]
		checkTree(c09Tree{Name: t.name, PS3: t.ps3}, "/"+t.name, t.ps3, false, rand.New(rand.NewSource(e.Seed*31+int64(i))), 100)
	})
	run.Exhaustive = true
	run.Obs("operations_checked", opsTotal)

	// the same offsets through the network (READ / READCRIT on the generated image)
	p := e.Worker(worker.Config{Root: parent, BufSize: 65536}, "c09", false, 0)
	defer p.Stop()
	addr := p.HostPort()
	netTrees := trees
	if !e.Thorough {
		netTrees = nil
		for i, t := range trees {
			if i%6 == 0 {
				netTrees = append(netTrees, t)
			}
		}
	}
	ParallelDo(len(netTrees), 8, func(i int) {
		t := netTrees[i]
		v0, _, err, perr := libOpenImage(parent, "/"+t.Name, t.PS3, 0)
		if err != nil || perr != nil {
			return
		}
		canon, err, perr := readAllSeq(v0, 65536, 1<<30)
		v0.Close()
		if err != nil || perr != nil {
			return // reported above
		}
		bounds := structuralBoundaries(canon)
		view := &model.BytesView{B: maskImage(canon, t.PS3), K: "generated-image", MFree: true, DC: imageDontCare(t.PS3)}
		w := &model.World{Root: parent, Probe: func() error { return host.Probe(addr) },
			Views: func(w *model.World, osPath string, virtual int, rel string) (model.View, bool, bool) {
				if virtual != model.VirtNone {
					return view, false, true
				}
				return model.PlainViews(w, osPath, virtual, rel)
			}}
		pre := "/***DVD***/"
		if t.PS3 {
			pre = "/***PS3***/"
		}
		reqs := []wire.Req{wire.P(wire.OpOpen, pre+t.Name)}
		rr := rand.New(rand.NewSource(int64(i)))
		for k := 0; k < 60; k++ {
			a := bounds[rr.Intn(len(bounds))]
			b := bounds[rr.Intn(len(bounds))]
			if b < a {
				a, b = b, a
			}
			reqs = append(reqs, wire.Read(uint32(b-a), uint64(a)))
			if b <= int64(len(canon)) {
				reqs = append(reqs, wire.Crit(uint32(b-a), uint64(a)))
			}
		}
		res := RunLockstep(addr, w, reqs, e.Watchdog, 0, false)
		run.Eval(len(reqs))
		run.Count("network_requests", int64(len(reqs)))
		if res.Fail != nil {
			judgeModelFail(e, res.Fail, reqs, res.FailAt, "net-", res.Fail.Feature, fmt.Sprintf("[sizes %v ps3=%v via network] %s", t.Sizes, t.PS3, res.Fail.Detail), map[string]any{"tree": t, "failed_request": reqAt(reqs, res.FailAt), "transcript": tailStr(res.Log, 8)})
		}
	})
	// ---- trees whose image would exceed what 32-bit sector numbers can describe (sparse members of
	// 2..8 TiB): refusing to create the image is fine; an image that is created must still be one byte
	// string: non-negative size, whole sectors, at least as long as its members, the same bytes at
	// the same offset whatever the read started at
	for hi, sizes := range [][]int64{{2 << 40, 2 << 40}, {4 << 40}, {4<<40 - 198656}, {8<<40 + 100, 5000}, {3 << 40, 3 << 40, 3 << 40}, {3 << 40}, {1<<63 - 1}, {1<<63 - 2048, 4096}} {
		name := fmt.Sprintf("huge%d", hi)
		// ext4 stops at 16 TiB; tmpfs takes any size: the largest members are tried there
		hparent, sum, okFS := parent, int64(0), false
		for _, base := range []string{parent, "/dev/shm"} {
			if base != parent {
				d, err := os.MkdirTemp(base, "verif-c09-")
				if err != nil {
					continue
				}
				defer os.RemoveAll(d)
				hparent = d
			}
			root := filepath.Join(hparent, name)
			must(os.MkdirAll(root, 0o755))
			sum, okFS = 0, true
			for i, sz := range sizes {
				f, err := os.Create(filepath.Join(root, fmt.Sprintf("m%d.bin", i)))
				must(err)
				if err := f.Truncate(sz); err != nil {
					okFS = false // this file system cannot hold such a file
				}
				f.WriteAt(bytes.Repeat([]byte{byte('A' + i)}, 6144), 2048)
				f.Close()
				if sum+sz < sum {
					sum = 1<<63 - 1
				} else {
					sum += sz
				}
			}
			if okFS {
				break
			}
			os.RemoveAll(root)
		}
		root := filepath.Join(hparent, name)
		if !okFS {
			run.Count("huge_trees_not_creatable_here", 1)
			continue
		}
		run.Eval(1)
		wit := map[string]any{"member_sizes": sizes}
		v, _, err, perr := libOpenImageCapped(hparent, name)
		switch {
		case perr != nil:
			// creation did not come to an end (crash / out of memory): that is C04's subject (its check
			// runs the same probe); there is no image whose reads could be judged here
			run.Count("huge_trees_creation_abnormal_left_to_C04", 1)
		case err != nil:
			run.Sig("huge tree %d TiB: creation refused", sum>>40)
		default:
			st, _ := v.Stat()
			size := st.Size()
			run.Sig("huge tree %d TiB: image created", sum>>40)
			if size < sum || size%2048 != 0 {
				run.Violate("size", "huge-tree", fmt.Sprintf("[members %v, %d bytes in all] the image announces %d bytes", sizes, sum, size), wit)
			} else {
				// the same window read directly and as the tail of a longer read that starts earlier
				for _, off := range []int64{200000, 235520, 247808, 260000, 300000} {
					a := make([]byte, 4096)
					b := make([]byte, 65536+4096)
					na, _ := v.ReadAt(a, off)
					nb, _ := v.ReadAt(b, off-65536)
					if na == 4096 && nb == len(b) && !bytes.Equal(a, b[65536:]) {
						run.Violate("wrong-bytes", "huge-tree", fmt.Sprintf("[members %v] ReadAt(4096,%d) differs from the same range inside ReadAt(%d,%d)", sizes, off, len(b), off-65536), wit)
						break
					}
				}
			}
			v.Close()
		}
		os.RemoveAll(root)
	}
	CrashCheck(e, p, "c09 worker", nil)
}

// imageDontCare lists the byte ranges two opens of the same tree may differ in (C18's mask).
func imageDontCare(ps3 bool) [][2]int64 {
	dc := [][2]int64{{16*2048 + 813, 16*2048 + 847}, {17*2048 + 813, 17*2048 + 847}}
	if ps3 {
		dc = append(dc, [2]int64{2048 + 64, 2048 + 512})
	}
	return dc
}

// maskedView applies C18's mask to everything read from another object of the same tree.
type maskedView struct {
	rsView
	ps3 bool
	pos int64
}

func (m *maskedView) maskAt(p []byte, off int64) {
	for _, r := range imageDontCare(m.ps3) {
		for x := max(r[0], off); x < min(r[1], off+int64(len(p))); x++ {
			p[x-off] = 0
		}
	}
}

func (m *maskedView) Read(p []byte) (int, error) {
	n, err := m.rsView.Read(p)
	m.maskAt(p[:n], m.pos)
	m.pos += int64(n)
	return n, err
}

func (m *maskedView) ReadAt(p []byte, off int64) (int, error) {
	n, err := m.rsView.ReadAt(p, off)
	m.maskAt(p[:n], off)
	return n, err
}

func (m *maskedView) Seek(off int64, whence int) (int64, error) {
	n, err := m.rsView.Seek(off, whence)
	if err == nil {
		m.pos = n
	}
	return n, err
}

func genOpsISO(r *rand.Rand, size int64, n int) []viewOp {
	var ops []viewOp
	far := FarOffsets()
	off := func() int64 {
		if r.Intn(14) == 0 {
			return far[r.Intn(len(far))]
		}
		switch r.Intn(5) {
		case 0:
			return int64(r.Intn(int(size/2048)+1)) * 2048
		case 1:
			return size - int64(r.Intn(70000))
		case 2:
			return size + int64(r.Intn(4096))
		}
		return r.Int63n(size + 1)
	}
	ln := func() int {
		switch r.Intn(5) {
		case 0:
			return 1 + r.Intn(64)
		case 1:
			return 2048 * (1 + r.Intn(16))
		case 2:
			return 1 + r.Intn(1<<20)
		}
		return 1 + r.Intn(70000)
	}
	for i := 0; i < n; i++ {
		switch r.Intn(5) {
		case 0:
			o := max(0, off())
			w := r.Intn(3)
			switch w {
			case 1:
				o = int64(r.Intn(100000)) - 50000
			case 2:
				o = -int64(r.Intn(int(min(size, 100000)) + 1))
				if r.Intn(5) == 0 {
					o = 0
				}
			}
			ops = append(ops, viewOp{Kind: "seek", Off: o, Whence: w})
		case 1:
			ops = append(ops, viewOp{Kind: "readat", N: ln(), Off: max(0, off())})
		default:
			ops = append(ops, viewOp{Kind: "read", N: ln()})
		}
	}
	return ops
}

// libOpenImageCapped creates the image in a child process with an address-space limit: a member whose
// size makes the generator allocate without bound must not take the check (or the machine) down.
// It returns a view only when the child reports that creation succeeds.
func libOpenImageCapped(parent, name string) (v *rfs.VirtualISO, spy *spyfs.Spy, err error, perr any) {
	self, _ := os.Executable()
	cmd := exec.Command("/bin/sh", "-c", "ulimit -v 6291456; exec \"$0\" \"$@\"", self, "probe-image", parent, name)
	out, cerr := cmd.CombinedOutput()
	switch {
	case cerr == nil && bytes.Contains(out, []byte("CREATED")):
		return libOpenImage(parent, "/"+name, false, 0)
	case bytes.Contains(out, []byte("REFUSED")):
		return nil, nil, fmt.Errorf("%s", bytes.TrimSpace(out)), nil
	default:
		return nil, nil, nil, fmt.Sprintf("image creation in a child process (6 GiB cap) ended abnormally: %v: %s", cerr, firstLines(string(out), 4))
	}
}

// ProbeImage is the child side of libOpenImageCapped.
func ProbeImage(parent, name string) {
	v, _, err, perr := libOpenImage(parent, "/"+name, false, 0)
	switch {
	case perr != nil:
		fmt.Println("PANIC", perr)
		os.Exit(2)
	case err != nil:
		fmt.Println("REFUSED", err)
	default:
		st, _ := v.Stat()
		fmt.Println("CREATED", st.Size())
		v.Close()
	}
}
