//go:build verif

package checks

import (
	"bytes"
	"encoding/hex"
	"fmt"
	"os"
	"path/filepath"

	"github.com/spf13/afero"

	rfs "github.com/xakep666/ps3netsrv-go/pkg/fs"

	"verif/model"
	"verif/refcrypt"
	"verif/tree"
)

// c05Library: generated images and decrypted views can never be written through, in either mode:
// every mutating method of the view objects must fail and leave every underlying file untouched;
// FS.OpenFile with write flags on a virtual-image path must fail and create nothing.
func c05Library(e *Env) {
	run := e.Run
	root := e.Dir("c05lib")
	must(os.MkdirAll(filepath.Join(root, "tree", "sub"), 0o755))
	must(os.WriteFile(filepath.Join(root, "tree", "a.bin"), tree.Content(1, 5000), 0o644))
	must(os.WriteFile(filepath.Join(root, "tree", "sub", "b.bin"), tree.Content(2, 100), 0o644))
	must(os.MkdirAll(filepath.Join(root, "PS3ISO"), 0o755))
	regs := []refcrypt.Region{{Start: 0, End: 1}, {Start: 4, End: 40}}
	plain := tree.Content(3, 20*2048)
	copy(plain, refcrypt.Table(regs))
	key := tree.Content(4, 16)
	must(os.WriteFile(filepath.Join(root, "PS3ISO", "e.iso"), refcrypt.BuildImage(plain, regs, key), 0o644))
	must(os.WriteFile(filepath.Join(root, "PS3ISO", "e.dkey"), []byte(hex.EncodeToString(key)), 0o644))
	p3 := bytes.Clone(plain)
	copy(p3[maskBegin:], wmEnc)
	copy(p3[maskBegin+16:], key)
	must(os.WriteFile(filepath.Join(root, "k3enc.iso"), refcrypt.BuildImage(p3, regs, key), 0o644))
	p4 := bytes.Clone(plain)
	copy(p4[maskBegin:], wmDec)
	must(os.WriteFile(filepath.Join(root, "k3dec.iso"), p4, 0o644))
	fsys := &rfs.FS{Fs: afero.NewBasePathFs(afero.NewOsFs(), root)}
	before := model.Snapshot(root)
	type wr interface {
		Write([]byte) (int, error)
		WriteAt([]byte, int64) (int, error)
		WriteString(string) (int, error)
		Truncate(int64) error
	}
	for _, path := range []string{"/***DVD***/tree", "/PS3ISO/e.iso", "/k3enc.iso", "/k3dec.iso"} {
		f, err := fsys.Open(path)
		if err != nil {
			run.Violate("view-open-failed", path, fmt.Sprintf("FS.Open(%s) failed: %v", path, err), nil)
			continue
		}
		kind := fmt.Sprintf("%T", f)
		w, ok := f.(wr)
		if !ok {
			f.Close()
			continue
		}
		try := func(name string, fn func() (int, error)) {
			var n int
			var err error
			func() {
				defer func() {
					if p := recover(); p != nil {
						err = fmt.Errorf("panic: %v", p)
						run.Violate("panic", kind+"."+name, fmt.Sprintf("%s.%s on %s panicked: %v", kind, name, path, p), nil)
					}
				}()
				n, err = fn()
			}()
			run.Eval(1)
			run.Sig("view %s %s refused", kind, name)
			if err == nil {
				run.Violate("view-written", kind+"."+name, fmt.Sprintf("%s.%s on %s succeeded (n=%d): views must refuse writes", kind, name, path, n), map[string]any{"path": path})
			}
		}
		try("Write", func() (int, error) { return w.Write([]byte("overwrite")) })
		try("WriteAt", func() (int, error) { return w.WriteAt([]byte("overwrite"), 100) })
		try("WriteString", func() (int, error) { return w.WriteString("overwrite") })
		try("Truncate", func() (int, error) { return 0, w.Truncate(10) })
		f.Close()
	}
	for _, flags := range []int{os.O_WRONLY, os.O_RDWR | os.O_CREATE, os.O_WRONLY | os.O_TRUNC, os.O_RDWR | os.O_APPEND} {
		for _, path := range []string{"/***DVD***/tree", "/***PS3***/tree", "/***DVD***/tree/new.bin", "/***DVD***/newdir"} {
			f, err := fsys.OpenFile(path, flags, 0o644)
			run.Eval(1)
			run.Sig("open-for-write virtual flags=%#x", flags)
			if err == nil {
				f.Close()
				run.Violate("virtual-open-for-write", fmt.Sprintf("flags=%#x", flags), fmt.Sprintf("FS.OpenFile(%s, %#x) succeeded: a virtual-image path was opened for writing", path, flags), nil)
			}
		}
	}
	if d := model.SnapDiff(before, model.Snapshot(root), nil); len(d) > 0 {
		run.Violate("view-write-side-effect", "underlying-changed", fmt.Sprintf("write attempts on views changed the tree: %v", d), map[string]any{"diff": d})
	}
}
