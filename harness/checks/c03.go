//go:build verif

package checks

import (
	"math"
	"bytes"
	"fmt"
	"math/rand"
	"os"
	"path/filepath"
	"sync/atomic"

	"verif/host"
	"verif/model"
	"verif/tree"
	"verif/wire"
	"verif/worker"
)

// sharedTree is the read-only part of the tree used by the protocol-level checks.
func sharedTree() *tree.Node {
	return tree.Dir("",
		tree.File("file.bin", 5000, 11),
		tree.File("empty.bin", 0, 12),
		tree.File("big.bin", 200000, 13),
		tree.Dir("dir",
			tree.File("a.txt", 10, 14),
			tree.File("b.txt", 3000, 15),
			tree.Dir("sub", tree.File("c.txt", 77, 16)),
			tree.File("caf\xe9.iso", 20, 17), // a name that is not valid UTF-8: names are byte strings on the wire
		),
		tree.Dir("emptydir"),
	)
}

const fileSize = 5000

// privateTree creates the private writable subtree of one session.
func privateTree(root, name string) {
	p := filepath.Join(root, name)
	must(os.MkdirAll(filepath.Join(p, "full"), 0o755))
	must(os.MkdirAll(filepath.Join(p, "gone"), 0o755))
	must(os.WriteFile(filepath.Join(p, "old.bin"), tree.Content(21, 100), 0o644))
	must(os.WriteFile(filepath.Join(p, "full", "x"), []byte("x"), 0o644))
	must(os.Symlink("full", filepath.Join(p, "ldir")))
	must(os.Symlink("old.bin", filepath.Join(p, "lfile")))
}

type sym struct {
	name string
	mk   func(P string) wire.Req
}

func c03Alphabet() []sym {
	pay := func(n int) []byte { return tree.Content(int64(n)+5, int64(n)) }
	return []sym{
		{"OPEN file", func(P string) wire.Req { return wire.P(wire.OpOpen, "/file.bin") }},
		{"OPEN dir", func(P string) wire.Req { return wire.P(wire.OpOpen, "/dir") }},
		{"OPEN missing", func(P string) wire.Req { return wire.P(wire.OpOpen, "/missing.bin") }},
		{"OPEN CLOSEFILE", func(P string) wire.Req { return wire.P(wire.OpOpen, "/CLOSEFILE") }},
		{"OPEN ***DVD***/dir", func(P string) wire.Req { return wire.P(wire.OpOpen, "/***DVD***/dir") }},
		{"OPEN private old", func(P string) wire.Req { return wire.P(wire.OpOpen, P+"/old.bin") }},
		{"OPEN private new", func(P string) wire.Req { return wire.P(wire.OpOpen, P+"/new.bin") }},
		{"OPENDIR private", func(P string) wire.Req { return wire.P(wire.OpOpenDir, P) }},
		{"READ 5@0", func(P string) wire.Req { return wire.Read(5, 0) }},
		{"READ 10@size-2", func(P string) wire.Req { return wire.Read(10, fileSize-2) }},
		{"READ 4@size+3", func(P string) wire.Req { return wire.Read(4, fileSize+3) }},
		{"READ 0@0", func(P string) wire.Req { return wire.Read(0, 0) }},
		{"READCRIT 7@10", func(P string) wire.Req { return wire.Crit(7, 10) }},
		{"READCRIT 10@size-3", func(P string) wire.Req { return wire.Crit(10, fileSize-3) }},
		{"READCD 0,1", func(P string) wire.Req { return wire.CD(0, 1) }},
		{"READCD 1,0", func(P string) wire.Req { return wire.CD(1, 0) }},
		{"OPENDIR dir", func(P string) wire.Req { return wire.P(wire.OpOpenDir, "/dir") }},
		{"OPENDIR file", func(P string) wire.Req { return wire.P(wire.OpOpenDir, "/file.bin") }},
		{"OPENDIR missing", func(P string) wire.Req { return wire.P(wire.OpOpenDir, "/nodir") }},
		{"OPENDIR ***DVD***/dir", func(P string) wire.Req { return wire.P(wire.OpOpenDir, "/***DVD***/dir") }},
		{"OPENDIR ***DVD***/dir/sub", func(P string) wire.Req { return wire.P(wire.OpOpenDir, "/***DVD***/dir/sub") }},
		{"READDIR", func(P string) wire.Req { return wire.Bare(wire.OpReadDir) }},
		{"RDE", func(P string) wire.Req { return wire.Bare(wire.OpRDE) }},
		{"RDE2", func(P string) wire.Req { return wire.Bare(wire.OpRDE2) }},
		{"STAT file", func(P string) wire.Req { return wire.P(wire.OpStat, "/file.bin") }},
		{"STAT missing", func(P string) wire.Req { return wire.P(wire.OpStat, "/nope") }},
		{"DIRSIZE dir", func(P string) wire.Req { return wire.P(wire.OpDirSize, "/dir") }},
		{"CREATE new", func(P string) wire.Req { return wire.P(wire.OpCreate, P+"/new.bin") }},
		{"CREATE existing", func(P string) wire.Req { return wire.P(wire.OpCreate, P+"/old.bin") }},
		{"CREATE dir", func(P string) wire.Req { return wire.P(wire.OpCreate, P+"/full") }},
		{"WRITE 0", func(P string) wire.Req { return wire.Write([]byte{}) }},
		{"WRITE 5", func(P string) wire.Req { return wire.Write(pay(5)) }},
		{"WRITE 70000", func(P string) wire.Req { return wire.Write(pay(70000)) }},
		{"DELETE file", func(P string) wire.Req { return wire.P(wire.OpDelete, P+"/old.bin") }},
		{"MKDIR new", func(P string) wire.Req { return wire.P(wire.OpMkdir, P+"/nd") }},
		{"RMDIR empty", func(P string) wire.Req { return wire.P(wire.OpRmdir, P+"/gone") }},
		{"OP 0x2412", func(P string) wire.Req { return wire.Req{Op: 0x2412} }},
		{"OP 0x0000", func(P string) wire.Req { return wire.Req{Op: 0} }},
	}
}

type c03Case struct {
	kind  string
	write bool
	syms  []int
	reqs  []wire.Req
	chunk int
	cut   int // truncation: bytes of the last request actually sent (-1 none)
}

var privSeq atomic.Int64

func C03(e *Env) {
	run := e.Run
	run.Rule = "cases: all sequences of length<=k over a 38-symbol request alphabet in both write modes (bounded-exhaustive) + random sequences up to length 60 + truncation matrix, each replayed lock-step under the reference model, then re-delivered pipelined and in 1-byte sends and compared (times masked); non-trivial = distinct (model state, opcode, outcome) triple reached"
	root := e.Dir("W/root")
	must(tree.MaterializeRoot(root, sharedTree()))
	procs := map[bool]*host.Proc{}
	worlds := map[bool]*model.World{}
	for _, aw := range []bool{false, true} {
		p := e.Worker(worker.Config{Root: root, AllowWrite: aw, BufSize: 65536}, fmt.Sprintf("c03-%v", aw), false, 0)
		defer p.Stop()
		procs[aw] = p
		addr := p.HostPort()
		worlds[aw] = &model.World{Root: root, AllowWrite: aw, Views: FullViews, Probe: func() error { return host.Probe(addr) }}
	}
	// the scripted histories run against the real binary as well: its file objects are afero's own
	// (names relative to the root, no spy layer in between)
	binProcs := map[bool]*host.Proc{}
	if e.Bin != "" {
		for _, aw := range []bool{false, true} {
			args := []string{"server", "--root=" + root, "--listen-addr=127.0.0.1:0"}
			if aw {
				args = append(args, "--allow-write")
			}
			bp, err := host.SpawnBin(e.Bin, args, host.Opt{Dir: e.Dir("logs"), Tag: fmt.Sprintf("c03-bin-%v", aw)}, e.Dir("cwd"), true)
			must(err)
			defer bp.Stop()
			binProcs[aw] = bp
		}
	}
	alpha := c03Alphabet()
	maxLen := e.Pick(2, 3)

	var cases []c03Case
	// bounded-exhaustive part
	var rec func(prefix []int)
	rec = func(prefix []int) {
		if len(prefix) > 0 {
			for _, aw := range []bool{false, true} {
				cases = append(cases, c03Case{kind: "exhaustive", write: aw, syms: append([]int(nil), prefix...), cut: -1})
			}
		}
		if len(prefix) == maxLen {
			return
		}
		for i := range alpha {
			rec(append(prefix, i))
		}
	}
	rec(nil)
	nExh := len(cases)
	// random part
	rng := e.Rng(3)
	for i := 0; i < e.Pick(3000, 40000); i++ {
		l := 3 + rng.Intn(58)
		s := make([]int, l)
		for j := range s {
			s[j] = rng.Intn(len(alpha) - 2) // closing opcodes only at the end (sometimes)
		}
		if rng.Intn(4) == 0 {
			s = append(s, len(alpha)-1-rng.Intn(2))
		}
		cases = append(cases, c03Case{kind: "random", write: rng.Intn(2) == 0, syms: s, cut: -1, chunk: []int{0, 0, 1, 7}[rng.Intn(4)]})
	}
	// symbols that only the scripted histories use (the exhaustive and random parts above were built
	// from the base alphabet): a directory with more entries than any fixed-size listing buffer, and a
	// create-file that fails
	manyDir := filepath.Join(root, "many4500")
	must(os.MkdirAll(manyDir, 0o755))
	for k := 0; k < 4500; k++ {
		must(os.WriteFile(filepath.Join(manyDir, fmt.Sprintf("e%04d", k)), nil, 0o644))
	}
	alpha = append(alpha,
		sym{"OPENDIR many", func(P string) wire.Req { return wire.P(wire.OpOpenDir, "/many4500") }},
		sym{"CREATE no-parent", func(P string) wire.Req { return wire.P(wire.OpCreate, P+"/nodir/x.bin") }},
		// the offset field is unsigned: values with the top bit set (negative as a signed position)
		sym{"READ 5@2^63", func(P string) wire.Req { return wire.Read(5, 1<<63) }},
		sym{"READ 5@2^64-1", func(P string) wire.Req { return wire.Read(5, math.MaxUint64) }},
		sym{"READ 5@2^64-3", func(P string) wire.Req { return wire.Read(5, math.MaxUint64-2) }},
		sym{"READCRIT 7@2^63+10", func(P string) wire.Req { return wire.Crit(7, 1<<63+10) }},
	)
	// scripted histories: interactions between the read, write and directory states on the same
	// objects that are longer than the exhaustive bound and too specific for the random part
	byName := map[string]int{}
	for i, a := range alpha {
		byName[a.name] = i
	}
	for _, sc := range [][]string{
		{"OPEN private old", "CREATE existing", "READ 5@0"},
		{"OPEN private old", "CREATE existing", "WRITE 5", "READ 5@0", "READCRIT 7@10"},
		{"OPEN private old", "READ 5@0", "CREATE existing", "WRITE 70000", "READ 5@0", "READ 10@size-2", "READCD 0,1"},
		{"OPEN private old", "DELETE file", "READ 5@0", "STAT missing", "OPEN private old"},
		{"OPEN private new", "CREATE new", "WRITE 5", "OPEN private new", "READ 5@0", "READ 0@0"},
		{"CREATE new", "WRITE 5", "OPEN private new", "READ 5@0", "WRITE 5", "READ 10@size-2", "OPEN private new", "READ 10@size-2"},
		{"OPENDIR private", "CREATE new", "READDIR", "RDE", "RDE2"},
		{"OPENDIR private", "MKDIR new", "RDE", "RDE", "RDE", "RDE", "RDE", "RDE"},
		{"OPENDIR private", "RDE2", "DELETE file", "RMDIR empty", "RDE2", "RDE2", "RDE2", "RDE2"},
		{"OPENDIR private", "RDE", "OPENDIR missing", "RDE", "OPENDIR private", "READDIR", "READDIR"},
		{"OPEN file", "OPENDIR ***DVD***/dir/sub", "RDE", "READ 5@0", "STAT file"},
		{"OPENDIR dir", "OPENDIR ***DVD***/dir", "RDE2", "READDIR", "OPENDIR dir", "RDE"},
		{"OPENDIR dir", "OPENDIR file", "RDE", "READDIR", "OPENDIR dir", "READDIR"},
		{"OPEN ***DVD***/dir", "READ 5@0", "OPENDIR ***DVD***/dir/sub", "READDIR", "READ 5@0", "READCRIT 7@10"},
		{"CREATE new", "WRITE 70000", "CREATE existing", "WRITE 5", "CREATE dir", "WRITE 5", "OPEN private new", "READ 5@0"},
		{"CREATE new", "OPEN CLOSEFILE", "WRITE 5", "OPEN private new", "READ 5@0"},
		{"OPEN file", "READ 5@0", "OPEN CLOSEFILE", "READ 5@0"},
		{"OPEN file", "OPEN missing", "READ 5@0"},
		{"OPEN file", "OPEN dir", "READ 5@0"},
		{"OPEN private old", "DELETE file", "OPEN private old", "READ 5@0"},
		{"OPEN private old", "READ 5@0", "DELETE file", "OPEN private old", "READCRIT 7@10", "STAT missing"},
		{"OPEN private old", "OPEN private old", "READ 5@0", "DELETE file", "OPEN private old", "READCD 0,1"},
		{"OPEN file", "READCD 0,1", "OPEN private old", "READCD 0,1", "READCD 1,0", "READ 5@0"},
		{"OPENDIR many", "READDIR", "STAT file", "OPENDIR many", "RDE", "RDE2", "READDIR", "STAT missing"},
		{"CREATE new", "WRITE 5", "CREATE no-parent", "WRITE 5", "STAT missing", "OPEN private new", "READ 10@size-2"},
		{"CREATE existing", "WRITE 70000", "CREATE no-parent", "WRITE 70000", "WRITE 0", "CREATE existing", "WRITE 5"},
		{"CREATE new", "OPENDIR ***DVD***/dir", "CREATE no-parent", "WRITE 5", "CREATE dir", "WRITE 5"},
		{"OPEN file", "READ 5@2^63", "READ 5@0", "READ 5@2^64-1", "READ 5@2^64-3", "STAT file", "READCRIT 7@2^63+10"},
		{"OPEN ***DVD***/dir", "READ 5@2^64-3", "READ 5@0", "READ 5@2^63", "STAT file"},
		{"READ 5@2^63", "OPEN private old", "READ 5@2^64-1", "READ 5@0", "READCRIT 7@2^63+10"},
		{"OPENDIR private", "RDE", "READDIR", "READDIR", "OPENDIR private", "READDIR", "RDE", "RDE2", "READDIR"},
		{"OPENDIR dir", "RDE2", "RDE2", "READDIR", "RDE", "READDIR"},
	} {
		var syms []int
		ok := true
		for _, n := range sc {
			i, found := byName[n]
			if !found {
				ok = false
				break
			}
			syms = append(syms, i)
		}
		if !ok {
			continue
		}
		for _, aw := range []bool{false, true} {
			for _, ch := range []int{0, 1} {
				cases = append(cases, c03Case{kind: "scripted", write: aw, syms: syms, cut: -1, chunk: ch})
			}
		}
	}
	run.Obs("exhaustive_sequences", nExh)
	run.Obs("max_exhaustive_length", maxLen)

	var cover = map[string]int{}
	var bytesCompared, deliveries int64
	coverCh := make(chan map[string]int, 64)
	done := make(chan struct{})
	go func() {
		for m := range coverCh {
			for k, v := range m {
				cover[k] += v
			}
		}
		close(done)
	}()

	runCase := func(i int) {
		cs := cases[i]
		P := fmt.Sprintf("/w%07d", privSeq.Add(1))
		privateTree(root, P[1:])
		defer os.RemoveAll(filepath.Join(root, P[1:]))
		reqs := make([]wire.Req, len(cs.syms))
		names := make([]string, len(cs.syms))
		for j, s := range cs.syms {
			reqs[j] = alpha[s].mk(P)
			names[j] = alpha[s].name
		}
		w := worlds[cs.write]
		res := RunLockstep(procs[cs.write].HostPort(), w, reqs, e.Watchdog, cs.chunk, true)
		run.Eval(1)
		witness := map[string]any{"kind": cs.kind, "allow_write": cs.write, "symbols": names, "requests": reqs, "chunk": cs.chunk}
		if res.Fail != nil {
			witness["failed_at"] = res.FailAt
			witness["transcript"] = res.Log
			if res.Oracle != nil {
				witness["trace"] = res.Oracle.Trace
			}
			judgeModelFail(e, res.Fail, reqs, res.FailAt, "", res.Fail.Feature, res.Fail.Detail, witness)
			return
		}
		if bp := binProcs[cs.write]; cs.kind == "scripted" && bp != nil {
			P2 := fmt.Sprintf("/w%07d", privSeq.Add(1))
			privateTree(root, P2[1:])
			defer os.RemoveAll(filepath.Join(root, P2[1:]))
			reqs2 := make([]wire.Req, len(cs.syms))
			for j, s := range cs.syms {
				reqs2[j] = alpha[s].mk(P2)
			}
			baddr := bp.HostPort()
			wb := &model.World{Root: root, AllowWrite: cs.write, Views: FullViews, Probe: func() error { return host.Probe(baddr) }}
			res2 := RunLockstep(baddr, wb, reqs2, e.Watchdog, cs.chunk, true)
			run.Eval(1)
			if res2.Fail != nil {
				wit2 := map[string]any{"kind": cs.kind, "target": "real binary", "allow_write": cs.write, "symbols": names, "requests": reqs2, "chunk": cs.chunk, "failed_at": res2.FailAt, "transcript": res2.Log}
				judgeModelFail(e, res2.Fail, reqs2, res2.FailAt, "", "bin "+res2.Fail.Feature, "[real binary] "+res2.Fail.Detail, wit2)
				return
			}
			run.Sig("scripted on binary aw=%v #%d", cs.write, i%64)
		}
		if cs.kind == "scripted" && os.Getenv("VERIF_DEBUG_SCRIPTED") != "" {
			fmt.Printf("SCRIPTED aw=%v chunk=%d %v\n  %v\n", cs.write, cs.chunk, names, res.Oracle.Trace)
		}
		coverCh <- res.Oracle.Cover
		atomic.AddInt64(&bytesCompared, res.Oracle.BytesCompared)
		if i < 3 || (cs.kind == "random" && i%97 == 0) {
			run.Sample(map[string]any{"kind": cs.kind, "allow_write": cs.write, "symbols": names, "trace": res.Oracle.Trace})
		}
		// delivery variants: the validated lock-step stream is the reference
		if cs.kind == "exhaustive" && len(cs.syms) == maxLen && i%3 != 0 && !e.Thorough {
			return
		}
		n := len(reqs)
		if res.ClosedAt >= 0 {
			n = res.ClosedAt + 1
		}
		for _, mode := range []int{0, 1} {
			P2 := fmt.Sprintf("/w%07d", privSeq.Add(1))
			privateTree(root, P2[1:])
			var stream, want []byte
			for j := 0; j < n; j++ {
				stream = append(stream, alpha[cs.syms[j]].mk(P2).Bytes()...)
				want = append(want, maskTimes(reqs[j].Op, res.Resp[j])...)
			}
			got, note := deliver(procs[cs.write].HostPort(), stream, mode, e)
			os.RemoveAll(filepath.Join(root, P2[1:]))
			atomic.AddInt64(&deliveries, 1)
			if note != "" {
				run.Inconclusive("delivery variant: " + note)
				continue
			}
			// mask the same fields in the received stream
			gm := maskStream(reqs[:n], res.Resp[:n], got)
			// When the server itself ended the connection while request bytes were still queued, the
			// kernel resets it and may discard response bytes already in flight: then the received
			// stream only has to be a prefix of the reference. Otherwise (clean EOF) full equality.
			same := bytes.Equal(gm, want)
			if !same && res.ClosedAt >= 0 && bytes.HasPrefix(want, gm) {
				same = true
			}
			if !same {
				witness["delivery"] = []string{"pipelined single send + half-close", "1-byte sends + half-close"}[mode]
				witness["lockstep_stream_len"] = len(want)
				witness["got_stream_len"] = len(got)
				witness["first_diff"] = firstDiffIdx(gm, want)
				lens := []int{}
				for j := 0; j < n; j++ {
					lens = append(lens, len(res.Resp[j]))
				}
				witness["lockstep_response_lengths"] = lens
				witness["lockstep_closed_at"] = res.ClosedAt
				witness["lockstep_trace"] = res.Oracle.Trace
				run.Violate("delivery-differs", []string{"pipelined", "bytewise"}[mode],
					fmt.Sprintf("same session delivered %s produced a different response stream (len %d vs %d, first difference at %d)",
						witness["delivery"], len(got), len(want), firstDiffIdx(gm, want)), witness)
				return
			}
		}
	}
	ParallelDo(len(cases), 12, runCase)

	// truncation matrix
	truncCases := c03Truncation(e, alpha, root, procs, worlds)
	close(coverCh)
	<-done
	for k := range cover {
		run.Sig("%s", k)
	}
	run.Obs("state_op_outcome_triples", len(cover))
	run.Obs("response_bytes_compared", bytesCompared)
	run.Obs("delivery_variants_compared", deliveries)
	run.Obs("truncation_cases", truncCases)
	run.Exhaustive = true
	run.Floor(len(cover) >= 40, fmt.Sprintf("only %d (state,opcode,outcome) triples reached", len(cover)))
	for aw, p := range procs {
		CrashCheck(e, p, fmt.Sprintf("c03 worker allow_write=%v", aw), nil)
	}
}

func firstDiffIdx(a, b []byte) int {
	for i := 0; i < len(a) && i < len(b); i++ {
		if a[i] != b[i] {
			return i
		}
	}
	return min(len(a), len(b))
}

// maskStream applies maskTimes to a concatenated stream using the per-request lengths of the reference run.
func maskStream(reqs []wire.Req, ref [][]byte, got []byte) []byte {
	out := make([]byte, 0, len(got))
	off := 0
	for j := range reqs {
		l := len(ref[j])
		if off+l > len(got) {
			// a response that was cut (the kernel discarded the rest after a reset) still carries time
			// fields in the part that did arrive: mask them at their positions too
			part := got[off:]
			padded := append(bytes.Clone(part), make([]byte, off+l-len(got))...)
			out = append(out, maskTimes(reqs[j].Op, padded)[:len(part)]...)
			return out
		}
		out = append(out, maskTimes(reqs[j].Op, got[off:off+l])...)
		off += l
	}
	return append(out, got[off:]...)
}

// deliver sends a whole request stream (mode 0: one send; mode 1: 1-byte sends), half-closes and
// reads until the server closes.
func deliver(addr string, stream []byte, mode int, e *Env) ([]byte, string) {
	c, err := wire.Dial(addr, nil, e.Watchdog)
	if err != nil {
		return nil, "dial: " + err.Error()
	}
	defer c.Close()
	c.EOFLimit = 256 << 20 // the whole response stream is collected (bulk listings of big directories are megabytes)
	if mode == 1 {
		c.Chunk = 1
		if len(stream) > 4000 {
			c.Chunk = 1 + len(stream)/4000
		}
	}
	errc := make(chan error, 1)
	go func() { err := c.SendRaw(stream); c.CloseWrite(); errc <- err }()
	got, st := c.ExpectEOF()
	<-errc
	if st == wire.Timeout {
		return got, "watchdog while reading the pipelined stream"
	}
	return got, ""
}

// c03Truncation cuts each request at byte positions after representative states, then half-closes:
// the only admissible outcome is that the connection ends without any byte for the cut request
// (the announced payload of a WRITE is part of the request: a WRITE cut inside it is truncated too).
func c03Truncation(e *Env, alpha []sym, root string, procs map[bool]*host.Proc, worlds map[bool]*model.World) int {
	run := e.Run
	idx := func(name string) int {
		for i, a := range alpha {
			if a.name == name {
				return i
			}
		}
		panic("no symbol " + name)
	}
	oF, oD, cN := idx("OPEN file"), idx("OPENDIR dir"), idx("CREATE new")
	prefixes := [][]int{{}, {oF}, {oD}, {cN}, {oF, oD, cN}}
	type tc struct {
		pre []int
		s   int
		cut int
		aw  bool
	}
	var list []tc
	rng := rand.New(rand.NewSource(e.Seed + 77))
	for pi, pre := range prefixes {
		for s := range alpha {
			full := alpha[s].mk("/w0000000").Bytes()
			var cuts []int
			for k := 1; k < len(full) && k <= 40; k++ {
				cuts = append(cuts, k)
			}
			for k := 41; k < len(full); k += 1 + rng.Intn(9000) {
				cuts = append(cuts, k)
			}
			if len(full) > 41 {
				cuts = append(cuts, len(full)-1)
			}
			for ci, k := range cuts {
				if !e.Thorough && pi > 0 && (ci+pi+s)%3 != 0 {
					continue
				}
				list = append(list, tc{pre, s, k, pi%2 == 0 || pi == 4})
			}
		}
	}
	ParallelDo(len(list), 12, func(i int) {
		t := list[i]
		P := fmt.Sprintf("/w%07d", privSeq.Add(1))
		privateTree(root, P[1:])
		defer os.RemoveAll(filepath.Join(root, P[1:]))
		reqs := make([]wire.Req, 0, len(t.pre))
		names := []string{}
		for _, s := range t.pre {
			reqs = append(reqs, alpha[s].mk(P))
			names = append(names, alpha[s].name)
		}
		c, err := wire.Dial(procs[t.aw].HostPort(), nil, e.Watchdog)
		if err != nil {
			run.Inconclusive("dial: " + err.Error())
			return
		}
		defer c.Close()
		tr := &recTransport{c: c}
		o := model.NewOracle(worlds[t.aw], tr)
		for _, r := range reqs {
			if f := o.Step(r); f != nil || o.Closed {
				return // reported by the sequence part
			}
		}
		last := alpha[t.s].mk(P)
		full := last.Bytes()
		c.SendRaw(full[:t.cut])
		c.CloseWrite()
		stray, st := c.ExpectEOF()
		run.Eval(1)
		run.Sig("truncate %s at %s after %v", alpha[t.s].name, cutClass(t.cut, len(full)), names)
		witness := map[string]any{"kind": "truncation", "allow_write": t.aw, "prefix": names, "request": alpha[t.s].name, "cut_at": t.cut, "full_len": len(full), "stray": fmt.Sprintf("%x", stray)}
		if st == wire.Timeout {
			if host.Probe(procs[t.aw].HostPort()) == nil {
				run.Violate("not-closed", "truncated-request", fmt.Sprintf("%s cut at byte %d/%d then half-closed: connection stayed open", alpha[t.s].name, t.cut, len(full)), witness)
			} else {
				run.Inconclusive("truncation watchdog")
			}
			return
		}
		if len(stray) > 0 {
			run.Violate("stray-bytes", "truncated-request", fmt.Sprintf("%s cut at byte %d/%d: server sent %d bytes (%x) for an incomplete request", alpha[t.s].name, t.cut, len(full), len(stray), stray[:min(len(stray), 32)]), witness)
		}
	})
	return len(list)
}

func cutClass(cut, full int) string {
	switch {
	case cut < 2:
		return "opcode"
	case cut < 16:
		return "command"
	case cut == full-1:
		return "last-byte"
	}
	return "tail"
}
