//go:build verif

package checks

import (
	"encoding/binary"
)

// makeSFO builds a well-formed PARAM.SFO holding the given string fields in the given key order
// (psdevwiki layout: 20-byte header, 16-byte index entries, key table, 4-aligned data table).
func makeSFO(fields map[string]string, order []string) []byte {
	return makeSFOKeyOrder(fields, order, nil)
}

// makeSFOKeyOrder lays the key table out in keyOrder (a permutation of order; nil = index order):
// index entries carry offsets, so any order is well-formed.
func makeSFOKeyOrder(fields map[string]string, order []string, keyOrder []string) []byte {
	n := len(order)
	var keys, data []byte
	type ent struct{ koff, doff, dlen, dmax uint32 }
	ents := make([]ent, n)
	koffOf := map[string]uint32{}
	if keyOrder != nil {
		for _, k := range keyOrder {
			koffOf[k] = uint32(len(keys))
			keys = append(keys, k...)
			keys = append(keys, 0)
		}
	}
	for i, k := range order {
		if keyOrder != nil {
			ents[i].koff = koffOf[k]
		} else {
			ents[i].koff = uint32(len(keys))
			keys = append(keys, k...)
			keys = append(keys, 0)
		}
		v := append([]byte(fields[k]), 0)
		ents[i].doff = uint32(len(data))
		ents[i].dlen = uint32(len(v))
		dmax := (len(v) + 3) &^ 3
		if k == "TITLE_ID" && len(v) <= 16 {
			dmax = 16
		}
		ents[i].dmax = uint32(dmax)
		data = append(data, v...)
		data = append(data, make([]byte, dmax-len(v))...)
	}
	for len(keys)%4 != 0 {
		keys = append(keys, 0)
	}
	keyStart := 20 + 16*n
	dataStart := keyStart + len(keys)
	out := make([]byte, 0, dataStart+len(data))
	out = append(out, 0, 'P', 'S', 'F', 1, 1, 0, 0)
	out = binary.LittleEndian.AppendUint32(out, uint32(keyStart))
	out = binary.LittleEndian.AppendUint32(out, uint32(dataStart))
	out = binary.LittleEndian.AppendUint32(out, uint32(n))
	for _, e := range ents {
		out = binary.LittleEndian.AppendUint16(out, uint16(e.koff))
		out = binary.LittleEndian.AppendUint16(out, 0x0204)
		out = binary.LittleEndian.AppendUint32(out, e.dlen)
		out = binary.LittleEndian.AppendUint32(out, e.dmax)
		out = binary.LittleEndian.AppendUint32(out, e.doff)
	}
	out = append(out, keys...)
	out = append(out, data...)
	return out
}
