//go:build verif

package checks

import (
	"time"
	"fmt"
	"math/rand"
	"os"
	"path/filepath"

	"verif/host"
	"verif/model"
	"verif/wire"
	"verif/worker"
)

var cdSectorSizes = []int64{2048, 2328, 2336, 2340, 2352, 2368, 2448}

type cdImage struct {
	rel   string
	S     int64 // true raw sector size used to lay out the image
	sig   string
	size  int64
	wantS int64 // sector size the server must use per the statement
}

// makeCD synthesises a raw CD image: every sector's 2048 user bytes (at 24+k*S) are unique, the
// signature sits in the user data of sector 16. Large images are sparse with data around the
// sectors that will be read.
func makeCD(root string, img *cdImage, seed int64, hot []int64) {
	p := filepath.Join(root, img.rel)
	f, err := os.Create(p)
	must(err)
	defer f.Close()
	must(f.Truncate(img.size))
	r := rand.New(rand.NewSource(seed))
	writeSector := func(k int64) {
		off := k * img.S
		if off >= img.size {
			return
		}
		b := make([]byte, img.S)
		r.Read(b)
		copy(b[24:], fmt.Sprintf("SECTOR %08d of %s;", k, img.rel))
		if k == 16 {
			switch img.sig {
			case "iso":
				copy(b[24:], "\x01CD001\x01\x00")
			case "psx":
				b[24] = 0x7e // not the ISO signature
				copy(b[24+8:], "PLAYSTATION ")
			}
		}
		if off+int64(len(b)) > img.size {
			b = b[:img.size-off]
		}
		_, err := f.WriteAt(b, off)
		must(err)
	}
	total := (img.size + img.S - 1) / img.S
	if img.size <= 8<<20 {
		for k := int64(0); k < total; k++ {
			writeSector(k)
		}
		return
	}
	for k := int64(0); k < 40; k++ {
		writeSector(k)
	}
	for _, k := range hot {
		for d := int64(-1); d <= 3; d++ {
			if k+d >= 0 {
				writeSector(k + d)
			}
		}
	}
}

func C17(e *Env) {
	run := e.Run
	run.Rule = "cases: (image, READCD start/count) over synthesised raw CD images for 7 sector sizes x {ISO9660, PLAYSTATION, no} signature x size classes around the 2 MiB / 848 MiB detection window plus images of a whole number of raw sectors; pairs incl. start != count, count 0, last sector, ranges crossing EOF, re-open of an image with another sector size on the same connection; every byte compared with the harness's image; non-trivial = distinct (sector size, signature, size class, pair class, outcome)"
	root := e.Dir("W/root")
	rng := e.Rng(17)
	var imgs []*cdImage
	sizes := map[string]int64{"2MiB": 0x200000, "mid": 3<<20 + 17, "848MiB": 0x35000000, "2MiB-1": 0x200000 - 1, "848MiB+1": 0x35000000 + 1}
	classes := []string{"2MiB", "mid", "848MiB", "2MiB-1", "848MiB+1"}
	for _, S := range cdSectorSizes {
		for _, sig := range []string{"iso", "psx", "none"} {
			for _, cl := range classes {
				if sig == "none" && cl != "mid" {
					continue
				}
				if !e.Thorough && (cl == "2MiB-1" || cl == "848MiB+1") && sig == "psx" {
					continue
				}
				img := &cdImage{rel: fmt.Sprintf("cd_%d_%s_%s.bin", S, sig, cl), S: S, sig: sig, size: sizes[cl], wantS: S}
				if sig == "none" || cl == "2MiB-1" || cl == "848MiB+1" {
					img.wantS = 2352 // undetectable: 2352 assumed
				}
				imgs = append(imgs, img)
			}
		}
	}
	// what a real dump is: a whole number of raw sectors, nothing after the last one
	for i, S := range cdSectorSizes {
		imgs = append(imgs, &cdImage{rel: fmt.Sprintf("cd_%d_%s_whole.bin", S, []string{"iso", "psx"}[i%2]), S: S, sig: []string{"iso", "psx"}[i%2], size: (1300 + int64(i)) * S, wantS: S})
	}
	// the same base name in different directories with different sector sizes (anything remembered
	// about an image must be keyed by the object, not by its name)
	for i, S := range cdSectorSizes {
		must(os.MkdirAll(filepath.Join(root, fmt.Sprintf("d%d", i)), 0o755))
		imgs = append(imgs, &cdImage{rel: fmt.Sprintf("d%d/game.bin", i), S: S, sig: []string{"iso", "psx"}[i%2], size: sizes["mid"] + int64(i), wantS: S})
	}
	hotOf := func(img *cdImage) []int64 {
		last := (img.size-24-2048)/img.wantS - 0
		return []int64{100, 1000, last - 5, last - 1, last}
	}
	for i, img := range imgs {
		makeCD(root, img, e.Seed*100+int64(i), hotOf(img))
	}
	p := e.Worker(worker.Config{Root: root, BufSize: 65536}, "c17", false, 0)
	defer p.Stop()
	addr := p.HostPort()
	w := &model.World{Root: root, Views: model.PlainViews, Probe: func() error { return host.Probe(addr) }}

	type sess struct {
		desc string
		reqs []wire.Req
		img  *cdImage
	}
	var list []sess
	pairsFor := func(img *cdImage, n int) []wire.Req {
		S := img.wantS
		last := (img.size - 24 - 2048) / S // last sector fully inside
		var rs []wire.Req
		rs = append(rs, wire.CD(0, 1), wire.CD(16, 1), wire.CD(5, 3), wire.CD(3, 7), wire.CD(7, 3), wire.CD(1, 0), wire.CD(0, 0),
			wire.CD(uint32(last), 1), wire.CD(uint32(last-2), 3), wire.CD(15, 2))
		for i := 0; i < n; i++ {
			hot := hotOf(img)
			base := hot[rng.Intn(len(hot))]
			if img.size <= 8<<20 {
				base = rng.Int63n(last + 1)
			}
			cnt := int64(rng.Intn(4))
			if base+cnt-1 > last {
				cnt = last - base + 1
			}
			if base < 0 {
				base = 0
			}
			rs = append(rs, wire.CD(uint32(base), uint32(cnt)))
		}
		return rs
	}
	nPairs := e.Pick(60, 40000)
	for _, img := range imgs {
		reqs := []wire.Req{wire.P(wire.OpOpen, "/"+img.rel)}
		reqs = append(reqs, pairsFor(img, nPairs)...)
		list = append(list, sess{"in-range pairs", reqs, img})
		S := img.wantS
		last := (img.size - 24 - 2048) / S
		// ranges crossing / beyond EOF end the connection after a correct prefix
		for _, cross := range [][2]int64{{last, 2}, {last + 1, 1}, {last - 1, 4}, {last + 1000, 2},
			{1 << 21, 1}, {1 << 26, 1}, {1 << 28, 1}, {1 << 31, 1}, {(1 << 32) / S, 1}, {(1<<32)/S + 1, 2}, {1<<32 - 1, 1}, {(1 << 32) / S * 3, 1}} {
			list = append(list, sess{"crossing EOF", []wire.Req{wire.P(wire.OpOpen, "/"+img.rel), wire.CD(3, 1), wire.CD(uint32(cross[0]), uint32(cross[1]))}, img})
		}
	}
	// sector reads interleaved with ordinary and critical file reads on the same open image: a sector
	// read that continues exactly where the previous one ended must not depend on where another kind
	// of read left the file
	for _, img := range imgs {
		S := img.wantS
		last := (img.size - 24 - 2048) / S
		if last < 40 {
			continue
		}
		for k := 0; k < e.Pick(2, 20); k++ {
			s0 := int64(rng.Intn(int(last - 30)))
			n0 := int64(1 + rng.Intn(4))
			reqs := []wire.Req{wire.P(wire.OpOpen, "/"+img.rel), wire.CD(uint32(s0), uint32(n0))}
			switch k % 3 {
			case 0:
				reqs = append(reqs, wire.Read(uint32(100+rng.Intn(5000)), uint64(rng.Int63n(img.size/2))))
			case 1:
				reqs = append(reqs, wire.Crit(uint32(1+rng.Intn(3000)), uint64(rng.Int63n(img.size/2))))
			default:
				reqs = append(reqs, wire.Read(2048, uint64(24+(s0+n0+7)*S)), wire.Crit(10, 0))
			}
			reqs = append(reqs, wire.CD(uint32(s0+n0), uint32(1+rng.Intn(3))), wire.CD(uint32(s0+n0), 1), wire.Read(16, 0), wire.CD(0, 1))
			list = append(list, sess{"interleaved with file reads", reqs, img})
		}
	}
	// re-opening images of different sector size on one connection
	for i := 0; i < e.Pick(40, 3000); i++ {
		a, b := imgs[rng.Intn(len(imgs))], imgs[rng.Intn(len(imgs))]
		reqs := []wire.Req{wire.P(wire.OpOpen, "/"+a.rel), wire.CD(16, 1), wire.CD(2, 2),
			wire.P(wire.OpOpen, "/"+b.rel), wire.CD(16, 1), wire.CD(4, 3), wire.CD(0, 1)}
		if rng.Intn(3) == 0 {
			reqs = append(reqs, wire.P(wire.OpOpen, "/CLOSEFILE"), wire.P(wire.OpOpen, "/"+a.rel), wire.CD(17, 2))
		}
		list = append(list, sess{"re-open", reqs, b})
	}
	var bytesCmp int64
	cover := map[string]int{}
	ParallelDo(len(list), 8, func(i int) {
		s := list[i]
		res := RunLockstep(addr, w, s.reqs, e.Watchdog, 0, false)
		run.Eval(len(s.reqs) - 1)
		if res.Fail != nil {
			wit := map[string]any{"image": s.img, "session": s.desc, "requests": reqStrings(s.reqs), "failed_at": res.FailAt, "transcript": tailStr(res.Log, 12)}
			if res.Fail.Inconclusive {
				run.Inconclusive(res.Fail.Error())
			} else if !inScope("C17", res.Fail, s.reqs, res.FailAt) {
				run.Count("other_property_failures_not_judged", 1)
			} else {
				feat := fmt.Sprintf("S=%d,sig=%s", s.img.S, s.img.sig)
				if res.Fail.Rule == "wrong-bytes" || res.Fail.Rule == "short-response" || res.Fail.Rule == "no-response" || res.Fail.Rule == "stray-bytes" {
					res.Fail.Feature = feat
				}
				run.Violate(res.Fail.Rule, res.Fail.Feature, fmt.Sprintf("[%s; image %s raw sector %d, signature %s, size %d, expected sector size %d] %s", s.desc, s.img.rel, s.img.S, s.img.sig, s.img.size, s.img.wantS, res.Fail.Detail), wit)
			}
			return
		}
		run.Count("bytes_compared", res.Oracle.BytesCompared)
		_ = bytesCmp
		for k := range res.Oracle.Cover {
			run.Sig("S=%d sig=%s size=%d %s | %s", s.img.S, s.img.sig, s.img.size, s.desc, k)
		}
		_ = cover
		if i%max(1, len(list)/8) == 0 {
			run.Sample(map[string]any{"image": s.img, "session": s.desc, "requests": trimReqs(s.reqs)})
		}
	})
	// the image behind a path is replaced by a dump of another raw sector size and exactly the same
	// length (918 x 2336 = 876 x 2448 bytes; 1176 x 2048 = 1024 x 2352), and the path is opened again on
	// the same connection and on a new one: the sector size is that of the image which is there now
	for si, pair := range [][3]int64{{2336, 2448, 2144448}, {2448, 2336, 2144448}, {2048, 2352, 2408448}, {2352, 2048, 2408448}, {2336, 0, 2144448}} {
		rel := fmt.Sprintf("cd/swap%d.bin", si)
		must(os.MkdirAll(filepath.Join(root, "cd"), 0o755))
		mk := func(S int64, seed int64) *cdImage {
			img := &cdImage{rel: rel, S: S, sig: []string{"iso", "psx"}[si%2], size: pair[2], wantS: S}
			if S == 0 { // no signature at all: 2352 assumed
				img.S, img.sig, img.wantS = 2340, "none", 2352
			}
			makeCD(root, img, seed, nil)
			return img
		}
		first := mk(pair[0], int64(7000+si))
		reqs := []wire.Req{wire.P(wire.OpOpen, "/"+rel), wire.CD(16, 1), wire.CD(3, 2), wire.CD(800, 3),
			wire.P(wire.OpOpen, "/"+rel), wire.CD(16, 1), wire.CD(3, 2), wire.CD(800, 3), wire.P(wire.OpOpen, "/CLOSEFILE"), wire.P(wire.OpOpen, "/"+rel), wire.CD(5, 1)}
		var second *cdImage
		res := RunLockstepOpt(addr, w, reqs, e.Watchdog, LockOpt{OnStep: func(i int, r wire.Req, t0, t1 time.Time) {
			if i == 3 {
				second = mk(pair[1], int64(7100+si))
			}
		}})
		run.Eval(len(reqs))
		res2 := RunLockstep(addr, w, []wire.Req{wire.P(wire.OpOpen, "/"+rel), wire.CD(16, 1), wire.CD(801, 2)}, e.Watchdog, 0, false)
		run.Sig("image replaced by one of another sector size and the same length: %d -> %d", pair[0], pair[1])
		for _, rr := range []SessionResult{res, res2} {
			if rr.Fail != nil && !rr.Fail.Inconclusive {
				run.Violate(rr.Fail.Rule, fmt.Sprintf("replaced,S=%d->%d", pair[0], pair[1]), fmt.Sprintf("[image %s of raw sector size %d replaced by one of sector size %d and the same length %d, then opened again] %s", rel, first.S, second.S, pair[2], rr.Fail.Detail),
					map[string]any{"first": first, "second": second, "requests": reqStrings(reqs), "failed_at": rr.FailAt, "transcript": tailStr(rr.Log, 12)})
				break
			}
		}
	}
	run.Obs("images", len(imgs))
	run.Obs("sessions", len(list))
	CrashCheck(e, p, "c17 worker", nil)
}
