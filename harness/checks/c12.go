//go:build verif

package checks

import (
	"fmt"
	"math/rand"
	"os"
	"path/filepath"
	"sort"
	"sync"
	"time"

	"verif/host"
	"verif/model"
	"verif/spyfs"
	"verif/tree"
	"verif/wire"
	"verif/worker"
)

type opInterval struct {
	client int
	op     wire.Op
	t0, t1 int64
}

// countOverlaps counts pairs of operations of distinct clients whose [t0,t1] intervals overlap.
func countOverlaps(iv []opInterval) (total int64, byPair map[string]int64) {
	byPair = map[string]int64{}
	sort.Slice(iv, func(i, j int) bool { return iv[i].t0 < iv[j].t0 })
	for i := range iv {
		for j := i + 1; j < len(iv) && iv[j].t0 <= iv[i].t1; j++ {
			if iv[i].client != iv[j].client {
				total++
				a, b := iv[i].op.String(), iv[j].op.String()
				if a > b {
					a, b = b, a
				}
				byPair[a+"|"+b]++
			}
		}
	}
	return
}

// c12Session builds one client's session: private writable subtree P, a private read-only file
// with unique content, the shared image and the shared encrypted image.
func c12Session(r *rand.Rand, alpha []sym, P string, own string, n int) []wire.Req {
	var reqs []wire.Req
	for len(reqs) < n {
		switch r.Intn(9) {
		case 0: // own unique file: cross-talk would show as wrong bytes
			reqs = append(reqs, wire.P(wire.OpOpen, own), wire.Read(uint32(1+r.Intn(200000)), uint64(r.Intn(90000))), wire.Crit(uint32(1+r.Intn(60000)), uint64(r.Intn(30000))))
		case 1: // the same generated image for everybody
			reqs = append(reqs, wire.P(wire.OpOpen, []string{"/***DVD***/dir", "/***PS3***/game", "/***DVD***/geo"}[r.Intn(3)]), wire.Read(uint32(1+r.Intn(1<<20)), uint64(r.Intn(100000))), wire.Crit(2048, uint64(2048*r.Intn(20))))
		case 2: // shared encrypted image
			reqs = append(reqs, wire.P(wire.OpOpen, []string{"/PS3ISO/enc.iso", "/k3/enc3k3y.iso", "/PS3ISO/red.ISO"}[r.Intn(3)]), wire.Read(uint32(1+r.Intn(100000)), uint64(r.Intn(150000))), wire.Crit(uint32(1+r.Intn(5000)), uint64(r.Intn(100000))))
		case 3: // large transfer through the shared buffer pool
			reqs = append(reqs, wire.P(wire.OpOpen, "/big.bin"), wire.Read(200000, 0), wire.Crit(150000, 1000))
		case 4:
			reqs = append(reqs, wire.P(wire.OpOpenDir, []string{"/dir", "/links", P}[r.Intn(3)]), wire.Bare([]wire.Op{wire.OpReadDir, wire.OpRDE, wire.OpRDE2}[r.Intn(3)]), wire.Bare(wire.OpRDE2))
		case 5:
			reqs = append(reqs, wire.P(wire.OpStat, []string{"/file.bin", own, P + "/old.bin", "/nope"}[r.Intn(4)]), wire.P(wire.OpDirSize, []string{"/dir", P}[r.Intn(2)]))
		case 6: // PSX sector reads: per-connection sector size
			if r.Intn(3) == 0 {
				reqs = append(reqs, wire.P(wire.OpOpen, "/file.bin"), wire.CD(0, 1), wire.CD(1, 1))
			} else {
				reqs = append(reqs, wire.P(wire.OpOpen, fmt.Sprintf("/cd%d/game.bin", r.Intn(4))), wire.CD(16, 1), wire.CD(uint32(r.Intn(800)), uint32(1+r.Intn(3))))
			}
		default: // a few symbols of the C03 alphabet on the private subtree
			for k := 0; k < 3; k++ {
				reqs = append(reqs, alpha[r.Intn(len(alpha)-2)].mk(P))
			}
		}
	}
	return reqs
}

func C12(e *Env) {
	run := e.Run
	run.Rule = "cases: one oracle-checked session per client per round; rounds of 2..64 concurrent clients (each with a private writable subtree, a private file of unique content, and the shared generated / encrypted images) against a race-built worker (spy file system yielding at every operation, small socket writes) and the race-built real binary, under GOMAXPROCS 1/2/4/16, with connection churn; verdict = every client's stream equals its sequential prediction AND zero race-detector reports; non-trivial = distinct pair of opcodes observed temporally overlapping between two clients"
	root := e.Dir("W/root")
	c13Tree(root)
	// PSX images with one base name in different directories and different raw sector sizes: the
	// sector size belongs to the connection that opened the image
	for i, S := range []int64{2352, 2448, 2048, 2336} {
		must(os.MkdirAll(filepath.Join(root, fmt.Sprintf("cd%d", i)), 0o755))
		img := &cdImage{rel: fmt.Sprintf("cd%d/game.bin", i), S: S, sig: []string{"psx", "iso"}[i%2], size: 0x200000 + int64(i)*4096, wantS: S}
		makeCD(root, img, int64(900+i), nil)
	}
	alpha := c03Alphabet()
	rng := e.Rng(12)
	type round struct {
		n, procs, reqs int
		bin            bool
		yield          bool
		chunk          int
		buf            int64 // transfer buffer size; 0 = the unpooled copier (--buffer-size=0)
	}
	var rounds []round
	for i := 0; i < e.Pick(12, 80); i++ {
		n := []int{2, 8, 32}[i%3]
		if e.Thorough && i%7 == 0 {
			n = 64
		}
		rounds = append(rounds, round{n: n, procs: []int{1, 2, 4, 16}[i%4], reqs: e.Pick(40, 60), yield: i%2 == 0, chunk: []int{0, 512, 0, 4096}[i%4], buf: []int64{65536, 0, 2048, 65536, 0, 1 << 20}[i%6]})
	}
	rounds = append(rounds, round{n: 16, procs: 0, reqs: 40, bin: true, buf: 65536}, round{n: 32, procs: 0, reqs: 30, bin: true, buf: 0})
	var allIv []opInterval
	var ivMu sync.Mutex
	var raceBlocks []string
	clientID := 0
	for ri, rd := range rounds {
		var p *host.Proc
		if rd.bin {
			if e.BinRace == "" {
				fatalf("C12 needs the race build of the binary")
			}
			var err error
			p, err = host.SpawnBin(e.BinRace, []string{"server", "--root=" + root, "--listen-addr=127.0.0.1:0", "--allow-write", "--debug", fmt.Sprintf("--buffer-size=%d", rd.buf)}, host.Opt{Dir: e.Dir("logs"), Tag: "c12-bin", Race: true}, e.Dir("cwd"), true)
			must(err)
		} else {
			cfg := worker.Config{Root: root, AllowWrite: true, BufSize: rd.buf, GoMaxProcs: rd.procs, Log: "debug", WriteChunk: rd.chunk}
			if rd.yield {
				cfg.Faults = []spyfs.Fault{{Every: true, Kind: spyfs.FYield}}
			}
			p = e.Worker(cfg, fmt.Sprintf("c12-r%d", ri), true, 0)
		}
		addr := p.HostPort()
		w := &model.World{Root: root, AllowWrite: true, Views: FullViews, Probe: func() error { return host.Probe(addr) }}
		// cold start: before anything has been served by this process, several clients at once ask for
		// generated images of trees nobody has opened before (the sessions below run alone first, which
		// would warm every per-name / per-tree memo and hide unsynchronised first fills)
		{
			var cw sync.WaitGroup
			cstart := make(chan struct{})
			for k := 0; k < min(rd.n, 12); k++ {
				dir := fmt.Sprintf("cold/r%02d_c%02d", ri, k)
				must(os.MkdirAll(filepath.Join(root, dir, "sub"), 0o755))
				for f := 0; f < 25; f++ {
					must(os.WriteFile(filepath.Join(root, dir, []string{"", "sub"}[f%2], fmt.Sprintf("n%02d_%02d_%02d_%x.bin", ri, k, f, rng.Int63())), tree.Content(int64(f+k), int64(1+f*41)), 0o644))
				}
				reqs := []wire.Req{wire.P(wire.OpOpen, "/***DVD***/"+dir), wire.Read(70000, 20000), wire.Crit(4096, 32768), wire.P(wire.OpStat, "/***DVD***/"+dir)}
				cw.Add(1)
				go func() {
					defer cw.Done()
					<-cstart
					res := RunLockstepOpt(addr, w, reqs, e.Watchdog, LockOpt{})
					run.Eval(1)
					if res.Fail != nil {
						run.Violate("interference-"+res.Fail.Rule, "cold-start "+res.Fail.Feature, fmt.Sprintf("[round %d: cold start, %d clients building images of never-seen trees at once, GOMAXPROCS=%d] %s", ri, min(rd.n, 12), rd.procs, res.Fail.Detail),
							map[string]any{"round": rd, "requests": trimReqs(reqs), "transcript": tailStr(res.Log, 10)})
					} else {
						run.Sig("cold-start image build ok procs=%d bin=%v", rd.procs, rd.bin)
					}
				}()
			}
			close(cstart)
			cw.Wait()
		}
		var wg sync.WaitGroup
		start := make(chan struct{})
		for c := 0; c < rd.n; c++ {
			clientID++
			id := clientID
			P := fmt.Sprintf("/w%07d", privSeq.Add(1))
			privateTree(root, P[1:])
			own := fmt.Sprintf("%s/own_%d.bin", P, id)
			must(os.WriteFile(filepath.Join(root, own), tree.Content(int64(id)*7919, 100000+int64(id%7)*1000), 0o644))
			reqs := c12Session(rand.New(rand.NewSource(rng.Int63())), alpha, P, own, rd.reqs)
			// the session alone first: what this client gets when nobody else is connected. A session
			// that is not as modelled even alone is another property's business and is left out.
			alone := RunLockstepOpt(addr, w, reqs, e.Watchdog, LockOpt{})
			os.RemoveAll(filepath.Join(root, P[1:]))
			privateTree(root, P[1:])
			must(os.WriteFile(filepath.Join(root, own), tree.Content(int64(id)*7919, 100000+int64(id%7)*1000), 0o644))
			if alone.Fail != nil {
				run.Count("sessions_not_as_modelled_even_alone_left_out", 1)
				continue
			}
			wg.Add(1)
			go func() {
				defer wg.Done()
				<-start
				churn := 1
				if id%3 == 0 {
					churn = 3 // connection churn: the session is split over several connections
				}
				per := (len(reqs) + churn - 1) / churn
				for k := 0; k < churn; k++ {
					part := reqs[k*per : min(len(reqs), (k+1)*per)]
					if len(part) == 0 {
						continue
					}
					var mine []opInterval
					res := RunLockstepOpt(addr, w, part, e.Watchdog, LockOpt{OnStep: func(i int, r wire.Req, t0, t1 time.Time) {
						mine = append(mine, opInterval{id, r.Op, t0.UnixNano(), t1.UnixNano()})
					}})
					run.Eval(1)
					ivMu.Lock()
					allIv = append(allIv, mine...)
					ivMu.Unlock()
					if res.Fail != nil {
						wit := map[string]any{"round": rd, "client": id, "requests": trimReqs(part), "failed_at": res.FailAt, "failed_request": reqAt(part, res.FailAt), "transcript": tailStr(res.Log, 10)}
						if res.Fail.Inconclusive {
							run.Inconclusive(res.Fail.Error())
						} else {
							run.Violate("interference-"+res.Fail.Rule, res.Fail.Feature, fmt.Sprintf("[round %d: %d clients, GOMAXPROCS=%d, target=%s buffer-size=%d] client %d: %s", ri, rd.n, rd.procs, map[bool]string{true: "binary", false: "worker"}[rd.bin], rd.buf, id, res.Fail.Detail), wit)
						}
						return
					}
				}
				os.RemoveAll(filepath.Join(root, P[1:]))
			}()
		}
		// aborters: clients that reset their connection in the middle of a large transfer (failed copies
		// on the server side while the other clients keep transferring through the shared buffer pool)
		stopAbort := make(chan struct{})
		var awg sync.WaitGroup
		for a := 0; a < 3; a++ {
			awg.Add(1)
			go func(a int) {
				defer awg.Done()
				<-start
				for k := 0; ; k++ {
					select {
					case <-stopAbort:
						return
					default:
					}
					c, err := wire.Dial(addr, nil, e.Watchdog)
					if err != nil {
						return
					}
					c.Send(wire.P(wire.OpOpen, []string{"/big.bin", "/***DVD***/geo", "/PS3ISO/enc.iso"}[(a+k)%3]))
					c.ReadN(16)
					c.Send(wire.Read(200000, 0))
					c.ReadN(4 + 1000*(k%5))
					c.Reset()
					run.Count("aborted_transfers", 1)
					time.Sleep(time.Duration(1+k%3) * time.Millisecond)
				}
			}(a)
		}
		close(start)
		wg.Wait()
		close(stopAbort)
		awg.Wait()
		CrashCheck(e, p, fmt.Sprintf("c12 round %d", ri), rd)
		p.Stop()
		raceBlocks = append(raceBlocks, p.RaceReports()...)
		if ri < 3 {
			run.Sample(map[string]any{"round": rd, "clients": rd.n})
		}
	}
	total, byPair := countOverlaps(allIv)
	for k := range byPair {
		run.Sig("overlap %s", k)
	}
	run.Obs("client_operations", len(allIv))
	run.Obs("overlapping_operation_pairs_between_distinct_clients", total)
	run.Obs("overlapping_pairs_by_opcode_pair", topN(byPair, 40))
	run.Obs("race_reports_total", len(raceBlocks))
	run.Obs("rounds", len(rounds))
	for i, rr := range dedupeRaces(raceBlocks) {
		if i >= 8 {
			break
		}
		run.Violate("data-race", raceKey(rr), "race detector report: "+firstLines(rr, 16), map[string]any{"report": rr})
	}
	run.Floor(total >= 1000, fmt.Sprintf("only %d overlapping operation pairs observed", total))
	run.Floor(byPair["OPEN|OPEN"] > 0, "no two OPENs were observed overlapping")
	run.Assume("the race detector only reports races that happen on the executed schedules")
}

func topN(m map[string]int64, n int) map[string]int64 {
	type kv struct {
		k string
		v int64
	}
	var l []kv
	for k, v := range m {
		l = append(l, kv{k, v})
	}
	sort.Slice(l, func(i, j int) bool { return l[i].v > l[j].v })
	out := map[string]int64{}
	for i := 0; i < len(l) && i < n; i++ {
		out[l[i].k] = l[i].v
	}
	return out
}
