//go:build verif

package checks

import (
	"bytes"
	"fmt"
	"math/rand"
	"os"
	"path/filepath"
	"strings"
	"time"

	"verif/host"
	"verif/model"
	"verif/tree"
	"verif/wire"
	"verif/worker"
)

var c05Payloads = []int{0, 1, 100, 4095, 4096, 65535, 65536, 65537, 200000}

// c05Session generates one session over the private subtree P.
func c05Session(r *rand.Rand, P string, n int) ([]wire.Req, []string) {
	var reqs []wire.Req
	var tags []string
	add := func(tag string, q wire.Req) { reqs = append(reqs, q); tags = append(tags, tag) }
	newN := 0
	createTargets := func() (string, string) {
		switch r.Intn(10) {
		case 0, 1, 2:
			newN++
			return "new", fmt.Sprintf("%s/new%d.bin", P, newN)
		case 3:
			return "existing", P + "/old.bin"
		case 4:
			return "directory", P + "/full"
		case 5:
			return "in-subdir", P + "/full/y.bin"
		case 6:
			return "no-parent", P + "/nodir/x.bin"
		case 7:
			return "virtual", "/***DVD***" + P + "/v.bin"
		case 8:
			return "virtual-ps3", "/***PS3***" + P
		default:
			// an image that has key files around it: never read back through the server here (what an OPEN
			// of it yields is C11's subject), only its effect on the tree is judged
			return "keyed-image", P + []string{"/media/PS3ISO/a.iso", "/media/PS3ISO/b.ISO", "/media/c.iso", "/media/PS3ISO/new.iso"}[r.Intn(4)]
		}
	}
	for len(reqs) < n {
		switch r.Intn(12) {
		case 0, 1, 2:
			kind, p := createTargets()
			add("CREATE "+kind, wire.P(wire.OpCreate, p))
			chunks := r.Intn(5) + 1
			if r.Intn(4) == 0 {
				chunks = 0
			}
			for c := 0; c < chunks; c++ {
				sz := c05Payloads[r.Intn(len(c05Payloads))]
				pay := tree.Content(r.Int63(), int64(sz))
				kind := ""
				switch r.Intn(6) {
				case 0: // nothing but zeros (what a sparse-aware writer would skip)
					clear(pay)
					kind = " zeros"
				case 1: // data with a tail of zeros
					if sz > 16 {
						clear(pay[sz/3:])
						kind = " zero-tail"
					}
				case 2: // zeros first
					if sz > 16 {
						clear(pay[:sz/2])
						kind = " zero-head"
					}
				}
				add(fmt.Sprintf("WRITE %d%s", sz, kind), wire.Write(pay))
				// the upload goes on while the connection does other things: the requests of the read and
				// directory side, the console's CLOSEFILE included, leave the file open for writing alone
				if r.Intn(3) == 0 {
					switch r.Intn(6) {
					case 0:
						add("OPEN CLOSEFILE mid-upload", wire.P(wire.OpOpen, "/CLOSEFILE"))
					case 1:
						add("OPEN other mid-upload", wire.P(wire.OpOpen, P+"/old.bin"))
						add("READ other mid-upload", wire.Read(50, 10))
						add("OPEN CLOSEFILE mid-upload", wire.P(wire.OpOpen, "/CLOSEFILE"))
					case 2:
						add("OPEN missing mid-upload", wire.P(wire.OpOpen, P+"/missing"))
					case 3:
						add("OPENDIR mid-upload", wire.P(wire.OpOpenDir, P))
						add("RDE mid-upload", wire.Bare(wire.OpRDE))
					case 4:
						add("STAT mid-upload", wire.P(wire.OpStat, P+"/old.bin"))
						add("DIRSIZE mid-upload", wire.P(wire.OpDirSize, P+"/full"))
					case 5:
						add("OPENDIR missing mid-upload", wire.P(wire.OpOpenDir, P+"/missing"))
						add("READDIR mid-upload", wire.Bare(wire.OpReadDir))
					}
				}
			}
			if kind == "new" || kind == "existing" || kind == "in-subdir" {
				switch r.Intn(4) {
				case 0: // read back through the server
					add("OPEN uploaded", wire.P(wire.OpOpen, p))
					add("READ uploaded", wire.Read(1<<20, 0))
				case 1: // closing form: CREATE of a directory
					add("CREATE directory", wire.P(wire.OpCreate, P+"/full"))
					add("WRITE after close", wire.Write([]byte("late")))
				}
			}
		case 3:
			add("WRITE stray", wire.Write(tree.Content(r.Int63(), int64(c05Payloads[r.Intn(5)]))))
		case 4:
			t := []string{"/old.bin", "/new1.bin", "/full", "/missing", "/gone", "/full/x", "/ldir", "/lfile", "/media/PS3ISO/a.iso", "/media/PS3ISO/b.ISO", "/media/c.iso", "/media/PS3ISO/a.dkey", "/media/d.bin"}[r.Intn(13)]
			add("DELETE "+t, wire.P(wire.OpDelete, P+t))
		case 5:
			t := []string{"/nd", "/full", "/old.bin", "/no/parent", "/nd/inner", "/gone/sub"}[r.Intn(6)]
			add("MKDIR "+t, wire.P(wire.OpMkdir, P+t))
		case 6:
			t := []string{"/gone", "/full", "/old.bin", "/missing", "/nd", "/ldir", "/lfile", "/media/REDKEY", "/media/PS3ISO", "/media/empty"}[r.Intn(10)]
			add("RMDIR "+t, wire.P(wire.OpRmdir, P+t))
		case 7:
			add("STAT", wire.P(wire.OpStat, P+[]string{"/old.bin", "/new1.bin", "/full", "/nd"}[r.Intn(4)]))
		case 8:
			add("OPEN+READ", wire.P(wire.OpOpen, P+"/old.bin"))
			add("READ", wire.Read(50, 10))
		case 9:
			add("OPENDIR", wire.P(wire.OpOpenDir, P))
			add("READDIR", wire.Bare(wire.OpReadDir))
		case 10:
			add("DIRSIZE", wire.P(wire.OpDirSize, P))
		case 11:
			// mutating requests aimed at views: generated image paths and the shared encrypted/3k3y images
			t := []string{"/***DVD***/dir", "/***PS3***/game", "/***DVD***/dir/a.txt"}[r.Intn(3)]
			op := []wire.Op{wire.OpCreate, wire.OpDelete, wire.OpRmdir}[r.Intn(3)]
			add(op.String()+" view-path", wire.P(op, t))
		}
	}
	return reqs, tags
}

// c05Scripted: sequences in which the file that is open for reading is changed through the write
// side of the same connection (truncate by CREATE, grow by WRITE, delete), and read again.
func c05Scripted(r *rand.Rand, P string) ([]wire.Req, []string) {
	var reqs []wire.Req
	var tags []string
	add := func(tag string, q wire.Req) { reqs = append(reqs, q); tags = append(tags, tag) }
	f := P + "/old.bin"
	add("OPEN own", wire.P(wire.OpOpen, f))
	add("READ own", wire.Read(1000, 0))
	add("CREATE truncates open file", wire.P(wire.OpCreate, f))
	add("READ after truncate", wire.Read(1000, 0))
	add("READCRIT 0 after truncate", wire.Crit(0, 0))
	n := []int{1, 100, 65537}[r.Intn(3)]
	add(fmt.Sprintf("WRITE %d", n), wire.Write(tree.Content(r.Int63(), int64(n))))
	add("READ after growth", wire.Read(1<<20, 0))
	add("READ tail after growth", wire.Read(50, uint64(n/2)))
	add("STAT own", wire.P(wire.OpStat, f))
	if r.Intn(2) == 0 {
		add("WRITE more", wire.Write(tree.Content(r.Int63(), 777)))
		add("READCRIT all", wire.Crit(uint32(n+777), 0))
	}
	add("OPEN own again", wire.P(wire.OpOpen, f))
	add("READ own again", wire.Read(1<<20, 0))
	if r.Intn(2) == 0 {
		add("DELETE open file", wire.P(wire.OpDelete, f))
		add("STAT deleted", wire.P(wire.OpStat, f))
	}
	return reqs, tags
}

func C05(e *Env) {
	run := e.Run
	run.Rule = "cases: random sessions (5..40 requests) mixing CREATE/WRITE/DELETE/MKDIR/RMDIR (targets: new, existing, directory, no-parent, virtual-image paths; payloads 0..200000 bytes in 1-5 chunks) with non-mutating requests, in both write modes, lock-step under the reference model; around every request the private subtree is snapshotted (only the request's own target may change), the shared tree is snapshotted around the whole campaign, uploads are read back from disk after the connection ends; non-trivial = distinct (mode, request tag, outcome)"
	root := e.Dir("W/root")
	must(tree.MaterializeRoot(root, sharedTree()))
	// a PS3 game directory so that ***PS3*** paths name something that exists
	must(os.MkdirAll(filepath.Join(root, "game", "PS3_GAME"), 0o755))
	must(os.WriteFile(filepath.Join(root, "game", "PS3_GAME", "PARAM.SFO"), makeSFO(map[string]string{"TITLE": "Test", "TITLE_ID": "BLES12345"}, []string{"TITLE", "TITLE_ID"}), 0o644))
	rng := e.Rng(5)
	type target struct {
		p    *host.Proc
		w    *model.World
		name string
	}
	mkWorld := func(addr string, aw bool) *model.World {
		return &model.World{Root: root, AllowWrite: aw, Views: model.PlainViews, Probe: func() error { return host.Probe(addr) }}
	}
	var targets []target
	for _, aw := range []bool{false, true} {
		for _, bs := range []int64{65536, 1000} {
			if !e.Thorough && bs == 1000 && !aw {
				continue
			}
			p := e.Worker(worker.Config{Root: root, AllowWrite: aw, BufSize: bs}, fmt.Sprintf("c05-%v-%d", aw, bs), false, 0)
			defer p.Stop()
			targets = append(targets, target{p, mkWorld(p.HostPort(), aw), fmt.Sprintf("lib allow_write=%v buf=%d", aw, bs)})
		}
	}
	// the real binary with writing enabled through each channel, and by default (off)
	if e.Bin != "" {
		ini := filepath.Join(e.Scratch, "c05.ini")
		must(os.WriteFile(ini, []byte("[server]\nallow-write = true\n"), 0o644))
		for _, ch := range []struct {
			name string
			args []string
			env  []string
			aw   bool
		}{
			{"bin default (no allow-write)", nil, nil, false},
			{"bin --allow-write", []string{"--allow-write"}, nil, true},
			{"bin PS3NETSRV_ALLOW_WRITE=true", nil, []string{"PS3NETSRV_ALLOW_WRITE=true"}, true},
			{"bin ini allow-write=true", []string{"--config=" + ini}, nil, true},
		} {
			args := append([]string{"server", "--root=" + root, "--listen-addr=127.0.0.1:0"}, ch.args...)
			if strings.HasPrefix(ch.name, "bin ini") {
				args = []string{ch.args[0], "server", "--root=" + root, "--listen-addr=127.0.0.1:0"}
			}
			bp, err := host.SpawnBin(e.Bin, args, host.Opt{Dir: e.Dir("logs"), Tag: "c05-bin", Env: ch.env}, e.Dir("cwd"), true)
			must(err)
			defer bp.Stop()
			targets = append(targets, target{bp, mkWorld(bp.HostPort(), ch.aw), ch.name})
		}
	}
	sharedBefore := model.Snapshot(root)
	nSess := e.Pick(3000, 40000)
	type sess struct {
		tgt  int
		reqs []wire.Req
		tags []string
		P    string
	}
	var list []sess
	for i := 0; i < nSess; i++ {
		P := fmt.Sprintf("/w%07d", privSeq.Add(1))
		reqs, tags := c05Session(rng, P, 5+rng.Intn(36))
		if i%10 == 3 {
			reqs, tags = c05Scripted(rng, P)
		}
		ti := i % len(targets)
		list = append(list, sess{ti, reqs, tags, P})
	}
	// a worker with a short read timeout: uploads stalled in the middle of a payload are cut by it
	pto := e.Worker(worker.Config{Root: root, AllowWrite: true, BufSize: 65536, ReadTimeoutMs: 2000}, "c05-timeout", false, 0)
	defer pto.Stop()
	targets = append(targets, target{pto, mkWorld(pto.HostPort(), true), "lib allow_write=true read-timeout=2s"})
	for i := range list {
		if i%9 == 4 {
			list[i].tgt = len(targets) - 1
		}
	}
	abortUpload := func(t target, k int) {
		P := fmt.Sprintf("/w%07d", privSeq.Add(1))
		privateTree(root, P[1:])
		defer os.RemoveAll(filepath.Join(root, P[1:]))
		c, err := wire.Dial(t.p.HostPort(), nil, e.Watchdog)
		if err != nil {
			return
		}
		defer c.Close()
		c.Send(wire.P(wire.OpCreate, P+"/cut.bin"))
		if b, st := c.ReadN(4); st != wire.Full || wire.I32(b) != 0 {
			return
		}
		declared := uint32(5000 + 1000*(k%7))
		part := bytes.Repeat([]byte{'S'}, 3000)
		c.Send(wire.Req{Op: wire.OpWrite, Payload: part, DeclLen: &declared})
		switch k % 3 {
		case 0:
			c.Reset()
		case 1:
			if strings.Contains(t.name, "read-timeout") {
				c.ExpectEOF() // stall until the server's read timeout cuts the upload
			} else {
				c.Reset()
			}
		default:
			c.CloseWrite()
			c.ExpectEOF()
		}
		run.Count("aborted_uploads", 1)
	}
	ParallelDo(len(list), 8, func(i int) {
		s := list[i]
		t := targets[s.tgt]
		if t.w.AllowWrite && i%6 == 1 {
			abortUpload(t, i/6)
		}
		privateTree(root, s.P[1:])
		c05Media(root, s.P[1:])
		w := *t.w
		w.SnapDir = filepath.Join(root, s.P[1:])
		// some sessions deliver every request in small pieces (a path split over several segments must
		// still be acted on as a whole)
		chunk := []int{0, 0, 0, 1, 7, 19}[i%6]
		// on the target with a read timeout the harness itself must not be the idle party: the time from
		// one answer to the end of the next step is watched, and a session that was cut after the harness
		// stalled (loaded machine) is no verdict
		var lastEnd time.Time
		var maxGap time.Duration
		res := RunLockstepOpt(t.p.HostPort(), &w, s.reqs, e.Watchdog, LockOpt{Chunk: chunk, OnStep: func(_ int, _ wire.Req, t0, t1 time.Time) {
			if !lastEnd.IsZero() && t1.Sub(lastEnd) > maxGap {
				maxGap = t1.Sub(lastEnd)
			}
			lastEnd = t1
		}})
		run.Eval(1)
		if res.Fail != nil && strings.Contains(t.name, "read-timeout") && maxGap > 1200*time.Millisecond {
			run.Inconclusive(fmt.Sprintf("session on the read-timeout target: the harness took %v for one step", maxGap))
			return
		}
		if res.Fail != nil {
			wit := map[string]any{"target": t.name, "private_dir": s.P, "tags": s.tags, "requests": reqStrings(s.reqs), "failed_at": res.FailAt, "failed_request": reqAt(s.reqs, res.FailAt), "transcript": tailStr(res.Log, 14)}
			if res.Oracle != nil {
				wit["trace"] = res.Oracle.Trace
			}
			judgeModelFail(e, res.Fail, s.reqs, res.FailAt, "", res.Fail.Feature, fmt.Sprintf("[%s] %s", t.name, res.Fail.Detail), wit)
			return
		}
		for j, tr := range res.Oracle.Trace {
			if j < len(s.tags) {
				out := tr[strings.LastIndex(tr, "-> ")+3:]
				run.Sig("aw=%v %s -> %s", w.AllowWrite, s.tags[j], out)
			}
		}
		run.Count("uploads_read_back", int64(len(res.Oracle.Uploads)))
		if i%max(1, len(list)/8) == 0 {
			run.Sample(map[string]any{"target": t.name, "tags": s.tags, "trace": tailStr(res.Oracle.Trace, 12)})
		}
		os.RemoveAll(filepath.Join(root, s.P[1:]))
	})
	// nothing outside the private subtrees may have changed, in either mode
	sharedAfter := model.Snapshot(root)
	var allowed []string
	for p := range sharedAfter {
		if strings.Contains(p, "/root/w0") {
			allowed = append(allowed, p)
		}
	}
	for p := range sharedBefore {
		if strings.Contains(p, "/root/w0") {
			allowed = append(allowed, p)
		}
	}
	if d := model.SnapDiff(sharedBefore, sharedAfter, allowed); len(d) > 0 {
		run.Violate("shared-tree-changed", "campaign", fmt.Sprintf("objects outside every session's private subtree changed: %v", d), map[string]any{"diff": d})
	}
	run.Obs("shared_tree_objects_snapshotted", len(sharedBefore))
	run.Obs("targets", len(targets))
	c05Library(e)
	c05EmptyRoot(e)
	for _, t := range targets {
		CrashCheck(e, t.p, "c05 "+t.name, nil)
	}
}

// c05EmptyRoot: with writing enabled and nothing under the root, every spelling of the root itself is
// given to delete and rmdir (an empty directory is the one that rmdir can remove): the served root
// must survive, and the requests are judged by the model (failure code expected).
func c05EmptyRoot(e *Env) {
	run := e.Run
	for k, spell := range []string{"/", "", "/.", "//", "/x/..", ".", "/./"} {
		root := e.Dir(fmt.Sprintf("W/emptyroot%d", k))
		if k%2 == 1 {
			// the root is spelled through a symbolic link (which lives outside the root) to a directory that
			// is not empty: the link must survive as well
			real := e.Dir(fmt.Sprintf("W/realroot%d", k))
			must(os.WriteFile(filepath.Join(real, "keep.bin"), []byte("keep"), 0o644))
			must(os.Remove(root))
			must(os.Symlink(real, root))
		}
		p := e.Worker(worker.Config{Root: root, AllowWrite: true, BufSize: 65536}, fmt.Sprintf("c05-empty%d", k), false, 0)
		addr := p.HostPort()
		w := &model.World{Root: root, AllowWrite: true, Views: model.PlainViews, Probe: func() error { return host.Probe(addr) }}
		reqs := []wire.Req{wire.P(wire.OpDelete, spell), wire.P(wire.OpRmdir, spell), wire.P(wire.OpStat, "/"), wire.P(wire.OpMkdir, "/d"), wire.P(wire.OpRmdir, "/d"), wire.P(wire.OpRmdir, spell)}
		res := RunLockstep(addr, w, reqs, e.Watchdog, 0, false)
		run.Eval(len(reqs))
		run.Sig("empty-root spelling %q", spell)
		if res.Fail != nil {
			judgeModelFail(e, res.Fail, reqs, res.FailAt, "", res.Fail.Feature, fmt.Sprintf("[empty root, allow_write=true, spelling %q] %s", spell, res.Fail.Detail), map[string]any{"root_spelling": spell, "requests": trimReqs(reqs), "transcript": tailStr(res.Log, 8)})
		}
		if _, err := os.Lstat(root); err != nil {
			run.Violate("remove-root", pick2(k%2 == 1, "symlinked-root", "empty-root"), fmt.Sprintf("after DELETE/RMDIR %q the served root (%s) is gone from its parent directory: %v", spell, pick2(k%2 == 1, "a symbolic link to a non-empty directory", "an empty directory"), err), map[string]any{"root_spelling": spell})
		}
		p.Stop()
	}
}

func pick2(c bool, a, b string) string {
	if c {
		return a
	}
	return b
}


// c05Media adds images with key files around them to a private subtree: the quantifier's "targets that
// are ... encrypted images". A mutating request aimed at an image has exactly its named effect: the key
// beside it, the key in REDKEY and the neighbours stay as they are.
func c05Media(root, name string) {
	m := filepath.Join(root, name, "media")
	must(os.MkdirAll(filepath.Join(m, "PS3ISO"), 0o755))
	must(os.MkdirAll(filepath.Join(m, "REDKEY"), 0o755))
	must(os.MkdirAll(filepath.Join(m, "empty"), 0o755))
	img := tree.Content(77, 3*2048)
	for _, f := range []string{"PS3ISO/a.iso", "PS3ISO/b.ISO", "c.iso", "d.bin"} {
		must(os.WriteFile(filepath.Join(m, f), img, 0o644))
	}
	key := []byte("000102030405060708090a0b0c0d0e0f")
	for _, f := range []string{"PS3ISO/a.dkey", "PS3ISO/new.dkey", "REDKEY/a.dkey", "REDKEY/b.dkey", "c.dkey", "d.dkey", "PS3ISO/a.iso.dkey"} {
		must(os.WriteFile(filepath.Join(m, f), key, 0o644))
	}
}
