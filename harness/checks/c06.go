//go:build verif

package checks

import (
	"fmt"
	"math/rand"
	"os"
	"path/filepath"
	"strings"
	"sync"

	"verif/host"
	"verif/model"
	"verif/tree"
	"verif/wire"
	"verif/worker"
)

// c06Tree generates one directory shape below root/<name> and returns the relative paths of all
// directories and of all objects.
func c06Tree(r *rand.Rand, root, name string, shape string, big int) (dirs, all []string) {
	base := filepath.Join(root, name)
	must(os.MkdirAll(base, 0o755))
	rel := "/" + name
	dirs = append(dirs, rel)
	all = append(all, rel)
	mk := func(relp string, size int64) {
		must(os.WriteFile(filepath.Join(root, relp), tree.Content(r.Int63(), size), 0o644))
		all = append(all, relp)
	}
	mkdir := func(relp string) {
		must(os.MkdirAll(filepath.Join(root, relp), 0o755))
		dirs = append(dirs, relp)
		all = append(all, relp)
	}
	chtimes := func() {
		// distinct, known timestamps
		filepath.Walk(base, func(p string, fi os.FileInfo, err error) error {
			if err == nil && fi.Mode()&os.ModeSymlink == 0 {
				t := int64(1_500_000_000 + r.Intn(100_000_000))
				os.Chtimes(p, timeUnix(t-int64(r.Intn(5000))-100_000_000), timeUnix(t))
			}
			return nil
		})
	}
	switch shape {
	case "empty":
	case "one":
		mk(rel+"/only.bin", int64(r.Intn(5000)))
	case "many":
		for i := 0; i < big; i++ {
			if i%50 == 7 {
				mkdir(fmt.Sprintf("%s/d%05d", rel, i))
			} else {
				mk(fmt.Sprintf("%s/f%05d.dat", rel, i), int64(i%7))
			}
		}
	case "n512", "n1024", "n515", "n1536":
		var n int
		fmt.Sscanf(shape, "n%d", &n)
		for i := 0; i < n; i++ {
			mk(fmt.Sprintf("%s/e%04d", rel, i), int64(i%3))
		}
	case "nested":
		cur := rel
		for d := 0; d < 6; d++ {
			cur = cur + fmt.Sprintf("/lvl%d", d)
			mkdir(cur)
			for i := 0; i < 1+r.Intn(4); i++ {
				mk(fmt.Sprintf("%s/n%d_%d.bin", cur, d, i), tree.BoundarySizes[r.Intn(len(tree.BoundarySizes))])
			}
		}
	case "names":
		long := strings.Repeat("L", 255)
		mk(rel+"/"+long, 3)
		mkdir(rel + "/" + strings.Repeat("D", 255))
		mk(rel+"/"+strings.Repeat("é", 127), 5) // 254 bytes of UTF-8
		mk(rel+"/日本語のファイル名.iso", 100)
		mk(rel+"/sp ace\ttab.txt", 1)
		mk(rel+"/bad\xff\xfeutf8", 2) // not valid UTF-8
		mk(rel+"/***DVD***", 9)       // a literal file with the magic name
		mkdir(rel + "/***PS3***")
		mk(rel+"/CLOSEFILE.txt", 4)
		mk(rel+"/-dash", 1)
		mk(rel+"/.hidden", 1)
		mk(rel+"/new\nline", 1)
	case "links":
		mk(rel+"/target.bin", 1234)
		mkdir(rel + "/tdir")
		mk(rel+"/tdir/inner.bin", 77)
		must(os.Symlink("target.bin", filepath.Join(root, rel, "lfile")))
		must(os.Symlink("tdir", filepath.Join(root, rel, "ldir")))
		must(os.Symlink("nowhere", filepath.Join(root, rel, "ldangling")))
		must(os.Symlink("tdir/inner.bin", filepath.Join(root, rel, "linner")))
		// links that lead nowhere for reasons other than a missing name: through a regular file
		// (ENOTDIR), to themselves (ELOOP), to a name that is too long (ENAMETOOLONG)
		must(os.Symlink("target.bin/child", filepath.Join(root, rel, "lthroughfile")))
		must(os.Symlink("lself", filepath.Join(root, rel, "lself")))
		must(os.Symlink(strings.Repeat("a", 300), filepath.Join(root, rel, "ltoolong")))
		all = append(all, rel+"/lfile", rel+"/ldir", rel+"/ldangling", rel+"/linner", rel+"/ldir/inner.bin", rel+"/lthroughfile", rel+"/lself", rel+"/ltoolong")
	case "random":
		n := tree.Gen(r, tree.GenOpt{MaxDepth: 3, MaxEntries: 9, MaxSize: 70000, NameLen: 24, EmptyFiles: true})
		must(tree.MaterializeRoot(base, n))
		f, d := tree.Paths(n)
		for _, p := range d {
			dirs = append(dirs, rel+p)
			all = append(all, rel+p)
		}
		for _, p := range f {
			all = append(all, rel+p)
		}
	}
	chtimes()
	return
}

func C06(e *Env) {
	run := e.Run
	run.Rule = "cases: one oracle-checked session per (tree, listing pattern): OPENDIR then READDIR / RDE* / RDE2* / a random interleaving of the three until the end marker (+1 extra request after it), plus STAT of every path and DIRSIZE of every directory of every tree; expected values come from the harness's own stat/lstat walk; non-trivial = distinct (shape, command pattern, outcome) reached"
	root := e.Dir("W/root")
	p := e.Worker(worker.Config{Root: root, AllowWrite: false, BufSize: 65536}, "c06", false, 0)
	defer p.Stop()
	addr := p.HostPort()
	w := &model.World{Root: root, Views: model.PlainViews, Probe: func() error { return host.Probe(addr) }}
	rng := e.Rng(6)
	shapes := []string{"empty", "one", "many", "nested", "names", "links", "random", "n512", "n1024", "n515", "n1536"}
	big := e.Pick(5000, 20000)
	type sess struct {
		shape, pat string
		reqs       []wire.Req
	}
	var list []sess
	nTrees := e.Pick(150, 6000)
	var mu sync.Mutex
	entriesListed := 0
	for t := 0; t < nTrees; t++ {
		shape := shapes[t%len(shapes)]
		if shape == "many" && t >= len(shapes)*e.Pick(1, 3) {
			shape = "random"
		}
		name := fmt.Sprintf("t%04d_%s", t, shape)
		dirs, all := c06Tree(rng, root, name, shape, big)
		for _, d := range dirs {
			cnt := 0
			if names, err := os.ReadDir(filepath.Join(root, d)); err == nil {
				cnt = len(names)
			}
			for _, pat := range []string{"READDIR", "RDE", "RDE2", "mix", "mix-3-then-bulk"} {
				if len(dirs) > 12 && rng.Intn(3) != 0 {
					continue
				}
				reqs := []wire.Req{wire.P(wire.OpOpenDir, d)}
				switch pat {
				case "READDIR":
					reqs = append(reqs, wire.Bare(wire.OpReadDir), wire.Bare(wire.OpReadDir), wire.Bare(wire.OpRDE))
				case "RDE", "RDE2":
					op := wire.OpRDE
					if pat == "RDE2" {
						op = wire.OpRDE2
					}
					for i := 0; i < cnt+2; i++ {
						reqs = append(reqs, wire.Bare(op))
					}
				case "mix-3-then-bulk":
					reqs = append(reqs, wire.Bare(wire.OpRDE), wire.Bare(wire.OpRDE2), wire.Bare(wire.OpRDE), wire.Bare(wire.OpReadDir), wire.Bare(wire.OpRDE))
				case "mix":
					for i := 0; i < cnt+2; i++ {
						switch rng.Intn(5) {
						case 0:
							reqs = append(reqs, wire.Bare(wire.OpRDE))
						case 1:
							reqs = append(reqs, wire.Bare(wire.OpRDE2))
						case 2:
							reqs = append(reqs, wire.P(wire.OpStat, all[rng.Intn(len(all))]))
						case 3:
							if rng.Intn(6) == 0 {
								reqs = append(reqs, wire.Bare(wire.OpReadDir))
							} else {
								reqs = append(reqs, wire.Bare(wire.OpRDE2))
							}
						default:
							reqs = append(reqs, wire.Bare(wire.OpRDE))
						}
					}
					reqs = append(reqs, wire.Bare(wire.OpRDE), wire.Bare(wire.OpRDE2))
				}
				list = append(list, sess{shape, pat, reqs})
				mu.Lock()
				entriesListed += cnt
				mu.Unlock()
			}
		}
		// a second directory opened in the middle of an enumeration: nothing of the first may leak into it
		if len(dirs) >= 2 {
			for k := 0; k < 3; k++ {
				d1, d2 := dirs[rng.Intn(len(dirs))], dirs[rng.Intn(len(dirs))]
				c1, c2 := 0, 0
				if n, err := os.ReadDir(filepath.Join(root, d1)); err == nil {
					c1 = len(n)
				}
				if n, err := os.ReadDir(filepath.Join(root, d2)); err == nil {
					c2 = len(n)
				}
				reqs := []wire.Req{wire.P(wire.OpOpenDir, d1)}
				op := []wire.Op{wire.OpRDE, wire.OpRDE2}[k%2]
				for i := 0; i < c1/2+k%2; i++ {
					reqs = append(reqs, wire.Bare(op))
				}
				reqs = append(reqs, wire.P(wire.OpOpenDir, d2))
				if k == 2 {
					reqs = append(reqs, wire.Bare(wire.OpRDE), wire.Bare(wire.OpReadDir))
				} else {
					for i := 0; i < c2+1; i++ {
						reqs = append(reqs, wire.Bare(op))
					}
				}
				list = append(list, sess{shape, "reopen-mid-enumeration", reqs})
			}
		}
		// OPENDIR truth for non-directories and missing paths, STAT of everything, DIRSIZE of every directory
		var reqs []wire.Req
		for _, a := range all {
			reqs = append(reqs, wire.P(wire.OpStat, a))
			if len(all) < 200 || rng.Intn(20) == 0 {
				reqs = append(reqs, wire.P(wire.OpOpenDir, a))
			}
		}
		reqs = append(reqs, wire.P(wire.OpStat, "/"+name+"/does-not-exist"), wire.P(wire.OpOpenDir, "/"+name+"/does-not-exist"))
		// paths that fail with something else than ENOENT: beneath a regular file (ENOTDIR), a name
		// longer than the file system allows (ENAMETOOLONG), NUL
		for _, a := range all {
			if st, err := os.Stat(filepath.Join(root, a)); err == nil && !st.IsDir() {
				reqs = append(reqs, wire.P(wire.OpStat, a+"/beneath/a/file"), wire.P(wire.OpOpenDir, a+"/x"), wire.P(wire.OpDirSize, a+"/x"))
				break
			}
		}
		reqs = append(reqs, wire.P(wire.OpStat, "/"+name+"/"+strings.Repeat("x", 300)), wire.P(wire.OpOpenDir, "/"+name+"/"+strings.Repeat("y", 256)), wire.P(wire.OpStat, "/"+name+"/nul\x00byte"))
		for _, d := range dirs {
			reqs = append(reqs, wire.P(wire.OpDirSize, d))
		}
		reqs = append(reqs, wire.P(wire.OpDirSize, "/"+name+"/does-not-exist"))
		list = append(list, sess{shape, "stat+dirsize", reqs})
	}
	list = append(list, sess{"root", "stat+dirsize", []wire.Req{wire.P(wire.OpStat, "/"), wire.P(wire.OpStat, ""), wire.P(wire.OpDirSize, "/"), wire.P(wire.OpOpenDir, "/"), wire.Bare(wire.OpReadDir)}})
	cover := map[string]int{}
	ParallelDo(len(list), 8, func(i int) {
		s := list[i]
		res := RunLockstep(addr, w, s.reqs, e.Watchdog, 0, false)
		run.Eval(1)
		if res.Fail != nil {
			wit := map[string]any{"shape": s.shape, "pattern": s.pat, "requests": trimReqs(s.reqs), "failed_at": res.FailAt, "transcript": tailStr(res.Log, 30)}
			if res.Oracle != nil {
				wit["trace"] = tailStr(res.Oracle.Trace, 30)
			}
			judgeModelFail(e, res.Fail, s.reqs, res.FailAt, "", res.Fail.Feature, res.Fail.Detail, wit)
			return
		}
		mu.Lock()
		for k, v := range res.Oracle.Cover {
			cover[s.shape+" "+s.pat+" "+k] += v
		}
		mu.Unlock()
		if i%max(1, len(list)/10) == 0 {
			run.Sample(map[string]any{"shape": s.shape, "pattern": s.pat, "requests": len(s.reqs), "trace_head": tailStr(res.Oracle.Trace, 6)})
		}
	})
	for k := range cover {
		run.Sig("%s", k)
	}
	run.Obs("trees", nTrees)
	run.Obs("sessions", len(list))
	run.Obs("directory_entries_listed", entriesListed)
	run.Obs("largest_directory", big)
	CrashCheck(e, p, "c06 worker", nil)
}

func trimReqs(r []wire.Req) []string {
	s := reqStrings(r)
	if len(s) > 40 {
		s = append(s[:40:40], fmt.Sprintf("... %d more", len(r)-40))
	}
	return s
}

func tailStr(s []string, n int) []string {
	if len(s) > n {
		return s[len(s)-n:]
	}
	return s
}
