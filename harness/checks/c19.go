//go:build verif

package checks

import (
	"encoding/json"
	"fmt"
	"net"
	"net/http"
	"os"
	"path/filepath"
	"regexp"
	"sort"
	"strings"
	"sync"
	"sync/atomic"
	"time"

	"verif/host"
	"verif/wire"
)

// C19: configuration channels. Every case launches the real binary once and decides by what the
// server then DOES (which file it sees, which address accepts, whether MKDIR works, ...), never by
// what the binary says about its own configuration.

// channel ids (also used in violation features)
const (
	c19Flag    = "flag"    // --S=V after the subcommand
	c19EnvVar  = "env"     // PS3NETSRV_S=V
	c19Ini     = "ini"     // --config=<file> (global flag, before the subcommand)
	c19EnvFile = "envfile" // PS3NETSRV_CONFIG_FILE=<file>
	c19CwdIni  = "cwdini"  // ./config.ini in the working directory
	c19UserIni = "userini" // $XDG_CONFIG_HOME/ps3netsrv-go/config.ini
)

var c19Channels = []string{c19Flag, c19EnvVar, c19Ini, c19EnvFile, c19CwdIni, c19UserIni}

type c19Value struct {
	val   string // the configured value
	state string // the behaviour the probe must then observe
}

type c19Setting struct {
	name, env string
	isBool    bool
	prim, alt c19Value
	def       string // behaviour with the setting absent ("" = never launched that way)
	attempts  int    // launches before a mismatch becomes a violation
}

type c19Assign struct {
	Ch  string `json:"channel"`
	Val string `json:"value"`
}

type c19Obs struct {
	state        string
	inconclusive bool
	note         string
	crash        string
	startErr     string
}

type c19ctx struct {
	e             *Env
	seq           atomic.Int64
	rootA, rootB  string
	missing, file string
	defPortMu     sync.Mutex // serialises launches that could fall back to the fixed default port
	mu            sync.Mutex
	pairs         map[string]string
	sampled       map[string]bool
}

type c19Launch struct {
	p        *host.Proc
	err      error
	base     string
	root     string
	args     []string
	env      []string
	files    map[string]string
	assigns  []c19Assign
	settingN string
}

var (
	c19MainRe = regexp.MustCompile(`Listening\.\.\.[^\n]*?((?:\d{1,3}\.){3}\d{1,3}):(\d+)`)
	c19DbgSrv = regexp.MustCompile(`Debug se\w*r listening\.\.\.[^\n]*?((?:\d{1,3}\.){3}\d{1,3}):(\d+)`)
	c19DbgLvl = regexp.MustCompile(`( DBG | DEBUG |"level":"DEBUG")`)
)

func c19Tail(s string, n int) string {
	if len(s) > n {
		return "..." + s[len(s)-n:]
	}
	return s
}

func (L *c19Launch) witness() map[string]any {
	w := map[string]any{"setting": L.settingN, "assignments": L.assigns, "args": L.args, "env": L.env, "files": L.files,
		"note": "paths are inside the check's scratch directory; args are given to ps3netsrv-go; HOME and XDG_CONFIG_HOME point to fresh directories"}
	if L.p != nil {
		w["exit"] = L.p.ExitString()
		w["output_tail"] = c19Tail(L.p.Stderr(), 1800)
	}
	if L.err != nil {
		w["spawn_error"] = c19Tail(L.err.Error(), 600)
	}
	return w
}

// launch starts the binary with setting s given through the listed channels.
func (x *c19ctx) launch(s *c19Setting, assigns []c19Assign, waitListen bool) *c19Launch {
	return x.launchEnv(s, assigns, waitListen, nil)
}

// launchEnv: like launch, with additional environment variables (settings other than s given on the side).
func (x *c19ctx) launchEnv(s *c19Setting, assigns []c19Assign, waitListen bool, extraEnv []string) *c19Launch {
	id := x.seq.Add(1)
	base := filepath.Join(x.e.Scratch, "c19", fmt.Sprintf("%04d", id))
	cwd, home, xdg, root := filepath.Join(base, "cwd"), filepath.Join(base, "home"), filepath.Join(base, "xdg"), filepath.Join(base, "root")
	for _, d := range []string{cwd, home, xdg, root} {
		must(os.MkdirAll(d, 0o755))
	}
	must(os.WriteFile(filepath.Join(root, "markerW.txt"), []byte("w"), 0o644))
	L := &c19Launch{base: base, root: root, files: map[string]string{}, assigns: assigns, settingN: s.name}
	L.env = append([]string{"HOME=" + home, "XDG_CONFIG_HOME=" + xdg}, extraEnv...)
	var global, flags []string
	writeIni := func(path, val string) {
		must(os.MkdirAll(filepath.Dir(path), 0o755))
		content := "[server]\n" + s.name + " = " + val + "\n"
		must(os.WriteFile(path, []byte(content), 0o644))
		L.files[path] = content
	}
	for _, a := range assigns {
		switch a.Ch {
		case c19Flag:
			switch {
			case s.isBool && a.Val == "true":
				flags = append(flags, "--"+s.name)
			default:
				flags = append(flags, "--"+s.name+"="+a.Val)
			}
		case c19EnvVar:
			L.env = append(L.env, s.env+"="+a.Val)
		case c19Ini:
			f := filepath.Join(base, "given-by-flag.ini")
			writeIni(f, a.Val)
			global = append(global, "--config="+f)
		case c19EnvFile:
			f := filepath.Join(base, "given-by-env.ini")
			writeIni(f, a.Val)
			L.env = append(L.env, "PS3NETSRV_CONFIG_FILE="+f)
		case c19CwdIni:
			writeIni(filepath.Join(cwd, "config.ini"), a.Val)
		case c19UserIni:
			writeIni(filepath.Join(xdg, "ps3netsrv-go", "config.ini"), a.Val)
		default:
			fatalf("c19: unknown channel %q", a.Ch)
		}
	}
	args := append(global, "server")
	if s.name != "root" {
		args = append(args, "--root="+root)
	}
	if s.name != "listen-addr" {
		args = append(args, "--listen-addr=127.0.0.1:0")
	}
	args = append(args, flags...)
	L.args = args
	L.p, L.err = host.SpawnBin(x.e.Bin, args, host.Opt{Dir: x.e.Dir("logs"), Tag: fmt.Sprintf("c19-%04d", id), Env: L.env}, cwd, waitListen)
	return L
}

// mainAddr is where the log says the main server listens.
func (L *c19Launch) mainAddr() (string, int) {
	if m := c19MainRe.FindStringSubmatch(L.p.Stderr()); m != nil {
		var port int
		fmt.Sscan(m[2], &port)
		return m[1], port
	}
	return "", 0
}

func c19Dial(addr string, local net.Addr, wd time.Duration) (*wire.Client, error) {
	deadline := time.Now().Add(5 * time.Second)
	for {
		c, err := wire.Dial(addr, local, wd)
		if err == nil {
			return c, nil
		}
		if time.Now().After(deadline) {
			return nil, err
		}
		time.Sleep(50 * time.Millisecond)
	}
}

func c19Local(ip string) net.Addr { return &net.TCPAddr{IP: net.ParseIP(ip)} }

// c19More continues reading a want-byte answer into *got.
func c19More(c *wire.Client, got *[]byte, want int, wd time.Duration) wire.ReadStatus {
	b, st := c.ReadNT(want-len(*got), wd)
	*got = append(*got, b...)
	if len(*got) >= want {
		return wire.Full
	}
	return st
}

// c19Stat performs one STAT round trip.
func c19Stat(c *wire.Client, path string, wd time.Duration) (wire.StatRes, wire.ReadStatus, int) {
	c.Send(wire.P(wire.OpStat, path))
	b, st := c.ReadNT(wire.SzStat, wd)
	if st != wire.Full {
		return wire.StatRes{}, st, len(b)
	}
	return wire.DecodeStat(b), st, len(b)
}

func c19Bad(st wire.ReadStatus, what string) c19Obs {
	if st == wire.Timeout {
		return c19Obs{inconclusive: true, note: what + ": no answer within the watchdog"}
	}
	return c19Obs{state: "error", note: what + ": connection closed by the server"}
}

// ---- behaviour probes ----

func (x *c19ctx) probeRoot(L *c19Launch, addr string) c19Obs {
	c, err := c19Dial(addr, nil, 10*time.Second)
	if err != nil {
		return c19Obs{inconclusive: true, note: "dial: " + err.Error()}
	}
	defer c.Close()
	seen := ""
	for _, m := range []string{"A", "B", "W"} {
		r, st, _ := c19Stat(c, "/marker"+m+".txt", 10*time.Second)
		if st != wire.Full {
			return c19Bad(st, "STAT /marker"+m+".txt")
		}
		if r.Size != -1 {
			seen += m
		}
	}
	if seen == "" {
		seen = "none"
	}
	return c19Obs{state: "root-sees:" + seen}
}

func (x *c19ctx) probeListen(L *c19Launch) c19Obs {
	h, port := L.mainAddr()
	if h == "" {
		return c19Obs{state: "error", note: "no Listening line with an address"}
	}
	addr := fmt.Sprintf("%s:%d", h, port)
	c, err := c19Dial(addr, nil, 10*time.Second)
	if err != nil {
		return c19Obs{inconclusive: true, note: "log says " + addr + " but dial failed: " + err.Error()}
	}
	defer c.Close()
	r, st, _ := c19Stat(c, "/", 10*time.Second)
	if st != wire.Full {
		return c19Bad(st, "STAT / on "+addr)
	}
	if !r.IsDir {
		return c19Obs{state: "error", note: "STAT / on " + addr + " is not a directory"}
	}
	state := "listens:" + h
	if port == 38008 {
		state += ":38008(default port)"
	}
	return c19Obs{state: state}
}

func (x *c19ctx) probeAllowWrite(L *c19Launch, addr string) c19Obs {
	c, err := c19Dial(addr, nil, 10*time.Second)
	if err != nil {
		return c19Obs{inconclusive: true, note: "dial: " + err.Error()}
	}
	defer c.Close()
	name := fmt.Sprintf("/probe%d", x.seq.Add(1))
	c.Send(wire.P(wire.OpMkdir, name))
	b, st := c.ReadNT(wire.SzResult, 10*time.Second)
	if st != wire.Full {
		return c19Bad(st, "MKDIR "+name)
	}
	_, statErr := os.Stat(filepath.Join(L.root, name))
	switch v := wire.I32(b); {
	case v == 0 && statErr == nil:
		return c19Obs{state: "write:on"}
	case v == -1 && statErr != nil:
		return c19Obs{state: "write:off"}
	default:
		return c19Obs{state: "error", note: fmt.Sprintf("MKDIR %s answered %d, directory on disk: %v", name, v, statErr == nil)}
	}
}

func (x *c19ctx) probeWhitelist(L *c19Launch, addr string) c19Obs {
	var served []string
	for _, ip := range []string{"127.0.0.1", "127.0.0.2", "127.0.0.3"} {
		c, err := c19Dial(addr, c19Local(ip), 10*time.Second)
		if err != nil {
			return c19Obs{inconclusive: true, note: "dial from " + ip + ": " + err.Error()}
		}
		_, st, n := c19Stat(c, "/", 10*time.Second)
		c.Close()
		switch {
		case st == wire.Full:
			served = append(served, ip)
		case st == wire.Closed && n == 0: // closed without any response byte
		case st == wire.Closed:
			return c19Obs{state: "error", note: fmt.Sprintf("client from %s got %d bytes and then a close", ip, n)}
		default:
			return c19Obs{inconclusive: true, note: "client from " + ip + ": neither an answer nor a close within 10 s"}
		}
	}
	if len(served) == 0 {
		return c19Obs{state: "serves:nobody"}
	}
	return c19Obs{state: "serves:" + strings.Join(served, ",")}
}

func (x *c19ctx) probeMaxClients(L *c19Launch, addr string, rounds int, poll time.Duration) c19Obs {
	c1, err := c19Dial(addr, nil, 10*time.Second)
	if err != nil {
		return c19Obs{inconclusive: true, note: "dial: " + err.Error()}
	}
	defer c1.Close()
	if _, st, _ := c19Stat(c1, "/", 10*time.Second); st != wire.Full {
		return c19Bad(st, "first client STAT")
	}
	c2, err := c19Dial(addr, nil, 10*time.Second)
	if err != nil {
		return c19Obs{inconclusive: true, note: "second dial: " + err.Error()}
	}
	defer c2.Close()
	c2.Send(wire.P(wire.OpStat, "/"))
	var got []byte
	for k := 0; k < rounds; k++ {
		switch c19More(c2, &got, wire.SzStat, poll) {
		case wire.Full:
			if _, st, _ := c19Stat(c1, "/", 10*time.Second); st != wire.Full {
				return c19Bad(st, "held client STAT after the second was served")
			}
			return c19Obs{state: "clients:two-at-once"}
		case wire.Closed:
			return c19Obs{state: "error", note: "second client was closed"}
		}
		if _, st, _ := c19Stat(c1, "/", 10*time.Second); st != wire.Full {
			return c19Bad(st, "held client STAT")
		}
	}
	// the second client stayed unanswered while the held client completed `rounds` round trips
	c1.Close()
	switch c19More(c2, &got, wire.SzStat, 10*time.Second) {
	case wire.Full:
		return c19Obs{state: "clients:one-at-a-time", note: fmt.Sprintf("second client unanswered during %d round trips of the first, answered after the first left", rounds)}
	case wire.Closed:
		return c19Obs{state: "error", note: "second client closed after the first left"}
	}
	return c19Obs{inconclusive: true, note: "second client still unanswered 10 s after the first left"}
}

func (x *c19ctx) probeReadTimeout(L *c19Launch, addr string, window time.Duration) c19Obs {
	c, err := c19Dial(addr, nil, window)
	if err != nil {
		return c19Obs{inconclusive: true, note: "dial: " + err.Error()}
	}
	defer c.Close()
	start := time.Now()
	b, st := c.ReadNT(1, window)
	el := time.Since(start)
	if !L.p.Alive() {
		return c19Obs{state: "error", note: "process ended during the idle wait"}
	}
	switch {
	case len(b) > 0:
		return c19Obs{state: "error", note: "unsolicited byte on an idle connection"}
	case st == wire.Closed && el < 100*time.Millisecond:
		return c19Obs{state: "idle:cut-too-early", note: fmt.Sprintf("closed after %v", el)}
	case st == wire.Closed:
		return c19Obs{state: "idle:cut", note: fmt.Sprintf("closed after %v", el.Round(time.Millisecond))}
	}
	return c19Obs{state: "idle:kept", note: fmt.Sprintf("still open after %v", window)}
}

// roundTrip makes the server handle one request (so that per-request log lines exist).
func c19RoundTrip(addr string) c19Obs {
	c, err := c19Dial(addr, nil, 10*time.Second)
	if err != nil {
		return c19Obs{inconclusive: true, note: "dial: " + err.Error()}
	}
	defer c.Close()
	if _, st, _ := c19Stat(c, "/", 10*time.Second); st != wire.Full {
		return c19Bad(st, "STAT /")
	}
	return c19Obs{}
}

func (x *c19ctx) probeDebug(L *c19Launch, addr string) c19Obs {
	if o := c19RoundTrip(addr); o.inconclusive || o.state != "" {
		return o
	}
	// the short poll covers asynchronous debug lines
	for i := 0; ; i++ {
		out := L.p.Stderr()
		if c19DbgLvl.MatchString(out) {
			// which records exist at debug level, and their texts, is the implementation's business:
			// the setting is in force when records of that level are written at all
			return c19Obs{state: "log:debug-lines"}
		}
		if i >= 10 {
			return c19Obs{state: "log:no-debug-lines"}
		}
		time.Sleep(30 * time.Millisecond)
	}
}

func (x *c19ctx) probeJSON(L *c19Launch, addr string) c19Obs {
	if o := c19RoundTrip(addr); o.inconclusive || o.state != "" {
		return o
	}
	b, _ := os.ReadFile(L.p.StdoutPath)
	nJSON, nText, listenJSON := 0, 0, false
	for _, line := range strings.Split(string(b), "\n") {
		if strings.TrimSpace(line) == "" {
			continue
		}
		var v map[string]any
		if json.Unmarshal([]byte(line), &v) == nil {
			nJSON++
			if strings.Contains(line, "Listening...") {
				listenJSON = true
			}
		} else {
			nText++
		}
	}
	switch {
	case nJSON > 0 && nText == 0 && listenJSON:
		return c19Obs{state: "log:json", note: fmt.Sprintf("%d lines", nJSON)}
	case nText > 0 && !listenJSON:
		return c19Obs{state: "log:text", note: fmt.Sprintf("%d text lines, %d json lines", nText, nJSON)}
	}
	return c19Obs{state: "log:mixed", note: fmt.Sprintf("%d text lines, %d json lines", nText, nJSON)}
}

func (x *c19ctx) probeDebugServer(L *c19Launch, addr string, wait time.Duration) c19Obs {
	if o := c19RoundTrip(addr); o.inconclusive || o.state != "" {
		return o
	}
	deadline := time.Now().Add(wait)
	var m []string
	for {
		if m = c19DbgSrv.FindStringSubmatch(L.p.Stderr()); m != nil || time.Now().After(deadline) {
			break
		}
		time.Sleep(25 * time.Millisecond)
	}
	if m == nil {
		return c19Obs{state: "pprof:none"}
	}
	url := fmt.Sprintf("http://%s:%s/debug/pprof/", m[1], m[2])
	cl := &http.Client{Timeout: 5 * time.Second, Transport: &http.Transport{DisableKeepAlives: true, Proxy: nil}}
	var lastErr error
	for until := time.Now().Add(5 * time.Second); ; {
		resp, err := cl.Get(url)
		if err == nil {
			resp.Body.Close()
			if resp.StatusCode == 200 {
				return c19Obs{state: "pprof:" + m[1]}
			}
			return c19Obs{state: "error", note: fmt.Sprintf("GET %s -> HTTP %d", url, resp.StatusCode)}
		}
		lastErr = err
		if time.Now().After(until) {
			break
		}
		time.Sleep(50 * time.Millisecond)
	}
	return c19Obs{inconclusive: true, note: fmt.Sprintf("GET %s: %v", url, lastErr)}
}

// observe launches once and reports the behaviour of setting s. expect steers only how long
// absence-type observations wait; attempt > 0 means a retry (longer polls).
func (x *c19ctx) observe(s *c19Setting, assigns []c19Assign, expect string, attempt int) (c19Obs, *c19Launch) {
	if s.name == "listen-addr" {
		viaFlag := false
		for _, a := range assigns {
			viaFlag = viaFlag || a.Ch == c19Flag
		}
		if !viaFlag {
			// if the channel under test is ignored the binary uses the fixed default port: one at a time
			x.defPortMu.Lock()
			defer x.defPortMu.Unlock()
		}
	}
	L := x.launch(s, assigns, true)
	if L.p == nil {
		fatalf("c19: cannot start the binary: %v", L.err)
	}
	defer L.p.Stop()
	x.e.Run.Eval(1)
	x.e.Run.Count("launches", 1)
	if L.err != nil {
		o := c19Obs{state: "start-failed", startErr: c19Tail(L.err.Error(), 700), crash: L.p.CrashTrace()}
		out := L.p.Stderr()
		if strings.Contains(out, "listen failed") && !strings.Contains(out, ":38008") {
			o.inconclusive = true
			o.note = "the requested test address could not be bound"
		}
		return o, L
	}
	h, port := L.mainAddr()
	if h == "" || h == "0.0.0.0" {
		h = "127.0.0.1"
	}
	if port == 0 {
		port = L.p.Port
	}
	addr := fmt.Sprintf("%s:%d", h, port)
	var o c19Obs
	switch s.name {
	case "root":
		o = x.probeRoot(L, addr)
	case "listen-addr":
		o = x.probeListen(L)
	case "allow-write":
		o = x.probeAllowWrite(L, addr)
	case "client-whitelist":
		o = x.probeWhitelist(L, addr)
	case "max-clients":
		rounds, poll := 3, 300*time.Millisecond
		if attempt > 0 {
			rounds, poll = 8, 500*time.Millisecond
		}
		o = x.probeMaxClients(L, addr, rounds, poll)
	case "read-timeout":
		window := 3 * time.Second
		switch expect {
		case "idle:cut":
			window = 10 * time.Second
		case "idle:kept":
			window = 1500 * time.Millisecond
		}
		o = x.probeReadTimeout(L, addr, window)
	case "debug":
		o = x.probeDebug(L, addr)
	case "json-log":
		o = x.probeJSON(L, addr)
	case "debug-server-listen-addr":
		wait := 2 * time.Second
		if strings.HasPrefix(expect, "pprof:") && expect != "pprof:none" {
			wait = 5 * time.Second
		} else if expect == "pprof:none" {
			wait = time.Second
		}
		o = x.probeDebugServer(L, addr, wait)
	default:
		fatalf("c19: no probe for %s", s.name)
	}
	o.crash = L.p.CrashTrace()
	if o.crash == "" && !L.p.Alive() {
		o.state, o.note = "error", "process ended during the probe: "+L.p.ExitString()
	}
	return o, L
}

// c19Short replaces the per-run scratch prefix so that texts are stable between runs.
func c19Short(v string) string {
	if i := strings.Index(v, "/c19/shared/"); i >= 0 {
		return "<scratch>/" + v[i+len("/c19/shared/"):]
	}
	return v
}

func c19Desc(s *c19Setting, assigns []c19Assign) string {
	if len(assigns) == 0 {
		return s.name + " absent"
	}
	var parts []string
	for _, a := range assigns {
		parts = append(parts, fmt.Sprintf("%s:%s=%s", a.Ch, s.name, c19Short(a.Val)))
	}
	return strings.Join(parts, " + ")
}

// judged runs a case whose behaviour is fixed by the statement. A mismatch is retried with a fresh
// launch; only a mismatch in every attempt (and no timing doubt in any) becomes a violation.
func (x *c19ctx) judged(s *c19Setting, assigns []c19Assign, expect, rule, feature, kind string) bool {
	run := x.e.Run
	var hist []string
	var lastL *c19Launch
	doubt := ""
	for a := 0; a < s.attempts; a++ {
		o, L := x.observe(s, assigns, expect, a)
		lastL = L
		if o.crash != "" {
			run.Violate("crash", feature, fmt.Sprintf("%s: the binary died: %s", c19Desc(s, assigns), c19Tail(o.crash, 400)), L.witness())
			return false
		}
		if !o.inconclusive && o.state == expect {
			if a > 0 {
				run.Count("passed_on_retry", 1)
			}
			x.sample(kind, map[string]any{"kind": kind, "case": c19Desc(s, assigns), "args": L.args, "env": L.env, "files": L.files, "observed": o.state, "note": o.note})
			return true
		}
		if o.inconclusive {
			doubt = o.note
		}
		h := o.state
		if o.note != "" {
			h += " (" + o.note + ")"
		}
		if o.startErr != "" {
			h += " [" + o.startErr + "]"
		}
		hist = append(hist, h)
	}
	if doubt != "" {
		run.Inconclusive(fmt.Sprintf("%s %s: %s; attempts: %v", kind, c19Desc(s, assigns), doubt, hist))
		return false
	}
	detail := fmt.Sprintf("%s: expected behaviour %q, observed in %d of %d fresh launches: %s", c19Desc(s, assigns), expect, len(hist), s.attempts, strings.Join(hist, " | "))
	run.Violate(rule, feature, detail, lastL.witness())
	return false
}

func (x *c19ctx) sample(kind string, v any) {
	x.mu.Lock()
	first := !x.sampled[kind]
	x.sampled[kind] = true
	x.mu.Unlock()
	if first {
		x.e.Run.Sample(v)
	}
}

// recorded runs a conflict between two non-flag channels: outcome noted, never judged.
func (x *c19ctx) recorded(s *c19Setting, ch1, ch2 string) {
	assigns := []c19Assign{{ch1, s.prim.val}, {ch2, s.alt.val}}
	o, L := x.observe(s, assigns, "", 0)
	if o.crash != "" {
		x.e.Run.Violate("crash", s.name+"/"+ch1+"-vs-"+ch2, fmt.Sprintf("%s: the binary died: %s", c19Desc(s, assigns), c19Tail(o.crash, 400)), L.witness())
		return
	}
	out := "other: " + o.state
	switch {
	case o.inconclusive:
		out = "unclear: " + o.note
	case o.state == s.prim.state:
		out = ch1 + " wins"
	case o.state == s.alt.state:
		out = ch2 + " wins"
	}
	x.mu.Lock()
	x.pairs[fmt.Sprintf("%s: %s=%s vs %s=%s", s.name, ch1, c19Short(s.prim.val), ch2, c19Short(s.alt.val))] = out
	x.mu.Unlock()
	x.e.Run.Count("nonflag_conflicts_recorded", 1)
}

// twoFiles: channel chW gives allow-write=true, channel chD gives debug=true; both effects must show.
func (x *c19ctx) twoFiles(chW, chD string) {
	run := x.e.Run
	for attempt := 1; attempt <= 2; attempt++ {
		id := x.seq.Add(1)
		base := filepath.Join(x.e.Scratch, "c19", fmt.Sprintf("%04d", id))
		cwd, home, xdg, root := filepath.Join(base, "cwd"), filepath.Join(base, "home"), filepath.Join(base, "xdg"), filepath.Join(base, "root")
		for _, d := range []string{cwd, home, xdg, root} {
			must(os.MkdirAll(d, 0o755))
		}
		L := &c19Launch{base: base, root: root, files: map[string]string{}, settingN: "allow-write+debug"}
		L.env = []string{"HOME=" + home, "XDG_CONFIG_HOME=" + xdg}
		var global []string
		put := func(ch, key string) {
			content := "[server]\n" + key + " = true\n"
			var path string
			switch ch {
			case c19Ini:
				path = filepath.Join(base, "given-by-flag.ini")
				global = append(global, "--config="+path)
			case c19EnvFile:
				path = filepath.Join(base, "given-by-env.ini")
				L.env = append(L.env, "PS3NETSRV_CONFIG_FILE="+path)
			case c19CwdIni:
				path = filepath.Join(cwd, "config.ini")
			case c19UserIni:
				path = filepath.Join(xdg, "ps3netsrv-go", "config.ini")
			}
			must(os.MkdirAll(filepath.Dir(path), 0o755))
			must(os.WriteFile(path, []byte(content), 0o644))
			L.files[path] = content
		}
		put(chW, "allow-write")
		put(chD, "debug")
		L.args = append(global, "server", "--root="+root, "--listen-addr=127.0.0.1:0")
		L.p, L.err = host.SpawnBin(x.e.Bin, L.args, host.Opt{Dir: x.e.Dir("logs"), Tag: fmt.Sprintf("c19-%04d", id), Env: L.env}, cwd, true)
		run.Eval(1)
		run.Count("launches", 1)
		if L.p == nil || L.err != nil {
			if L.p != nil {
				L.p.Stop()
			}
			run.Inconclusive(fmt.Sprintf("two-files %s+%s: binary did not start: %v", chW, chD, L.err))
			return
		}
		h, port := L.mainAddr()
		if h == "" || h == "0.0.0.0" {
			h = "127.0.0.1"
		}
		addr := fmt.Sprintf("%s:%d", h, port)
		ow := x.probeAllowWrite(L, addr)
		od := x.probeDebug(L, addr)
		L.p.Stop()
		if ow.inconclusive || od.inconclusive {
			run.Inconclusive(fmt.Sprintf("two-files %s+%s: %s %s", chW, chD, ow.note, od.note))
			return
		}
		if ow.state == "write:on" && od.state == "log:debug-lines" {
			run.Sig("two files: allow-write via %s + debug via %s -> both in force", chW, chD)
			return
		}
		if attempt == 2 {
			wit := L.witness()
			wit["observed"] = []string{ow.state, od.state}
			what := "allow-write/" + chW
			if ow.state == "write:on" {
				what = "debug/" + chD
			}
			run.Violate("no-effect", what+"+other-file", fmt.Sprintf("allow-write=true given via %s and debug=true given via %s (two different files): observed %s and %s — a setting of one file is lost when another file is present", chW, chD, ow.state, od.state), wit)
		}
	}
}

// noHome: allow-write=true given through a file channel while neither HOME nor XDG_CONFIG_HOME is set.
func (x *c19ctx) noHome(ch string) {
	run := x.e.Run
	for attempt := 1; attempt <= 2; attempt++ {
		id := x.seq.Add(1)
		base := filepath.Join(x.e.Scratch, "c19", fmt.Sprintf("%04d", id))
		cwd, root := filepath.Join(base, "cwd"), filepath.Join(base, "root")
		for _, d := range []string{cwd, root} {
			must(os.MkdirAll(d, 0o755))
		}
		L := &c19Launch{base: base, root: root, files: map[string]string{}, settingN: "allow-write(no HOME)"}
		L.env = []string{"HOME=", "XDG_CONFIG_HOME="}
		var global []string
		content := "[server]\nallow-write = true\n"
		var path string
		switch ch {
		case c19Ini:
			path = filepath.Join(base, "given-by-flag.ini")
			global = append(global, "--config="+path)
		case c19EnvFile:
			path = filepath.Join(base, "given-by-env.ini")
			L.env = append(L.env, "PS3NETSRV_CONFIG_FILE="+path)
		case c19CwdIni:
			path = filepath.Join(cwd, "config.ini")
		}
		must(os.WriteFile(path, []byte(content), 0o644))
		L.files[path] = content
		L.args = append(global, "server", "--root="+root, "--listen-addr=127.0.0.1:0")
		L.p, L.err = host.SpawnBin(x.e.Bin, L.args, host.Opt{Dir: x.e.Dir("logs"), Tag: fmt.Sprintf("c19-%04d", id), Env: L.env}, cwd, true)
		run.Eval(1)
		run.Count("launches", 1)
		if L.p == nil || L.err != nil {
			if L.p != nil {
				L.p.Stop()
			}
			run.Inconclusive(fmt.Sprintf("no-HOME %s: binary did not start: %v", ch, L.err))
			return
		}
		h, port := L.mainAddr()
		if h == "" || h == "0.0.0.0" {
			h = "127.0.0.1"
		}
		ow := x.probeAllowWrite(L, fmt.Sprintf("%s:%d", h, port))
		L.p.Stop()
		if ow.inconclusive {
			run.Inconclusive(fmt.Sprintf("no-HOME %s: %s", ch, ow.note))
			return
		}
		if ow.state == "write:on" {
			run.Sig("allow-write via %s without HOME/XDG_CONFIG_HOME -> in force", ch)
			return
		}
		if attempt == 2 {
			wit := L.witness()
			wit["observed"] = ow.state
			run.Violate("no-effect", "allow-write/"+ch+"+no-home", fmt.Sprintf("allow-write=true given via %s has no effect when neither HOME nor XDG_CONFIG_HOME is set (observed %s)", ch, ow.state), wit)
		}
	}
}

// cmdNamedDirs: `ps3netsrv-go server` started in a directory that holds sub-directories called
// server, decrypt and make-iso; the root comes from channel ch (no --root flag).
func (x *c19ctx) cmdNamedDirs(ch string) {
	run := x.e.Run
	id := x.seq.Add(1)
	base := filepath.Join(x.e.Scratch, "c19", fmt.Sprintf("%04d", id))
	cwd, home, xdg, root := filepath.Join(base, "cwd"), filepath.Join(base, "home"), filepath.Join(base, "xdg"), filepath.Join(base, "root")
	for _, d := range []string{cwd, home, xdg, root, filepath.Join(cwd, "server"), filepath.Join(cwd, "decrypt"), filepath.Join(cwd, "make-iso")} {
		must(os.MkdirAll(d, 0o755))
	}
	must(os.WriteFile(filepath.Join(root, "markerW.txt"), []byte("w"), 0o644))
	must(os.WriteFile(filepath.Join(cwd, "server", "markerA.txt"), []byte("a"), 0o644))
	L := &c19Launch{base: base, root: root, files: map[string]string{}, settingN: "root(cwd has a directory named server)", assigns: []c19Assign{{Ch: ch, Val: root}}}
	L.env = []string{"HOME=" + home, "XDG_CONFIG_HOME=" + xdg}
	var global []string
	content := "[server]\nroot = " + root + "\n"
	switch ch {
	case c19EnvVar:
		L.env = append(L.env, "PS3NETSRV_ROOT="+root)
	case c19Ini:
		f := filepath.Join(base, "given-by-flag.ini")
		must(os.WriteFile(f, []byte(content), 0o644))
		L.files[f] = content
		global = append(global, "--config="+f)
	case c19EnvFile:
		f := filepath.Join(base, "given-by-env.ini")
		must(os.WriteFile(f, []byte(content), 0o644))
		L.files[f] = content
		L.env = append(L.env, "PS3NETSRV_CONFIG_FILE="+f)
	case c19CwdIni:
		f := filepath.Join(cwd, "config.ini")
		must(os.WriteFile(f, []byte(content), 0o644))
		L.files[f] = content
	}
	L.args = append(global, "server", "--listen-addr=127.0.0.1:0")
	L.p, L.err = host.SpawnBin(x.e.Bin, L.args, host.Opt{Dir: x.e.Dir("logs"), Tag: fmt.Sprintf("c19-%04d", id), Env: L.env}, cwd, true)
	run.Eval(1)
	run.Count("launches", 1)
	if L.p == nil || L.err != nil {
		wit := L.witness()
		if L.p != nil {
			L.p.Stop()
		}
		run.Violate("no-effect", "root/"+ch+"+dir-named-server", fmt.Sprintf("`ps3netsrv-go server` with root given via %s did not start in a working directory that contains a directory named server: %v", ch, L.err), wit)
		return
	}
	h, port := L.mainAddr()
	if h == "" || h == "0.0.0.0" {
		h = "127.0.0.1"
	}
	o := x.probeRoot(L, fmt.Sprintf("%s:%d", h, port))
	wit := L.witness()
	L.p.Stop()
	if o.inconclusive {
		run.Inconclusive(fmt.Sprintf("dir-named-server %s: %s", ch, o.note))
		return
	}
	if o.state != "root-sees:W" {
		wit["observed"] = o.state
		run.Violate("no-effect", "root/"+ch+"+dir-named-server", fmt.Sprintf("root given via %s is not the directory served when the working directory contains a directory named server (observed %s, want root-sees:W; A is ./server)", ch, o.state), wit)
		return
	}
	run.Sig("root via %s with ./server ./decrypt ./make-iso present -> in force", ch)
}

// malformed: the value must stop start-up (exit status != 0, never "Listening").
func (x *c19ctx) malformed(s *c19Setting, ch, val, label string) { x.malformedEnv(s, ch, val, label, false) }

// malformedEnv: with withDebugServer the debug server is enabled on the side (environment variable): a
// second listener of the same process must not keep a start-up alive that the invalid value has to stop.
func (x *c19ctx) malformedEnv(s *c19Setting, ch, val, label string, withDebugServer bool) {
	run := x.e.Run
	feature := s.name + "/" + ch
	var extraEnv []string
	if withDebugServer {
		feature += "+debug-server"
		label += ", debug server enabled"
		extraEnv = []string{"PS3NETSRV_DEBUG_SERVER_LISTEN_ADDR=127.0.0.1:0"}
	}
	keptRunning := 0
	assigns := []c19Assign{{ch, val}}
	var lastL *c19Launch
	accepted := 0
	var notes []string
	for a := 0; a < 2; a++ {
		L := x.launchEnv(s, assigns, false, extraEnv)
		lastL = L
		run.Eval(1)
		run.Count("launches", 1)
		if L.p == nil || L.err != nil {
			fatalf("c19: cannot start the binary: %v", L.err)
		}
		listening := false
		deadline := time.Now().Add(10 * time.Second)
		for time.Now().Before(deadline) {
			if c19MainRe.MatchString(L.p.Stderr()) {
				listening = true
				break
			}
			if !L.p.Alive() {
				listening = c19MainRe.MatchString(L.p.Stderr())
				break
			}
			time.Sleep(10 * time.Millisecond)
		}
		exited := !L.p.Alive()
		crash := L.p.CrashTrace()
		serving := ""
		if listening {
			if h, port := L.mainAddr(); h != "" {
				if h == "0.0.0.0" {
					h = "127.0.0.1"
				}
				if o := c19RoundTrip(fmt.Sprintf("%s:%d", h, port)); !o.inconclusive && o.state == "" {
					serving = " and answers STAT /"
				}
			}
		}
		code := -1
		if exited {
			code = L.p.ExitCode()
		}
		L.p.Stop()
		switch {
		case crash != "":
			run.Violate("crash", feature, fmt.Sprintf("%s (%s): the binary died: %s", c19Desc(s, assigns), label, c19Tail(crash, 400)), L.witness())
			return
		case listening:
			accepted++
			notes = append(notes, "started listening"+serving)
			continue
		case exited && code != 0:
			run.Sig("invalid %s (%s) via %s -> start-up refused", s.name, label, ch)
			run.Count("malformed_refused", 1)
			x.sample("malformed", map[string]any{"kind": "malformed", "case": c19Desc(s, assigns), "args": L.args, "env": L.env, "files": L.files, "exit_code": code, "output_tail": c19Tail(L.p.Stderr(), 300)})
			return
		case exited:
			run.Inconclusive(fmt.Sprintf("malformed %s: exited with status 0 without listening", c19Desc(s, assigns)))
			return
		case withDebugServer && c19DbgSrv.MatchString(L.p.Stderr()):
			// still running after 10 s, its debug server up: start-up was not stopped
			keptRunning++
			notes = append(notes, "kept running with only its debug server listening, no exit status")
			continue
		default:
			run.Inconclusive(fmt.Sprintf("malformed %s: neither exited nor listening after 10 s", c19Desc(s, assigns)))
			return
		}
	}
	if keptRunning == 2 {
		run.Violate("invalid-not-stopped", feature, fmt.Sprintf("%s (%s): the binary did not stop; in 2 of 2 fresh launches it %s", c19Desc(s, assigns), label, strings.Join(notes, " | ")), lastL.witness())
		return
	}
	if accepted == 2 {
		run.Violate("invalid-accepted", feature, fmt.Sprintf("%s (%s): the binary did not stop; in 2 of 2 fresh launches it %s", c19Desc(s, assigns), label, strings.Join(notes, " | ")), lastL.witness())
	}
}

func C19(e *Env) {
	run := e.Run
	if e.Bin == "" {
		fatalf("C19 needs the real binary (VERIF_BIN)")
	}
	run.Rule = "cases: one launch of the real binary per case, decided by behaviour probes (root: which marker file STAT sees; listen-addr: which address the log names and answers STAT; allow-write: MKDIR result and the directory on disk; client-whitelist: which of the client addresses 127.0.0.1/2/3 get an answer and which are closed without a byte; max-clients: a second client stays unanswered while a held client completes 3 round trips and is answered once the first leaves; read-timeout: an idle connection is cut; debug: debug-level lines incl. the per-request line; json-log: every stdout line is JSON; debug-server-listen-addr: pprof answers HTTP 200 on the logged address). Families: (setting x channel) with channels flag, env var, --config file, PS3NETSRV_CONFIG_FILE file, ./config.ini, $XDG_CONFIG_HOME/ps3netsrv-go/config.ini; flag-vs-other-channel conflicts with different observable values (flag must win); conflicts between two non-flag channels (recorded only); malformed whitelist/max-clients/root/read-timeout values per channel (must exit != 0 and never listen); thorough adds absent-setting controls. Every launch has its own cwd, HOME, XDG_CONFIG_HOME, root and port 0. non-trivial = distinct (setting, channel) whose configured non-default behaviour was positively observed, distinct flag-wins observations, distinct refused malformed values"
	run.Exhaustive = e.Thorough
	x := &c19ctx{e: e, pairs: map[string]string{}, sampled: map[string]bool{}}
	x.rootA, x.rootB = e.Dir("c19/shared/rootA"), e.Dir("c19/shared/rootB")
	must(os.WriteFile(filepath.Join(x.rootA, "markerA.txt"), []byte("A"), 0o644))
	must(os.WriteFile(filepath.Join(x.rootB, "markerB.txt"), []byte("B"), 0o644))
	x.missing = filepath.Join(e.Dir("c19/shared"), "does-not-exist")
	x.file = filepath.Join(e.Dir("c19/shared"), "regular-file.txt")
	must(os.WriteFile(x.file, []byte("not a directory"), 0o644))

	settings := []*c19Setting{
		{name: "root", env: "PS3NETSRV_ROOT", prim: c19Value{x.rootA, "root-sees:A"}, alt: c19Value{x.rootB, "root-sees:B"}, def: "root-sees:none", attempts: 2},
		{name: "listen-addr", env: "PS3NETSRV_LISTEN_ADDR", prim: c19Value{"127.0.0.2:0", "listens:127.0.0.2"}, alt: c19Value{"127.0.0.3:0", "listens:127.0.0.3"}, def: "", attempts: 2},
		{name: "allow-write", env: "PS3NETSRV_ALLOW_WRITE", isBool: true, prim: c19Value{"true", "write:on"}, alt: c19Value{"false", "write:off"}, def: "write:off", attempts: 2},
		{name: "client-whitelist", env: "PS3NETSRV_CLIENT_WHITELIST", prim: c19Value{"127.0.0.2", "serves:127.0.0.2"}, alt: c19Value{"127.0.0.3", "serves:127.0.0.3"}, def: "serves:127.0.0.1,127.0.0.2,127.0.0.3", attempts: 2},
		{name: "max-clients", env: "PS3NETSRV_MAX_CLIENTS", prim: c19Value{"1", "clients:one-at-a-time"}, alt: c19Value{"5", "clients:two-at-once"}, def: "clients:two-at-once", attempts: 2},
		{name: "read-timeout", env: "PS3NETSRV_READ_TIMEOUT", prim: c19Value{"300ms", "idle:cut"}, alt: c19Value{"1h", "idle:kept"}, def: "idle:kept", attempts: 3},
		{name: "debug", env: "PS3NETSRV_DEBUG", isBool: true, prim: c19Value{"true", "log:debug-lines"}, alt: c19Value{"false", "log:no-debug-lines"}, def: "log:no-debug-lines", attempts: 2},
		{name: "json-log", env: "PS3NETSRV_JSON_LOG", isBool: true, prim: c19Value{"true", "log:json"}, alt: c19Value{"false", "log:text"}, def: "log:text", attempts: 2},
		{name: "debug-server-listen-addr", env: "PS3NETSRV_DEBUG_SERVER_LISTEN_ADDR", prim: c19Value{"127.0.0.1:0", "pprof:127.0.0.1"}, alt: c19Value{"127.0.0.3:0", "pprof:127.0.0.3"}, def: "pprof:none", attempts: 2},
	}
	byName := map[string]*c19Setting{}
	for _, s := range settings {
		byName[s.name] = s
	}

	var cases []func()
	var nSingle, nFlagVs, nPairs, nMal, nCtl int
	var effects, flagWins atomic.Int64

	// 1. every setting through every channel
	for _, s := range settings {
		for _, ch := range c19Channels {
			s, ch := s, ch
			nSingle++
			cases = append(cases, func() {
				if x.judged(s, []c19Assign{{ch, s.prim.val}}, s.prim.state, "no-effect", s.name+"/"+ch, "setting-via-"+ch) {
					run.Sig("%s via %s -> effect observed", s.name, ch)
					effects.Add(1)
				}
			})
		}
	}
	// 1b. "each with the same observable effect": a value is taken as it is written, whichever channel
	// carries it — a served directory whose name contains characters that mean something to shells,
	// environments and INI dialects ($NAME, ${NAME}, %(key)s, a blank, #) is that directory
	{
		odd := filepath.Join(e.Dir("c19/shared"), "ga$mes ${HOME} %(root)s $PS3NETSRV_ROOT +x")
		must(os.MkdirAll(odd, 0o755))
		must(os.WriteFile(filepath.Join(odd, "markerA.txt"), []byte("A"), 0o644))
		// what an expansion would lead to exists as well, and is somebody else's directory
		for _, decoy := range []string{"ga", "ga  %(root)s  +x", "ga " + " %(root)s  +x"} {
			must(os.MkdirAll(filepath.Join(e.Dir("c19/shared"), decoy), 0o755))
		}
		oddRoot := &c19Setting{name: "root", env: "PS3NETSRV_ROOT", prim: c19Value{odd, "root-sees:A"}, alt: c19Value{x.rootB, "root-sees:B"}, def: "root-sees:none", attempts: 2}
		for _, ch := range c19Channels {
			ch := ch
			nSingle++
			cases = append(cases, func() {
				if x.judged(oddRoot, []c19Assign{{ch, odd}}, "root-sees:A", "no-effect", "root/"+ch+"+verbatim-value", "verbatim-value-via-"+ch) {
					run.Sig("root with $, %%(..)s and blanks in its name via %s -> that directory served", ch)
					effects.Add(1)
				}
			})
		}
	}
	// 2. flag against another channel
	flagVs := func(s *c19Setting, ch string, reversed bool) {
		fv, ov := s.prim, s.alt
		dir := ""
		if reversed {
			fv, ov, dir = s.alt, s.prim, " (values swapped)"
		}
		nFlagVs++
		cases = append(cases, func() {
			if x.judged(s, []c19Assign{{c19Flag, fv.val}, {ch, ov.val}}, fv.state, "flag-loses", s.name+"/flag-vs-"+ch, "flag-vs-"+ch) {
				run.Sig("%s flag=%s vs %s=%s -> flag value in force%s", s.name, c19Short(fv.val), ch, c19Short(ov.val), dir)
				flagWins.Add(1)
			}
		})
	}
	for _, s := range settings {
		others := []string{c19EnvVar, c19Ini}
		if e.Thorough {
			others = c19Channels[1:]
		}
		for _, ch := range others {
			flagVs(s, ch, false)
			if e.Thorough {
				flagVs(s, ch, true)
			}
		}
	}
	// 3. two non-flag channels: recorded only
	type pair struct{ s, a, b string }
	var pairs []pair
	if e.Thorough {
		for _, s := range settings {
			for i := 1; i < len(c19Channels); i++ {
				for j := i + 1; j < len(c19Channels); j++ {
					pairs = append(pairs, pair{s.name, c19Channels[i], c19Channels[j]})
				}
			}
		}
	} else {
		pairs = []pair{{"root", c19EnvVar, c19Ini}, {"allow-write", c19EnvVar, c19CwdIni}, {"root", c19Ini, c19CwdIni},
			{"root", c19CwdIni, c19UserIni}, {"max-clients", c19EnvVar, c19UserIni}, {"root", c19EnvFile, c19CwdIni}}
	}
	for _, pr := range pairs {
		pr := pr
		nPairs++
		cases = append(cases, func() { x.recorded(byName[pr.s], pr.a, pr.b) })
	}
	// 4. malformed values
	type bad struct {
		s, val, label string
		quickAll      bool // in quick also through env and ini
	}
	bads := []bad{
		{"client-whitelist", "10.0.0.0/33", "prefix 33", true},
		{"client-whitelist", "1.2.3.4-1.2.3", "truncated range end", false},
		{"client-whitelist", "garbage", "garbage", false},
		{"client-whitelist", "255.255.0.255/255.0.255.0", "non-contiguous mask", false},
		{"max-clients", "abc", "abc", true},
		{"max-clients", "1.5", "1.5", false},
		{"root", x.missing, "missing path", true},
		{"root", x.file, "regular file", false},
		{"root", filepath.Join(x.file, "sub"), "path below a regular file", true},
		{"root", filepath.Join(filepath.Dir(x.file), strings.Repeat("n", 300)), "name longer than the file system allows", true},
		{"read-timeout", "abc", "abc", false},
		{"read-timeout", "10", "no unit", true},
		{"read-timeout", "-", "dash", false},
		// a key that is present but empty (INI only: an empty environment variable means "unset")
		{"client-whitelist", "", "empty value", true},
		{"max-clients", "", "empty value", true},
		{"read-timeout", "", "empty value", true},
	}
	for _, b := range bads {
		for _, ch := range []string{c19Flag, c19EnvVar, c19Ini} {
			if ch != c19Flag && !e.Thorough && !b.quickAll {
				continue
			}
			if b.val == "" && ch != c19Ini {
				continue
			}
			b, ch := b, ch
			nMal++
			cases = append(cases, func() { x.malformed(byName[b.s], ch, b.val, b.label) })
			if ch == c19Flag || (ch == c19Ini && b.val != "" && b.quickAll) {
				nMal++
				cases = append(cases, func() { x.malformedEnv(byName[b.s], ch, b.val, b.label, true) })
			}
		}
	}
	// 5. absent-setting controls
	if e.Thorough {
		for _, s := range settings {
			if s.def == "" {
				continue // the default listen address has a fixed port: never launched
			}
			s := s
			nCtl++
			cases = append(cases, func() {
				if x.judged(s, nil, s.def, "control-failed", s.name+"/absent", "control") {
					run.Count("controls_ok", 1)
				}
			})
		}
	}

	// 6. two INI files at once, each giving a *different* setting: both must take effect (no conflict,
	// so no precedence question; a file must not hide the keys of another one)
	fileCh := []string{c19Ini, c19EnvFile, c19CwdIni, c19UserIni}
	nTwo := 0
	for i, a := range fileCh {
		for j, b := range fileCh {
			if i == j || (!e.Thorough && (i+j)%2 == 0) {
				continue
			}
			a, b := a, b
			nTwo++
			cases = append(cases, func() { x.twoFiles(a, b) })
		}
	}

	// 7. no user configuration directory can be determined (HOME and XDG_CONFIG_HOME empty, as under
	// `env -i`, a service manager or a minimal container): the other locations still work
	for _, ch := range []string{c19CwdIni, c19EnvFile, c19Ini} {
		ch := ch
		cases = append(cases, func() { x.noHome(ch) })
	}

	// 8. the working directory contains directories that are named like the sub-commands (a folder
	// "server" next to the executable is nothing unusual): a root given through a non-flag channel must
	// still be the one served
	for _, ch := range []string{c19EnvVar, c19CwdIni, c19EnvFile, c19Ini} {
		ch := ch
		cases = append(cases, func() { x.cmdNamedDirs(ch) })
	}

	ParallelDo(len(cases), 8, func(i int) { cases[i]() })
	run.Obs("cases_two_files", nTwo)

	run.Obs("cases_setting_x_channel", nSingle)
	run.Obs("cases_flag_vs_other", nFlagVs)
	run.Obs("cases_nonflag_conflicts", nPairs)
	run.Obs("cases_malformed", nMal)
	run.Obs("cases_controls", nCtl)
	run.Obs("effects_observed", effects.Load())
	run.Obs("flag_wins_observed", flagWins.Load())
	keys := make([]string, 0, len(x.pairs))
	for k := range x.pairs {
		keys = append(keys, k)
	}
	sort.Strings(keys)
	outcomes := make([]string, 0, len(keys))
	for _, k := range keys {
		outcomes = append(outcomes, k+" -> "+x.pairs[k])
	}
	run.Obs("nonflag_conflict_outcomes", outcomes)
	run.Assume("loopback addresses 127.0.0.1-3 can be bound by clients and by the server in the sandbox; clients are distinguished by their source address")
	run.Assume("conflicts between two non-flag channels are not ranked by the statement: recorded, not judged")
	run.Floor(run.Counter("launches") >= int64(len(cases)), fmt.Sprintf("fewer launches (%d) than cases (%d)", run.Counter("launches"), len(cases)))
	run.Floor(effects.Load() >= int64(nSingle)/2, fmt.Sprintf("configured effect positively observed in only %d of %d (setting, channel) cases", effects.Load(), nSingle))
	os.RemoveAll(filepath.Join(e.Scratch, "c19"))
}
