//go:build verif

package checks

import (
	"bytes"
	"encoding/hex"
	"fmt"
	"os"
	"path/filepath"
	"sort"
	"strings"
	"sync/atomic"
	"time"

	"verif/host"
	"verif/model"
	"verif/refcrypt"
	"verif/spyfs"
	"verif/tree"
	"verif/wire"
	"verif/worker"
)

type c13Scenario struct {
	Name  string
	Write bool
	Reqs  []wire.Req
}

func c13Scenarios() []c13Scenario {
	rde := func(op wire.Op, n int) []wire.Req {
		var r []wire.Req
		for i := 0; i < n; i++ {
			r = append(r, wire.Bare(op))
		}
		return r
	}
	cat := func(parts ...[]wire.Req) []wire.Req {
		var r []wire.Req
		for _, p := range parts {
			r = append(r, p...)
		}
		return r
	}
	return []c13Scenario{
		{"plain-file", false, []wire.Req{wire.P(wire.OpOpen, "/file.bin"), wire.Read(3000, 100), wire.Crit(2000, 0), wire.Read(100000, 4000), wire.P(wire.OpStat, "/file.bin"), wire.P(wire.OpOpen, "/big.bin"), wire.Read(150000, 10), wire.Crit(70000, 65000), wire.P(wire.OpOpen, "/CLOSEFILE")}},
		{"generated-image", false, []wire.Req{wire.P(wire.OpOpen, "/***DVD***/dir"), wire.Read(1<<20, 0), wire.Crit(4096, 40960), wire.Read(70000, 50000), wire.P(wire.OpOpen, "/***DVD***/geo"), wire.Read(1<<20, 0), wire.Crit(100, 60000)}},
		{"ps3-image", false, []wire.Req{wire.P(wire.OpOpen, "/***PS3***/game"), wire.Read(1<<20, 0), wire.Crit(2048, 2048), wire.Read(5000, 100000)}},
		{"encrypted-adjacent-key", false, []wire.Req{wire.P(wire.OpOpen, "/PS3ISO/enc.iso"), wire.Read(9000, 4000), wire.Crit(4096, 2048*5), wire.Read(1<<20, 0)}},
		{"encrypted-redkey", false, []wire.Req{wire.P(wire.OpOpen, "/PS3ISO/red.ISO"), wire.Read(9000, 4000), wire.Crit(5000, 2048*3+7)}},
		{"3k3y-image", false, []wire.Req{wire.P(wire.OpOpen, "/k3/enc3k3y.iso"), wire.Read(0x400, 0xE00), wire.Crit(4096, 2048*5), wire.P(wire.OpOpen, "/k3/dec3k3y.iso"), wire.Read(0x400, 0xE00)}},
		{"listing-readdir", false, cat([]wire.Req{wire.P(wire.OpOpenDir, "/dir"), wire.Bare(wire.OpReadDir), wire.P(wire.OpOpenDir, "/links"), wire.Bare(wire.OpReadDir)})},
		{"listing-rde", false, cat([]wire.Req{wire.P(wire.OpOpenDir, "/dir")}, rde(wire.OpRDE, 5), []wire.Req{wire.P(wire.OpOpenDir, "/links")}, rde(wire.OpRDE, 7))},
		{"listing-rde2", false, cat([]wire.Req{wire.P(wire.OpOpenDir, "/links")}, rde(wire.OpRDE2, 7), []wire.Req{wire.P(wire.OpOpenDir, "/dir")}, rde(wire.OpRDE2, 3))},
		{"stat-dirsize", false, []wire.Req{wire.P(wire.OpStat, "/dir/a.txt"), wire.P(wire.OpDirSize, "/dir"), wire.P(wire.OpStat, "/links/lfile"), wire.P(wire.OpDirSize, "/"), wire.P(wire.OpStat, "/nope")}},
		{"upload", true, []wire.Req{wire.P(wire.OpCreate, "/up/new.bin"), wire.Write(tree.Content(1, 70000)), wire.Write(tree.Content(2, 10)), wire.P(wire.OpCreate, "/up/second.bin"), wire.Write(tree.Content(3, 3000)), wire.P(wire.OpMkdir, "/up/d"), wire.P(wire.OpDelete, "/up/second.bin"), wire.P(wire.OpRmdir, "/up/d"), wire.P(wire.OpCreate, "/up/old.bin"), wire.Write(tree.Content(4, 100))}},
		{"opendir-of-files", false, []wire.Req{wire.P(wire.OpOpenDir, "/file.bin"), wire.Bare(wire.OpRDE), wire.P(wire.OpOpenDir, "/dir"), wire.P(wire.OpOpenDir, "/big.bin"), wire.Bare(wire.OpReadDir), wire.P(wire.OpOpenDir, "/PS3ISO/enc.iso"), wire.P(wire.OpOpenDir, "/nope"), wire.P(wire.OpOpenDir, "/links/lfile")}},
		{"virtual-as-directory", false, []wire.Req{wire.P(wire.OpOpenDir, "/***DVD***/dir/sub"), wire.Bare(wire.OpRDE), wire.Bare(wire.OpRDE2), wire.Bare(wire.OpReadDir), wire.P(wire.OpOpenDir, "/dir"), wire.P(wire.OpOpenDir, "/***DVD***/dir"), wire.Bare(wire.OpRDE), wire.Bare(wire.OpRDE), wire.P(wire.OpOpenDir, "/***PS3***/game/PS3_GAME"), wire.Bare(wire.OpRDE2), wire.P(wire.OpStat, "/dir")}},
		{"open-of-directories", false, []wire.Req{wire.P(wire.OpOpen, "/dir"), wire.P(wire.OpOpen, "/dir/sub"), wire.P(wire.OpOpen, "/"), wire.P(wire.OpOpen, "/file.bin"), wire.Read(100, 0), wire.P(wire.OpOpen, "/links"), wire.P(wire.OpOpen, "/CLOSEFILE"), wire.P(wire.OpOpen, "/emptydir")}},
		{"psx-cd-image", false, []wire.Req{wire.P(wire.OpOpen, "/cd/game2448.bin"), wire.CD(0, 2), wire.CD(17, 3), wire.Read(100, 24+16*2448), wire.P(wire.OpOpen, "/cd/game2336.bin"), wire.CD(5, 2), wire.CD(800, 1)}},
		{"mixed-handles", false, []wire.Req{wire.P(wire.OpOpenDir, "/dir"), wire.P(wire.OpOpen, "/file.bin"), wire.Bare(wire.OpRDE), wire.Read(100, 0), wire.P(wire.OpOpen, "/***DVD***/dir"), wire.P(wire.OpOpenDir, "/links"), wire.Read(4096, 0), wire.P(wire.OpOpen, "/PS3ISO/enc.iso"), wire.Bare(wire.OpReadDir), wire.Crit(100, 5000)}},
	}
}

func c13Tree(root string) {
	must(tree.MaterializeRoot(root, sharedTree()))
	must(os.MkdirAll(filepath.Join(root, "game", "PS3_GAME"), 0o755))
	must(os.WriteFile(filepath.Join(root, "game", "PS3_GAME", "PARAM.SFO"), makeSFO(map[string]string{"TITLE_ID": "BLES12345"}, []string{"TITLE_ID"}), 0o644))
	must(os.WriteFile(filepath.Join(root, "game", "EBOOT.BIN"), tree.Content(8, 70000), 0o644))
	must(os.MkdirAll(filepath.Join(root, "geo"), 0o755))
	for i, sz := range []int64{1, 2047, 0, 2049, 30000} {
		must(os.WriteFile(filepath.Join(root, "geo", fmt.Sprintf("g%d.bin", i)), tree.Content(int64(i), sz), 0o644))
	}
	must(os.MkdirAll(filepath.Join(root, "links", "tdir"), 0o755))
	must(os.WriteFile(filepath.Join(root, "links", "target.bin"), tree.Content(9, 1234), 0o644))
	must(os.WriteFile(filepath.Join(root, "links", "tdir", "inner.bin"), tree.Content(10, 77), 0o644))
	must(os.Symlink("target.bin", filepath.Join(root, "links", "lfile")))
	must(os.Symlink("tdir", filepath.Join(root, "links", "ldir")))
	must(os.Symlink("nowhere", filepath.Join(root, "links", "ldangling")))
	must(os.MkdirAll(filepath.Join(root, "cd"), 0o755))
	makeCD(root, &cdImage{rel: "cd/game2448.bin", S: 2448, sig: "iso", size: 900 * 2448}, 71, nil)
	makeCD(root, &cdImage{rel: "cd/game2336.bin", S: 2336, sig: "psx", size: 950*2336 + 100}, 72, nil)
	must(os.MkdirAll(filepath.Join(root, "PS3ISO"), 0o755))
	must(os.MkdirAll(filepath.Join(root, "REDKEY"), 0o755))
	must(os.MkdirAll(filepath.Join(root, "k3"), 0o755))
	regs := []refcrypt.Region{{Start: 0, End: 1}, {Start: 6, End: 9}, {Start: 30, End: 400}}
	plain := tree.Content(44, 100*2048)
	copy(plain, refcrypt.Table(regs))
	key := tree.Content(45, 16)
	must(os.WriteFile(filepath.Join(root, "PS3ISO", "enc.iso"), refcrypt.BuildImage(plain, regs, key), 0o644))
	must(os.WriteFile(filepath.Join(root, "PS3ISO", "enc.dkey"), []byte(hex.EncodeToString(key)), 0o644))
	must(os.WriteFile(filepath.Join(root, "PS3ISO", "red.ISO"), refcrypt.BuildImage(plain, regs, key), 0o644))
	must(os.WriteFile(filepath.Join(root, "REDKEY", "red.dkey"), []byte(hex.EncodeToString(key)), 0o644))
	p3 := bytes.Clone(plain)
	copy(p3[maskBegin:], wmEnc)
	copy(p3[maskBegin+16:], key)
	must(os.WriteFile(filepath.Join(root, "k3", "enc3k3y.iso"), refcrypt.BuildImage(p3, regs, key), 0o644))
	p4 := bytes.Clone(plain)
	copy(p4[maskBegin:], wmDec)
	must(os.WriteFile(filepath.Join(root, "k3", "dec3k3y.iso"), p4, 0o644))
}

func c13ResetUp(root string) {
	os.RemoveAll(filepath.Join(root, "up"))
	must(os.MkdirAll(filepath.Join(root, "up"), 0o755))
	must(os.WriteFile(filepath.Join(root, "up", "old.bin"), tree.Content(21, 100), 0o644))
}

// failureCode tells whether resp is the protocol's failure answer for the request.
func failureCode(op wire.Op, resp []byte) bool {
	switch op {
	case wire.OpOpen:
		return len(resp) == 16 && wire.I64(resp) == -1
	case wire.OpStat:
		return len(resp) == 33 && wire.I64(resp) == -1
	case wire.OpOpenDir, wire.OpCreate, wire.OpWrite, wire.OpDelete, wire.OpMkdir, wire.OpRmdir:
		return len(resp) == 4 && wire.I32(resp) == -1
	case wire.OpDirSize:
		return len(resp) == 8 && wire.I64(resp) == -1
	case wire.OpReadDir:
		return len(resp) == 8 && wire.I64(resp) == 0
	case wire.OpRDE:
		return len(resp) == 11 && wire.I64(resp) == -1
	case wire.OpRDE2:
		return len(resp) == 35 && wire.I64(resp) == -1
	case wire.OpRead:
		return len(resp) == 4 && wire.I32(resp) <= 0
	}
	return false
}

// readResponse reads the response to req off the wire knowing only the framing.
func readResponse(c *wire.Client, req wire.Req, refLen int) ([]byte, wire.ReadStatus) {
	var out []byte
	need := func(n int) wire.ReadStatus {
		b, st := c.ReadN(n)
		out = append(out, b...)
		return st
	}
	switch req.Op {
	case wire.OpOpen:
		return out, firstNonFull(need(16))
	case wire.OpStat:
		st := need(33)
		return out, st
	case wire.OpOpenDir, wire.OpCreate, wire.OpWrite, wire.OpDelete, wire.OpMkdir, wire.OpRmdir:
		st := need(4)
		return out, st
	case wire.OpDirSize:
		st := need(8)
		return out, st
	case wire.OpReadDir:
		if st := need(8); st != wire.Full {
			return out, st
		}
		n := wire.I64(out)
		if n < 0 || n > 1<<20 {
			return out, wire.Full
		}
		st := need(int(n) * wire.SzDirEnt)
		return out, st
	case wire.OpRDE, wire.OpRDE2:
		h := wire.SzRDE
		nlOff := 8
		if req.Op == wire.OpRDE2 {
			h, nlOff = wire.SzRDE2, 32
		}
		if st := need(h); st != wire.Full {
			return out, st
		}
		nl := int(out[nlOff])<<8 | int(out[nlOff+1])
		if wire.I64(out) == -1 {
			return out, wire.Full
		}
		st := need(nl)
		return out, st
	case wire.OpRead:
		if st := need(4); st != wire.Full {
			return out, st
		}
		n := int(wire.I32(out))
		if n <= 0 {
			return out, wire.Full
		}
		st := need(n)
		return out, st
	case wire.OpReadCrit, wire.OpReadCD:
		n := refLen
		if n < 0 {
			n = int(req.N)
			if req.Op == wire.OpReadCD {
				n = int(req.Count) * 2048
			}
		}
		st := need(n)
		return out, st
	}
	return out, wire.Full
}

func firstNonFull(st wire.ReadStatus) wire.ReadStatus { return st }

// c13Judge compares a response obtained under a fault with the fault-free reference.
// It returns (verdict, detail): "same", "failure-code", "prefix-eof", "subset" or "" (violation).
func c13Judge(req wire.Req, ref, got []byte, st wire.ReadStatus) (string, string) {
	if st == wire.Full && bytes.Equal(maskTimes(req.Op, got), maskTimes(req.Op, ref)) {
		return "same", ""
	}
	if st == wire.Closed {
		// a correct prefix followed by disconnection
		switch req.Op {
		case wire.OpRead:
			// the announced count may be smaller than the fault-free one; the bytes that did arrive
			// must be the right ones
			if len(got) <= 4 {
				return "prefix-eof", ""
			}
			if bytes.HasPrefix(ref[4:], got[4:]) {
				return "prefix-eof", ""
			}
			return "", fmt.Sprintf("bytes before the disconnection differ from the file content at body offset %d", firstDiffIdx(ref[4:], got[4:]))
		case wire.OpReadDir, wire.OpRDE, wire.OpRDE2:
			return "prefix-eof", "" // a cut listing reply: nothing usable was delivered
		default:
			if bytes.HasPrefix(maskTimes(req.Op, ref), maskTimes(req.Op, got)) || len(got) == 0 {
				return "prefix-eof", ""
			}
			return "", fmt.Sprintf("%d bytes before the disconnection are not a prefix of the fault-free answer", len(got))
		}
	}
	if st == wire.Timeout {
		return "", "no complete answer within the watchdog"
	}
	if failureCode(req.Op, got) {
		return "failure-code", ""
	}
	switch req.Op {
	case wire.OpRead:
		// fewer bytes announced, but correct ones
		if len(got) >= 4 && int(wire.I32(got)) == len(got)-4 && bytes.HasPrefix(ref[4:], got[4:]) {
			return "shorter-correct", ""
		}
		return "", fmt.Sprintf("READ announced %d and delivered bytes that differ from the file content at body offset %d", wire.I32(got), firstDiffIdx(ref[4:], got[4:]))
	case wire.OpReadDir:
		// entries may be omitted, every reported one must be a true, unduplicated entry
		refSet := map[string]int{}
		for off := 8; off+wire.SzDirEnt <= len(ref); off += wire.SzDirEnt {
			refSet[string(maskTimes(wire.OpReadDir, append(make([]byte, 8), ref[off:off+wire.SzDirEnt]...))[8:])]++
		}
		for off := 8; off+wire.SzDirEnt <= len(got); off += wire.SzDirEnt {
			k := string(maskTimes(wire.OpReadDir, append(make([]byte, 8), got[off:off+wire.SzDirEnt]...))[8:])
			if refSet[k] == 0 {
				return "", "READDIR under a fault reported an entry that is not (or no longer) a true entry: " + cstrOf(got[off+17:off+wire.SzDirEnt])
			}
			refSet[k]--
		}
		return "subset", ""
	case wire.OpDirSize:
		// a total that leaves out what could not be read is a wrong number presented as the answer:
		// the admissible outcomes are the true total, the failure code or a disconnection
		return "", fmt.Sprintf("DIRSIZE under a fault answered %d as a success, fault-free total is %d", wire.I64(got), wire.I64(ref))
	case wire.OpRDE, wire.OpRDE2:
		return "other-entry", "" // judged by the caller against the set of true entries
	}
	return "", fmt.Sprintf("answer differs from the fault-free one and is not the failure code: got %x want %x", head32(got), head32(ref))
}

func head32(b []byte) []byte {
	if len(b) > 40 {
		return b[:40]
	}
	return b
}

func cstrOf(b []byte) string {
	if i := bytes.IndexByte(b, 0); i >= 0 {
		return string(b[:i])
	}
	return string(b)
}

// c13Stuck is set when a connection's goroutine was still busy at the hard cap: the campaign is cut short.
var c13Stuck atomic.Bool

type c13Target struct {
	p    *host.Proc
	w    *model.World
	root string
}

// quiesce waits until the server has no serveConn goroutine and reports the ledger.
func (t *c13Target) quiesce() (rep *spyfs.Report, serveConn int, err error) {
	// A leak is a state that no longer changes: the wait is extended while the server is still
	// performing file-system operations for the connection that ended (a transfer fed by 1-byte
	// reads may take seconds on a loaded machine), up to a hard cap after which "still busy for a
	// client that left a minute ago" is itself the violation (a handler that spins for ever).
	deadline := time.Now().Add(3 * time.Second)
	hardCap := time.Now().Add(30 * time.Second)
	lastOps := -1
	for {
		g, e := t.p.Do(worker.Cmd{Cmd: "goroutines"})
		if e != nil {
			return nil, 0, e
		}
		r, e := t.p.Do(worker.Cmd{Cmd: "report"})
		if e != nil {
			return nil, 0, e
		}
		if g.ServeConn == 0 && len(r.Report.Open) == 0 {
			return r.Report, g.ServeConn, nil
		}
		now := time.Now()
		if r.Report.Ops != lastOps {
			lastOps = r.Report.Ops
			if d := now.Add(3 * time.Second); d.After(deadline) {
				deadline = d
			}
		}
		if now.After(deadline) || now.After(hardCap) {
			if now.After(hardCap) {
				c13Stuck.Store(true) // a handler that never ends: every further run would wait again
			}
			return r.Report, g.ServeConn, nil
		}
		time.Sleep(5 * time.Millisecond)
	}
}

func C13(e *Env) {
	run := e.Run
	run.Rule = "cases: (scenario, fault) — for each of 12 scenarios (plain file, generated image with lazily opened members, PS3 image, encrypted image with adjacent / REDKEY key lookup, 3k3y, the three listing commands, stat/dir-size, upload, mixed handles) a recording run counts the K file-system operations, then one run per operation index with EIO injected there, one per Read with a short read, one per Close failing, plus random pairs; and every way of ending a connection (orderly close, half-close, RST, unknown opcode, truncated request, read timeout) at every request boundary and mid-request. After every run: handle ledger empty, serveConn goroutines back to 0, fresh connection served; under a fault every answer is the fault-free one, the failure code, a correct prefix + EOF or (listings) a true subset. non-trivial = distinct (scenario, operation kind at the fault index, fault kind, outcome) / (scenario, ending, position)"
	root := e.Dir("W/root")
	c13Tree(root)
	c13ResetUp(root)
	scen := c13Scenarios()
	mk := func(aw bool, tag string, rt int64) *c13Target {
		p := e.Worker(worker.Config{Root: root, AllowWrite: aw, BufSize: 65536, ReadTimeoutMs: rt, KeepLog: true}, tag, true, 0)
		addr := p.HostPort()
		return &c13Target{p, &model.World{Root: root, AllowWrite: aw, Views: FullViews, Probe: func() error { return host.Probe(addr) }}, root}
	}
	tro, trw := mk(false, "c13-ro", 0), mk(true, "c13-rw", 0)
	defer tro.p.Stop()
	defer trw.p.Stop()
	totalFaultRuns, totalOps := 0, 0
	for _, sc := range scen {
		if c13Stuck.Load() {
			break // a handler of this worker never ends: the verdict is in, every further wait is wasted
		}
		t := tro
		if sc.Write {
			t = trw
		}
		// recording run: fault-free, validated by the reference model
		if sc.Write {
			c13ResetUp(root)
		}
		t.p.Do(worker.Cmd{Cmd: "plan", KeepLog: true})
		sc.Reqs = append(append([]wire.Req{}, sc.Reqs...), wire.P(wire.OpStat, "/")) // same fence as the faulted runs send
		res := RunLockstepOpt(t.p.HostPort(), t.w, sc.Reqs, e.Watchdog, LockOpt{KeepResp: true, NoFence: true})
		if res.Fail != nil {
			if res.Fail.Inconclusive {
				run.Inconclusive(res.Fail.Error())
			} else {
				// the fault-free conversation itself is wrong: that belongs to the property that
				// states its content (C02/C03/C05/C06); this scenario cannot serve as a reference
				run.Count("scenarios_skipped_fault_free_run_not_as_modelled", 1)
				run.Sample(map[string]any{"scenario_skipped": sc.Name, "fault_free_failure": res.Fail.Error()})
			}
			// whatever the conversation was, the connection has ended: its handles and goroutine are due
			if rep, sconn, err := t.quiesce(); err == nil && (len(rep.Open) > 0 || sconn != 0) {
				run.Violate("leak", sc.Name+": fault-free", fmt.Sprintf("[%s, no fault] after the connection ended %d handles are still open (%v), %d serveConn goroutines (its conversation: %s)", sc.Name, len(rep.Open), trimPaths(rep.Open, root), sconn, res.Fail.Error()), map[string]any{"scenario": sc.Name, "open": rep.Open})
			}
			continue
		}
		rep, sconn, err := t.quiesce()
		must(err)
		K := rep.Ops
		totalOps += K
		log := rep.Log
		run.Eval(1)
		if len(rep.Open) > 0 || sconn != 0 {
			run.Violate("leak", sc.Name+": fault-free", fmt.Sprintf("[%s, no fault] after the connection ended %d handles are still open (%v), %d serveConn goroutines", sc.Name, len(rep.Open), rep.Open, sconn), map[string]any{"scenario": sc.Name, "open": rep.Open})
		}
		if len(rep.Escapes) > 0 {
			run.Violate("path-escape", sc.Name, fmt.Sprintf("paths outside the root reached the file system: %v", rep.Escapes), nil)
		}
		run.Obs("ops_"+sc.Name, K)
		// plans: EIO at each index; short read at each read; failing close at each close
		type plan struct {
			f    []spyfs.Fault
			desc string
			kind string
			op   string
		}
		var plans []plan
		for i := 1; i <= K; i++ {
			opk := "?"
			if i-1 < len(log) {
				opk = log[i-1].Kind
			}
			plans = append(plans, plan{[]spyfs.Fault{{Index: i, Kind: spyfs.FEIO}}, fmt.Sprintf("EIO at op #%d (%s)", i, opk), "eio", opk})
			if opk == "read" {
				for _, k := range []int{1, 2, 4, 5, 7, 15, 511, 2047} {
					plans = append(plans, plan{[]spyfs.Fault{{Index: i, Kind: spyfs.FShort, K: k}}, fmt.Sprintf("short read (%d bytes) at op #%d", k, i), "short", opk})
				}
			}
			// a member file of a generated image that has become shorter since the image was laid out:
			// k bytes and EOF from its positional read (only there: for the probes of image
			// kind and sector size "the file ends here" is information, not a fault)
			if opk == "readat" && strings.Contains(sc.Name, "generated-image") {
				for _, k := range []int{1, 511, 2047} {
					plans = append(plans, plan{[]spyfs.Fault{{Index: i, Kind: spyfs.FShort, K: k}}, fmt.Sprintf("short positional read (%d bytes, then EOF) at op #%d", k, i), "short", opk})
				}
			}
			// the decrypting views read whole sectors positionally: a file system that hands back fewer bytes
			// than asked without an error (not sector-aligned) must not make them serve half-decrypted data
			if opk == "readat" && (strings.HasPrefix(sc.Name, "encrypted-") || sc.Name == "3k3y-image") {
				for _, k := range []int{700, 2047, 3000, 5000} {
					plans = append(plans, plan{[]spyfs.Fault{{Index: i, Kind: spyfs.FShortQuiet, K: k}}, fmt.Sprintf("short positional read (%d bytes, no error) at op #%d", k, i), "short", opk})
				}
			}
			// ENOENT is injected only where it cannot be mistaken for a legitimate "does not exist"
			// answer of the key-file lookup (an open that reports ENOENT *is* "no key")
			// (the same holds for any look at a key file's path: "not there" selects another transformation)
			if (opk == "stat" || opk == "fstat") && !(i-1 < len(log) && isKeyPath(log[i-1].Path)) {
				plans = append(plans, plan{[]spyfs.Fault{{Index: i, Kind: spyfs.FENOENT}}, fmt.Sprintf("ENOENT at op #%d (%s)", i, opk), "enoent", opk})
			}
		}
		plans = append(plans, plan{[]spyfs.Fault{{Every: true, OpKind: "read", Kind: spyfs.FShort, K: 700}}, "every read short (700)", "short-all", "read"})
		plans = append(plans, plan{[]spyfs.Fault{{Every: true, OpKind: "read", Kind: spyfs.FShort, K: 1}}, "every read returns 1 byte", "short-all", "read"})
		plans = append(plans, plan{[]spyfs.Fault{{Every: true, OpKind: "close", Kind: spyfs.FEIO}}, "every close fails", "close-all", "close"})
		rng := e.Rng(int64(len(sc.Name)) + 13)
		for i := 0; i < e.Pick(20, 2500) && K > 1; i++ {
			a, b := 1+rng.Intn(K), 1+rng.Intn(K)
			kind2 := []string{spyfs.FEIO, spyfs.FShort, spyfs.FENOENT}[rng.Intn(3)]
			if kind2 == spyfs.FENOENT && (b-1 >= len(log) || (log[b-1].Kind != "stat" && log[b-1].Kind != "fstat") || isKeyPath(log[b-1].Path)) {
				kind2 = spyfs.FEIO
			}
			// "k bytes, then EOF" from a positional read says "the file ends here": for the probes of image kind and
			// sector size, and for a decrypting view (whose incomplete last sector is stored as it is), that is
			// information, not a fault — as in the single-fault plans it is injected only under generated images;
			// the decrypting views get the quiet short read instead, everything else an error
			if kind2 == spyfs.FShort && b-1 < len(log) && log[b-1].Kind == "readat" && !strings.Contains(sc.Name, "generated-image") {
				kind2 = spyfs.FEIO
				if strings.HasPrefix(sc.Name, "encrypted-") || sc.Name == "3k3y-image" {
					kind2 = spyfs.FShortQuiet
				}
			}
			plans = append(plans, plan{[]spyfs.Fault{{Index: a, Kind: spyfs.FEIO}, {Index: b, Kind: kind2, K: 1 + rng.Intn(3000)}}, fmt.Sprintf("pair: EIO at #%d + %s at #%d", a, kind2, b), "pair", "pair"})
		}
		for _, pl := range plans {
			if run.TooMany() || c13Stuck.Load() {
				break
			}
			if sc.Write {
				c13ResetUp(root)
			}
			totalFaultRuns++
			t.p.Do(worker.Cmd{Cmd: "plan", Faults: pl.f})
			outcome := c13RunFaulted(e, t, sc, res.Resp, pl.desc)
			rep, sconn, err := t.quiesce()
			if err != nil || !t.p.Alive() {
				run.Violate("process-died", sc.Name+": "+crashClass(t.p.CrashTrace()), fmt.Sprintf("[%s, %s] the server process died: %s", sc.Name, pl.desc, firstLines(t.p.CrashTrace(), 10)), map[string]any{"scenario": sc.Name, "fault": pl.f})
				return
			}
			run.Eval(1)
			run.Sig("%s | %s@%s -> %s", sc.Name, pl.kind, pl.op, outcome)
			wit := map[string]any{"scenario": sc.Name, "requests": reqStrings(sc.Reqs), "fault_plan": pl.f, "fault": pl.desc, "fired": rep.Fired}
			if len(rep.Fired) == 0 && pl.kind != "pair" && pl.kind != "short-all" && pl.kind != "close-all" {
				run.Count("planned_faults_not_reached", 1)
				run.Sample(map[string]any{"unreached_fault": pl.desc, "scenario": sc.Name, "outcome": outcome, "ops_in_this_run": rep.Ops})
			}
			if len(rep.Open) > 0 || sconn != 0 {
				firedAt := "?"
				if len(rep.Fired) > 0 {
					firedAt = rep.Fired[0].Kind + " " + strings.TrimPrefix(rep.Fired[0].Path, root)
				}
				sort.Strings(rep.Open)
				run.Violate("leak", fmt.Sprintf("%s: %s on %s", sc.Name, pl.kind, firedAt), fmt.Sprintf("[%s, %s] after the connection ended %d handles are still open (%v), %d serveConn goroutines left", sc.Name, pl.desc, len(rep.Open), trimPaths(rep.Open, root), sconn), wit)
			}
			t.p.Do(worker.Cmd{Cmd: "plan"}) // the probe must not run into the fault plan
			if err := host.Probe(t.p.HostPort()); err != nil {
				run.Violate("not-serving", sc.Name, fmt.Sprintf("[%s, %s] fresh connection not served afterwards: %v", sc.Name, pl.desc, err), wit)
			}
			// the fault is over: a new connection replaying the scenario must get the fault-free answers
			// again (nothing the fault produced may have been remembered)
			if !sc.Write {
				if out := c13RunFaulted(e, t, sc, res.Resp, "healthy replay after: "+pl.desc); out != "same" && out != "violation" && out != "hang" {
					run.Violate("fault-remembered", sc.Name, fmt.Sprintf("[%s] after the fault (%s) was gone, a fresh connection replaying the scenario did not get the fault-free answers (first deviation: %s)", sc.Name, pl.desc, out), wit)
				}
				if rep2, sconn2, err := t.quiesce(); err == nil && (len(rep2.Open) > 0 || sconn2 != 0) {
					run.Violate("leak", sc.Name+": healthy replay", fmt.Sprintf("[%s] healthy replay after %s left %d handles open", sc.Name, pl.desc, len(rep2.Open)), wit)
				}
			}
		}
	}
	// cold-start fault runs: the fault hits a freshly started server, so it is the *first* time the
	// faulted operation runs (anything the server remembers from a failed first attempt - keys,
	// sizes, layouts - shows up in the healthy replay that follows on the same process)
	coldRuns := 0
	for _, sc := range scen {
		if c13Stuck.Load() {
			break
		}
		if sc.Write || !(strings.HasPrefix(sc.Name, "encrypted") || strings.HasPrefix(sc.Name, "3k3y") || strings.HasPrefix(sc.Name, "ps3") || strings.HasPrefix(sc.Name, "generated") || sc.Name == "mixed-handles") {
			continue
		}
		reqs := append(append([]wire.Req{}, sc.Reqs...), wire.P(wire.OpStat, "/"))
		scc := sc
		scc.Reqs = reqs
		tro.p.Do(worker.Cmd{Cmd: "plan", KeepLog: true})
		ref := RunLockstepOpt(tro.p.HostPort(), tro.w, reqs, e.Watchdog, LockOpt{KeepResp: true, NoFence: true})
		if ref.Fail != nil {
			continue
		}
		rep, _, err := tro.quiesce()
		if err != nil {
			continue
		}
		K := rep.Ops
		step := 1
		if !e.Thorough && K > 30 {
			step = 2
		}
		for i := 1; i <= K; i += step {
			cw := &c13Target{root: root}
			cw.p = e.Worker(worker.Config{Root: root, BufSize: 65536, Faults: []spyfs.Fault{{Index: i, Kind: spyfs.FEIO}}}, "c13-cold", false, 0)
			addr := cw.p.HostPort()
			cw.w = &model.World{Root: root, Views: FullViews, Probe: func() error { return host.Probe(addr) }}
			desc := fmt.Sprintf("cold start, EIO at op #%d", i)
			c13RunFaulted(e, cw, scc, ref.Resp, desc)
			cw.quiesce()
			cw.p.Do(worker.Cmd{Cmd: "plan"})
			if out := c13RunFaulted(e, cw, scc, ref.Resp, "healthy replay after: "+desc); out != "same" && out != "violation" && out != "hang" {
				run.Violate("fault-remembered", sc.Name, fmt.Sprintf("[%s] after the fault (%s) was gone, a fresh connection replaying the scenario did not get the fault-free answers (first deviation: %s)", sc.Name, desc, out), map[string]any{"scenario": sc.Name, "fault": desc})
			}
			if rep2, sconn2, err := cw.quiesce(); err == nil && (len(rep2.Open) > 0 || sconn2 != 0) {
				run.Violate("leak", sc.Name+": cold start", fmt.Sprintf("[%s, %s] %d handles still open (%v)", sc.Name, desc, len(rep2.Open), trimPaths(rep2.Open, root)), map[string]any{"scenario": sc.Name, "fault": desc})
			}
			if !cw.p.Alive() {
				run.Violate("process-died", sc.Name+": "+crashClass(cw.p.CrashTrace()), fmt.Sprintf("[%s, %s] server died: %s", sc.Name, desc, firstLines(cw.p.CrashTrace(), 8)), nil)
			}
			cw.p.Stop()
			coldRuns++
			run.Eval(1)
			run.Sig("%s | cold-start eio", sc.Name)
		}
	}
	run.Obs("cold_start_fault_runs", coldRuns)
	run.Obs("fault_runs", totalFaultRuns)
	run.Obs("fs_operations_in_recording_runs", totalOps)
	run.Exhaustive = true
	c13Endings(e, tro, trw, scen)
	for _, t := range []*c13Target{tro, trw} {
		CrashCheck(e, t.p, "c13 worker", nil)
		t.p.Stop()
		for i, rr := range dedupeRaces(t.p.RaceReports()) {
			if i < 5 {
				run.Violate("data-race", raceKey(rr), "race detector report during fault injection: "+firstLines(rr, 14), map[string]any{"report": rr})
			}
		}
	}
	// an implementation may legitimately do fewer operations in a later run (caches): unreached
	// planned faults are reported, and only a large share of them means the enumeration is broken
	run.Floor(run.Counter("planned_faults_not_reached")*5 <= int64(totalFaultRuns), fmt.Sprintf("%d of %d planned faults were never reached", run.Counter("planned_faults_not_reached"), totalFaultRuns))
}

func trimPaths(p []string, root string) []string {
	out := make([]string, len(p))
	for i, s := range p {
		out[i] = strings.TrimPrefix(s, root)
	}
	return out
}

// c13RunFaulted replays the scenario under the installed fault plan and judges each answer.
func c13RunFaulted(e *Env, t *c13Target, sc c13Scenario, ref [][]byte, desc string) string {
	run := e.Run
	c, err := wire.Dial(t.p.HostPort(), nil, e.Watchdog)
	if err != nil {
		run.Inconclusive("dial: " + err.Error())
		return "dial-failed"
	}
	defer c.Close()
	outcome := "same"
	imgPS3, isImg := false, false
	dirFree := false
	for i, r := range sc.Reqs {
		if i >= len(ref) {
			break
		}
		if r.Op == wire.OpOpen {
			p := string(r.Path)
			isImg = strings.HasPrefix(p, "/***DVD***/") || strings.HasPrefix(p, "/***PS3***/")
			imgPS3 = strings.HasPrefix(p, "/***PS3***/")
		}
		if err := c.Send(r); err != nil {
			return outcome + "+closed"
		}
		refLen := len(ref[i])
		got, st := readResponse(c, r, refLen)
		refI := ref[i]
		if isImg && (r.Op == wire.OpRead || r.Op == wire.OpReadCrit) {
			// two opens of a generated image may differ in the fields C18 exempts
			hdr := 0
			if r.Op == wire.OpRead {
				hdr = 4
			}
			got, refI = bytes.Clone(got), bytes.Clone(refI)
			for _, dc := range imageDontCare(imgPS3) {
				for x := dc[0]; x < dc[1]; x++ {
					k := x - int64(r.Off) + int64(hdr)
					if k >= int64(hdr) && k < int64(len(got)) {
						got[k] = 0
					}
					if k >= int64(hdr) && k < int64(len(refI)) {
						refI[k] = 0
					}
				}
			}
		}
		if (r.Op == wire.OpReadCrit || r.Op == wire.OpReadCD) && st == wire.Closed {
			if bytes.HasPrefix(refI, got) {
				return "prefix-eof"
			}
			run.Violate("wrong-bytes-under-fault", sc.Name+": "+r.Op.String(), fmt.Sprintf("[%s, %s] %s: %d bytes before the disconnection are not a prefix of the file content (first difference at %d)", sc.Name, desc, r, len(got), firstDiffIdx(refI, got)), map[string]any{"scenario": sc.Name, "fault": desc, "request": r.String()})
			return "violation"
		}
		// after an OPENDIR that (also without fault) fails, which directory is open is unspecified: the
		// listing requests that follow are only held to their framing
		if r.Op == wire.OpOpenDir && len(ref[i]) == 4 {
			dirFree = wire.I32(ref[i]) != 0
		}
		if dirFree && opIn(r.Op, wire.OpReadDir, wire.OpRDE, wire.OpRDE2) {
			if st != wire.Full {
				return "prefix-eof"
			}
			continue
		}
		v, detail := c13Judge(r, refI, got, st)
		if v == "" && r.Op == wire.OpDirSize && st == wire.Full && strings.Contains(strings.ToUpper(desc), "ENOENT") && !strings.HasPrefix(desc, "healthy replay") &&
			len(got) == 8 && wire.I64(got) >= 0 && wire.I64(got) <= wire.I64(refI) {
			// the injected fault says "this object is not there (any more)": a total without it is the
			// true total of what is left
			v = "partial-sum"
		}
		switch v {
		case "same":
			continue
		case "":
			if st == wire.Timeout {
				if host.Probe(t.p.HostPort()) == nil {
					run.Violate("hang-under-fault", sc.Name+": "+r.Op.String(), fmt.Sprintf("[%s, %s] %s: %s while a fresh connection was answered", sc.Name, desc, r, detail), map[string]any{"scenario": sc.Name, "fault": desc, "request": r.String()})
				} else {
					run.Inconclusive("watchdog under fault")
				}
				return "hang"
			}
			run.Violate("wrong-answer-under-fault", sc.Name+": "+r.Op.String(), fmt.Sprintf("[%s, %s] %s: %s", sc.Name, desc, r, detail), map[string]any{"scenario": sc.Name, "fault": desc, "request": r.String(), "got": fmt.Sprintf("%x", head32(got)), "want": fmt.Sprintf("%x", head32(refI))})
			return "violation"
		default:
			// first deviation from the fault-free conversation: the session ends here (later answers
			// depend on state the fault legitimately changed)
			return v
		}
	}
	return outcome
}

// c13Endings: every way of ending a connection at every request boundary and mid-request.
func c13Endings(e *Env, tro, trw *c13Target, scen []c13Scenario) {
	run := e.Run
	// a worker with a short read timeout for the "timeout" ending
	tto := &c13Target{root: tro.root}
	tto.p = e.Worker(worker.Config{Root: tro.root, BufSize: 65536, ReadTimeoutMs: 150, KeepLog: false}, "c13-to", true, 0)
	defer tto.p.Stop()
	endings := []string{"close", "half-close", "rst", "unknown-opcode", "truncated", "timeout"}
	n := 0
	for _, sc := range scen {
		for cut := 0; cut <= len(sc.Reqs); cut++ {
			if !e.Thorough && cut%2 == 1 && cut != len(sc.Reqs) {
				continue
			}
			for _, end := range endings {
				if run.TooMany() || c13Stuck.Load() {
					return
				}
				t := tro
				if sc.Write {
					t = trw
					c13ResetUp(tro.root)
				}
				if end == "timeout" {
					if sc.Write {
						continue
					}
					t = tto
				}
				t.p.Do(worker.Cmd{Cmd: "plan"})
				c, err := wire.Dial(t.p.HostPort(), nil, e.Watchdog)
				if err != nil {
					run.Inconclusive("dial: " + err.Error())
					continue
				}
				ok := true
				for i := 0; i < cut && ok; i++ {
					if c.Send(sc.Reqs[i]) != nil {
						ok = false
						break
					}
					if _, st := readResponse(c, sc.Reqs[i], -1); st != wire.Full {
						ok = false
					}
				}
				switch end {
				case "close":
					c.Close()
				case "half-close":
					c.CloseWrite()
					c.ExpectEOF()
					c.Close()
				case "rst":
					c.Reset()
				case "unknown-opcode":
					c.Send(wire.Req{Op: 0x2412})
					c.ExpectEOF()
					c.Close()
				case "truncated":
					b := wire.P(wire.OpStat, "/some/long/path/that/is/cut").Bytes()
					c.SendRaw(b[:9+cut%20])
					c.CloseWrite()
					c.ExpectEOF()
					c.Close()
				case "timeout":
					// stay silent, stalled inside the command, or stalled after a complete command whose path
					// (or upload payload) is still missing, until the server cuts the connection
					where := "silent"
					switch cut % 3 {
					case 0:
						c.SendRaw([]byte{0x12, 0x30, 0x00})
						where = "inside the 16-byte command"
					case 1:
						b := wire.P(wire.OpStat, "/file.bin").Bytes()
						c.SendRaw(b[:16+4])
						where = "after the command, inside the path"
					}
					_, st := c.ExpectEOF()
					if st == wire.Timeout {
						// the ending never happened: whatever the connection holds stays open for as long as the
						// client keeps the socket. Only a responsive server makes this a verdict.
						if host.Probe(t.p.HostPort()) == nil {
							run.Violate("timeout-ending-missing", "stalled "+where, fmt.Sprintf("[%s after %d requests] the connection stalled %s was not cut by the 150 ms read timeout within the %v watchdog although the server answers a fresh connection: its handles stay open", sc.Name, cut, where, e.Watchdog), map[string]any{"scenario": sc.Name, "requests": reqStrings(sc.Reqs[:cut]), "stalled": where})
						} else {
							run.Inconclusive("read-timeout ending: server did not cut within the watchdog")
						}
					}
					c.Close()
				}
				n++
				rep, sconn, err := t.quiesce()
				if err != nil || !t.p.Alive() {
					run.Violate("process-died", sc.Name+": ending "+end, fmt.Sprintf("[%s cut after %d requests, ending %s] the server died: %s", sc.Name, cut, end, firstLines(t.p.CrashTrace(), 8)), nil)
					return
				}
				run.Eval(1)
				pos := "boundary"
				if cut == 0 {
					pos = "start"
				} else if cut == len(sc.Reqs) {
					pos = "end"
				}
				run.Sig("%s | ending=%s at %s", sc.Name, end, pos)
				if len(rep.Open) > 0 || sconn != 0 {
					sort.Strings(rep.Open)
					run.Violate("leak", fmt.Sprintf("%s: ending %s", sc.Name, end), fmt.Sprintf("[%s, connection ended by %s after %d of %d requests] %d handles still open (%v), %d serveConn goroutines left", sc.Name, end, cut, len(sc.Reqs), len(rep.Open), trimPaths(rep.Open, t.root), sconn), map[string]any{"scenario": sc.Name, "requests": reqStrings(sc.Reqs[:cut]), "ending": end})
				}
			}
		}
	}
	run.Obs("ending_runs", n)
	CrashCheck(e, tto.p, "c13 timeout worker", nil)
}

// isKeyPath tells whether a file-system operation looks at a key file (or at the REDKEY directory).
func isKeyPath(p string) bool {
	lp := strings.ToLower(p)
	return strings.HasSuffix(lp, ".dkey") || strings.HasSuffix(lp, ".key") || strings.Contains(lp, "/redkey")
}
