//go:build verif

package checks

import (
	"strings"
	"bytes"
	"encoding/hex"
	"fmt"
	"io"
	"os"
	"path/filepath"

	"github.com/spf13/afero"

	rfs "github.com/xakep666/ps3netsrv-go/pkg/fs"

	"verif/host"
	"verif/model"
	"verif/refcrypt"
	"verif/tree"
	"verif/wire"
	"verif/worker"
)

type c11Layout struct {
	Dir, Ext, Nest, Key, WM, Len string
	ID                           int
	Special                      string `json:",omitempty"` // a hand-made layout outside the product
}

// c11Bases: the base name is not a factor of the statement's product, so it must not matter — names
// that end in letters of the extension, contain dots or blanks, or look like an extension themselves
// rotate through the product (one in five layouts keeps "game").
var c11Bases = []string{"game", "demo", "Tetris", "v1.0", "FIFA STREET SOS", "disc.iso", "a.b..", "osi", "I", ".hidden"}

func (l c11Layout) base() string {
	if l.Special != "" {
		return "game"
	}
	return c11Bases[l.ID%len(c11Bases)]
}

func (l c11Layout) String() string {
	if l.Special != "" {
		return "special=" + l.Special
	}
	return fmt.Sprintf("dir=%s ext=%s nest=%s key=%s wm=%s len=%s base=%q", l.Dir, l.Ext, l.Nest, l.Key, l.WM, l.Len, l.base())
}

// c11Build creates the layout under root and returns the request path of the image file.
func c11Build(root string, l c11Layout) string {
	if l.Special != "" {
		return c11BuildSpecial(root, l)
	}
	lens := map[string]int{"<F70": 0xF00, "F90..106F": 0x1000, "=106F": 0x106F, "=1070": 0x1070, "=1071": 0x1071, ">=1070": 0x1070 + 0x790 /* 3 sectors */, "multi": 40 * 2048}
	n := lens[l.Len]
	kA := tree.Content(int64(l.ID)*3+1, 16)
	kR := tree.Content(int64(l.ID)*3+2, 16)
	k3 := tree.Content(int64(l.ID)*3+3, 16)
	plain := tree.Content(int64(l.ID)+1000, int64(n))
	sectors := n / 2048
	regs := []refcrypt.Region{{Start: 0, End: 1}, {Start: 4, End: uint32(sectors + 5)}}
	if l.Len == "multi" {
		regs = []refcrypt.Region{{Start: 0, End: 1}, {Start: 4, End: 9}, {Start: 15, End: 16}, {Start: 17, End: 30}, {Start: 38, End: 60}}
	}
	copy(plain, refcrypt.Table(regs))
	switch l.WM {
	case "enc":
		if n >= maskBegin+32 {
			copy(plain[maskBegin:], wmEnc)
			copy(plain[maskBegin+16:], k3)
		}
	case "dec":
		if n >= maskBegin+16 {
			copy(plain[maskBegin:], wmDec)
		}
	}
	// which key was the disc "really" encrypted with: the one the documented rule selects
	isISO := l.Ext != ".bin"
	inPS3 := l.Dir != "GAMES"
	var build []byte
	if isISO && inPS3 {
		switch l.Key {
		case "adjacent", "both":
			build = kA
		case "redkey", "malformed+redkey":
			build = kR
		}
	}
	if build == nil && l.WM == "enc" && n >= maskEnd {
		build = k3
	}
	stored := plain
	if build != nil {
		stored = refcrypt.BuildImage(plain, regs, build)
	}
	sub := ""
	if l.Nest == "nested" {
		sub = "sub"
	}
	dir := filepath.Join(root, l.Dir, sub)
	must(os.MkdirAll(dir, 0o755))
	must(os.WriteFile(filepath.Join(dir, l.base()+l.Ext), stored, 0o644))
	writeKey := func(d string, k []byte) {
		must(os.MkdirAll(d, 0o755))
		must(os.WriteFile(filepath.Join(d, l.base()+".dkey"), []byte(hex.EncodeToString(k)), 0o644))
	}
	switch l.Key {
	case "adjacent":
		writeKey(dir, kA)
	case "redkey":
		writeKey(filepath.Join(root, "REDKEY", sub), kR)
	case "both":
		writeKey(dir, kA)
		writeKey(filepath.Join(root, "REDKEY", sub), kR)
	case "malformed":
		must(os.WriteFile(filepath.Join(dir, l.base()+".dkey"), []byte("this is not hex at all, sorry!!!"), 0o644))
	case "malformed+redkey":
		// the adjacent key file exists (and wins) but is unusable; a good key waits in REDKEY: it must not be
		// taken silently instead
		must(os.WriteFile(filepath.Join(dir, l.base()+".dkey"), []byte("0123456789abcdef"), 0o644)) // too short
		writeKey(filepath.Join(root, "REDKEY", sub), kR)
	}
	return "/" + filepath.Join(l.Dir, sub, l.base()+l.Ext)
}

func C11(e *Env) {
	run := e.Run
	run.Rule = "cases: the full finite product directory-name case {PS3ISO,ps3iso,Ps3Iso,GAMES} x extension {.iso,.ISO,.Iso,.bin} x nesting {direct, one level below} x key {none, adjacent, REDKEY, both (different), malformed, malformed adjacent + good REDKEY} x watermark {none, encrypted, decrypted} x length {<0xF70, 0xF90..0x106F, exactly 0x106F / 0x1070 / 0x1071, >=0x1070, multi-sector}; each layout is opened through the real FS.Open (sequential read + windows overlapping 0xF70..0x1070 + open-for-write pass-through) and a sample/all through the server; image base names rotate through {game, demo, Tetris, v1.0, 'FIFA STREET SOS', disc.iso, a.b.., osi, I, .hidden} (the name is not a factor: it must not matter); bytes compared with the transformation selected by the decision table transcribed from the statement; non-trivial = distinct (layout class, selected transformation)"
	if _, err := refcrypt.SelfCheck(); err != nil {
		fatalf("refcrypt self-check: %v", err)
	}
	base := e.Dir("c11")
	var layouts []c11Layout
	id := 0
	for _, d := range []string{"PS3ISO", "ps3iso", "Ps3Iso", "GAMES"} {
		for _, x := range []string{".iso", ".ISO", ".Iso", ".bin"} {
			for _, n := range []string{"direct", "nested"} {
				for _, k := range []string{"none", "adjacent", "redkey", "both", "malformed", "malformed+redkey"} {
					for _, w := range []string{"none", "enc", "dec"} {
						for _, ln := range []string{"<F70", "F90..106F", "=106F", "=1070", "=1071", ">=1070", "multi"} {
							id++
							layouts = append(layouts, c11Layout{Dir: d, Ext: x, Nest: n, Key: k, WM: w, Len: ln, ID: id})
						}
					}
				}
			}
		}
	}
	run.Obs("layouts_in_product", len(layouts))
	for _, sp := range c11Specials {
		id++
		layouts = append(layouts, c11Layout{Dir: "special", Ext: "special", Nest: "special", Key: sp, WM: "none", Len: "multi", ID: id, Special: sp})
	}
	run.Obs("special_layouts", c11Specials)
	netEvery := e.Pick(4, 1)
	p := e.Worker(worker.Config{Root: base, BufSize: 65536}, "c11", false, 0)
	defer p.Stop()
	addr := p.HostPort()
	judged, unjudged := 0, 0
	type result struct{ judged bool }
	ParallelDo(len(layouts), 12, func(i int) {
		l := layouts[i]
		root := filepath.Join(base, fmt.Sprintf("L%04d", l.ID))
		must(os.MkdirAll(root, 0o755))
		rel := c11Build(root, l)
		osPath := filepath.Join(root, rel)
		alts := decide(root, osPath)
		run.Eval(1)
		wit := map[string]any{"layout": l, "path": rel}
		// ---- library view
		fsys := &rfs.FS{Fs: afero.NewBasePathFs(afero.NewOsFs(), root)}
		var got []byte
		var openErr error
		var perr any
		windows := [][2]int64{{0xF60, 0x40}, {0xF70, 0x100}, {0xF80, 0x10}, {0xFFF, 2}, {0x1060, 0x20}, {0x106F, 1}, {0x1070, 16}, {0xF00, 0x400}, {0x7FF, 0x1002}}
		var winGot [][]byte
		func() {
			defer func() { perr = recover() }()
			f, err := fsys.Open(rel)
			if err != nil {
				openErr = err
				return
			}
			defer f.Close()
			got, err = io.ReadAll(f)
			if err != nil {
				openErr = fmt.Errorf("read: %w", err)
				return
			}
			for _, w := range windows {
				buf := make([]byte, w[1])
				if _, err := f.Seek(w[0], io.SeekStart); err != nil {
					winGot = append(winGot, nil)
					continue
				}
				n, _ := io.ReadFull(f, buf)
				winGot = append(winGot, buf[:n])
			}
		}()
		if perr != nil {
			run.Violate("panic", panicClass(perr), fmt.Sprintf("[%s] FS.Open/Read panicked: %v", l, perr), wit)
			return
		}
		if len(alts) == 0 {
			run.Count("layouts_not_judged", 1)
		} else {
			run.Count("layouts_judged", 1)
			ok := false
			var why string
			for _, a := range alts {
				if a.fail {
					if openErr != nil {
						ok = true
					} else {
						why = "open must fail (" + a.kind + ") but succeeded"
					}
					continue
				}
				if openErr != nil {
					why = fmt.Sprintf("open/read failed: %v (selected: %s)", openErr, a.kind)
					continue
				}
				if d := diffWithDC(got, a.bytes, a.dc, 0); d != "" {
					why = fmt.Sprintf("selected transformation %s: %s", a.kind, d)
					continue
				}
				ok = true
				for wi, w := range windows {
					if w[0] >= int64(len(a.bytes)) {
						continue
					}
					want := a.bytes[w[0]:min(int64(len(a.bytes)), w[0]+w[1])]
					if wi >= len(winGot) || winGot[wi] == nil {
						ok, why = false, fmt.Sprintf("window %#x+%#x could not be read", w[0], w[1])
						break
					}
					if d := diffWithDC(winGot[wi], want, a.dc, w[0]); d != "" {
						ok, why = false, fmt.Sprintf("window read %#x+%#x (%s): %s", w[0], w[1], a.kind, d)
						break
					}
				}
				if ok {
					run.Sig("%s/%s/%s/%s/%s/%s -> %s", lowerClass(l.Dir), l.Ext, l.Nest, l.Key, l.WM, l.Len, a.kind)
					break
				}
			}
			if !ok {
				run.Violate("wrong-transformation", fmt.Sprintf("key=%s,wm=%s,len=%s,%s%s", l.Key, l.WM, l.Len, lowerClass(l.Dir), lowerExt(l.Ext)), fmt.Sprintf("[%s] %s", l, why), wit)
				return
			}
		}
		// ---- open for writing: passed through byte-identically
		func() {
			defer func() {
				if p := recover(); p != nil {
					run.Violate("panic", panicClass(p), fmt.Sprintf("[%s] OpenFile(O_RDWR|O_APPEND) panicked: %v", l, p), wit)
				}
			}()
			f, err := fsys.OpenFile(rel, os.O_RDWR|os.O_APPEND, 0)
			if err != nil {
				run.Violate("open-for-write", "refused", fmt.Sprintf("[%s] OpenFile for writing failed: %v", l, err), wit)
				return
			}
			defer f.Close()
			raw, _ := os.ReadFile(osPath)
			b, err := io.ReadAll(f)
			if err != nil || !bytes.Equal(b, raw) {
				run.Violate("open-for-write", "transformed", fmt.Sprintf("[%s] file opened for writing is not passed through byte-identically (err=%v)", l, err), wit)
			}
		}()
		// ---- through the server
		if i%netEvery == 0 && len(alts) == 1 {
			w := &model.World{Root: base, Views: FullViews, Probe: func() error { return host.Probe(addr) }}
			full := fmt.Sprintf("/L%04d%s", l.ID, rel)
			reqs := []wire.Req{wire.P(wire.OpOpen, full), wire.Read(0x200, 0xF00), wire.Read(0x100, 0xF70), wire.Read(1<<20, 0), wire.Read(33, 0xF7F)}
			if !alts[0].fail {
				sz := int64(len(alts[0].bytes))
				if sz >= 0x1070 {
					reqs = append(reqs, wire.Crit(0x100, 0xF70), wire.Crit(uint32(sz-0x800), 0x7FF))
				}
				reqs = append(reqs, wire.Crit(uint32(sz), 0))
			}
			// FullViews resolves relative to w.Root=base; decide() needs the layout root for REDKEY: base/Lxxxx is
			// not the served root, so the REDKEY lookup happens relative to the served root.
			res := RunLockstep(addr, w, reqs, e.Watchdog, 0, false)
			run.Count("layouts_through_network", 1)
			if res.Fail != nil {
				wit["requests"] = reqStrings(reqs)
				wit["transcript"] = tailStr(res.Log, 10)
				judgeModelFail(e, res.Fail, reqs, res.FailAt, "net-", fmt.Sprintf("key=%s,wm=%s,len=%s", l.Key, l.WM, l.Len), fmt.Sprintf("[%s] %s", l, res.Fail.Detail), wit)
			}
		}
		if i%400 == 0 {
			kinds := []string{}
			for _, a := range alts {
				kinds = append(kinds, a.kind)
			}
			run.Sample(map[string]any{"layout": l, "selected": kinds})
		}
	})
	_ = judged
	_ = unjudged
	c11Histories(e, base, addr)
	run.Exhaustive = true
	CrashCheck(e, p, "c11 worker", nil)
	run.Assume("not judged (statement silent): malformed key files, file length inside the watermark area, key applies to a table with single-sector plain regions; with key and watermark both present the 256-byte area is don't-care")
	run.Floor(run.Counter("layouts_judged") >= 2000, "fewer than 1000 layouts judged")
}

func lowerClass(d string) string {
	if d == "GAMES" {
		return "other-dir"
	}
	return d
}

func lowerExt(x string) string { return x }

// diffWithDC compares got with want ignoring don't-care ranges (given in absolute offsets; base is
// the absolute offset of got[0]).
func diffWithDC(got, want []byte, dc [][2]int64, base int64) string {
	if len(got) != len(want) {
		return fmt.Sprintf("length %d, want %d", len(got), len(want))
	}
	for i := range got {
		if got[i] != want[i] {
			skip := false
			for _, r := range dc {
				if base+int64(i) >= r[0] && base+int64(i) < r[1] {
					skip = true
				}
			}
			if !skip {
				return fmt.Sprintf("byte at offset %#x is %#02x, want %#02x", base+int64(i), got[i], want[i])
			}
		}
	}
	return ""
}

var c11Specials = []string{"redkey-is-file", "redkey-sub-is-file", "name-255-bytes", "adjacent-dkey-is-dir+redkey", "redkey-dkey-is-dir", "dir-PS3\u0130SO+redkey", "ext-.\u0130SO+adjacent", "dir-PS3I\u017fO+redkey", "ext-.i\u017fo+adjacent", "dir-PS3ISO-suffix", "dkey-upper-case-ext"}

// c11BuildSpecial: situations in which no key file applies although something with a key-like name
// is around (the image must then be served as (b) says: here byte-identically), and one in which the
// adjacent "key" is a directory, so that the REDKEY file is the first key *file*.
func c11BuildSpecial(root string, l c11Layout) string {
	n := 40 * 2048
	kR := tree.Content(int64(l.ID)*3+2, 16)
	plain := tree.Content(int64(l.ID)+1000, int64(n))
	regs := []refcrypt.Region{{Start: 0, End: 1}, {Start: 4, End: 9}, {Start: 15, End: 30}}
	copy(plain, refcrypt.Table(regs))
	write := func(rel string, b []byte) {
		must(os.MkdirAll(filepath.Dir(filepath.Join(root, rel)), 0o755))
		must(os.WriteFile(filepath.Join(root, rel), b, 0o644))
	}
	hexKey := []byte(hex.EncodeToString(kR))
	switch l.Special {
	case "redkey-is-file":
		write("PS3ISO/game.iso", plain)
		write("REDKEY", []byte("not a directory"))
		return "/PS3ISO/game.iso"
	case "redkey-sub-is-file":
		write("PS3ISO/sub/game.iso", plain)
		write("REDKEY/sub", []byte("not a directory"))
		return "/PS3ISO/sub/game.iso"
	case "name-255-bytes":
		name := string(bytes.Repeat([]byte("n"), 251)) + ".iso"
		write("PS3ISO/"+name, plain)
		must(os.MkdirAll(filepath.Join(root, "REDKEY"), 0o755))
		return "/PS3ISO/" + name
	case "adjacent-dkey-is-dir+redkey":
		write("PS3ISO/game.iso", refcrypt.BuildImage(plain, regs, kR))
		must(os.MkdirAll(filepath.Join(root, "PS3ISO", "game.dkey"), 0o755))
		write("REDKEY/game.dkey", hexKey)
		return "/PS3ISO/game.iso"
	case "redkey-dkey-is-dir":
		write("PS3ISO/game.iso", plain)
		must(os.MkdirAll(filepath.Join(root, "REDKEY", "game.dkey"), 0o755))
		return "/PS3ISO/game.iso"
	case "dir-PS3\u0130SO+redkey":
		write("PS3\u0130SO/game.iso", plain)
		write("REDKEY/game.dkey", hexKey)
		return "/PS3\u0130SO/game.iso"
	case "ext-.\u0130SO+adjacent":
		write("PS3ISO/game.\u0130SO", plain)
		write("PS3ISO/game.dkey", hexKey)
		return "/PS3ISO/game.\u0130SO"
	case "dir-PS3I\u017fO+redkey":
		write("PS3I\u017fO/game.iso", plain)
		write("REDKEY/game.dkey", hexKey)
		return "/PS3I\u017fO/game.iso"
	case "ext-.i\u017fo+adjacent":
		write("PS3ISO/game.i\u017fo", plain)
		write("PS3ISO/game.dkey", hexKey)
		return "/PS3ISO/game.i\u017fo"
	case "dir-PS3ISO-suffix":
		write("PS3ISOX/game.iso", plain)
		write("PS3ISOX/game.dkey", hexKey)
		write("XPS3ISO/game.iso", plain)
		write("REDKEY/game.dkey", hexKey)
		return "/PS3ISOX/game.iso"
	case "dkey-upper-case-ext":
		write("PS3ISO/game.iso", plain)
		write("PS3ISO/game.DKEY", hexKey)
		return "/PS3ISO/game.iso"
	}
	panic("unknown special " + l.Special)
}


// c11Histories: "when a file is opened" — the decision is taken at every open, from the layout as it is
// then. One long-lived FS object (as the server has) and the running server open the same path again
// after the key files around it changed: a key appears beside an image that used the REDKEY one (the
// image re-encrypted with it: adjacent wins), a key is replaced, a key goes away (pass-through), a key
// appears where there was none. Every stage is judged by the same decision table as the product.
func c11Histories(e *Env, base, addr string) {
	run := e.Run
	hroot := filepath.Join(base, "H")
	must(os.MkdirAll(hroot, 0o755))
	fsys := &rfs.FS{Fs: afero.NewBasePathFs(afero.NewOsFs(), hroot)}
	type stage struct{ Key, WM string }
	hist := [][]stage{
		{{"redkey", "none"}, {"both", "none"}, {"redkey", "none"}, {"none", "none"}},
		{{"adjacent", "none"}, {"none", "none"}, {"adjacent", "none"}},
		{{"none", "none"}, {"adjacent", "none"}, {"redkey", "none"}},
		{{"adjacent", "none"}, {"adjacent*", "none"}, {"both", "none"}},
		{{"redkey", "enc"}, {"none", "enc"}, {"adjacent", "enc"}, {"none", "none"}},
		{{"none", "enc"}, {"none", "dec"}, {"none", "none"}, {"none", "enc"}},
		{{"both", "none"}, {"malformed+redkey", "none"}, {"redkey", "none"}},
	}
	for hi, h := range hist {
		for _, nest := range []string{"direct", "nested"} {
			dirName := []string{"PS3ISO", "ps3iso"}[hi%2]
			for si, st := range h {
				l := c11Layout{Dir: dirName, Ext: ".iso", Nest: nest, Key: strings.TrimSuffix(st.Key, "*"), WM: st.WM, Len: "multi", ID: 5*(hi*2+len(nest)%2) + 3}
				if strings.HasSuffix(st.Key, "*") {
					l.ID += 100000 // same base name (ID mod 10), different key material and content
				}
				sub := ""
				if nest == "nested" {
					sub = "sub"
				}
				root := filepath.Join(hroot, fmt.Sprintf("h%d%s", hi, nest))
				os.Remove(filepath.Join(root, l.Dir, sub, l.base()+".dkey"))
				os.Remove(filepath.Join(root, "REDKEY", sub, l.base()+".dkey"))
				rel := c11Build(root, l)
				osPath := filepath.Join(root, rel)
				alts := decide(root, osPath)
				run.Eval(1)
				if len(alts) == 0 {
					run.Count("history_stages_not_judged", 1)
					continue
				}
				wit := map[string]any{"history": h, "stage": si, "layout": l, "path": rel}
				feature := fmt.Sprintf("history:%s->%s", func() string {
					if si == 0 {
						return "start"
					}
					return h[si-1].Key + "/" + h[si-1].WM
				}(), st.Key+"/"+st.WM)
				// library: the long-lived FS object
				var got []byte
				var openErr error
				func() {
					defer func() {
						if p := recover(); p != nil {
							openErr = fmt.Errorf("panic: %v", p)
						}
					}()
					f, err := fsys.Open(filepath.Join("/", fmt.Sprintf("h%d%s", hi, nest), rel))
					if err != nil {
						openErr = err
						return
					}
					defer f.Close()
					got, openErr = io.ReadAll(f)
				}()
				ok, why := false, ""
				for _, a := range alts {
					switch {
					case a.fail && openErr != nil:
						ok = true
					case a.fail:
						why = "open must fail (" + a.kind + ") but succeeded"
					case openErr != nil:
						why = fmt.Sprintf("open/read failed: %v (selected: %s)", openErr, a.kind)
					default:
						if d := diffWithDC(got, a.bytes, a.dc, 0); d != "" {
							why = fmt.Sprintf("selected transformation %s: %s", a.kind, d)
						} else {
							ok = true
						}
					}
					if ok {
						run.Sig("history %s %s -> %s", nest, feature, a.kind)
						break
					}
				}
				run.Count("history_stages_judged", 1)
				if !ok {
					run.Violate("wrong-transformation", feature, fmt.Sprintf("[stage %d of %v, %s, long-lived FS object] %s", si, h, l, why), wit)
				}
				// the running server
				if len(alts) == 1 {
					w := &model.World{Root: base, Views: FullViews, Probe: func() error { return host.Probe(addr) }}
					full := "/" + filepath.Join("H", fmt.Sprintf("h%d%s", hi, nest), rel)
					reqs := []wire.Req{wire.P(wire.OpOpen, full), wire.Read(1<<20, 0), wire.Read(0x100, 0xF70)}
					if !alts[0].fail {
						reqs = append(reqs, wire.Crit(uint32(len(alts[0].bytes)), 0))
					}
					res := RunLockstep(addr, w, reqs, e.Watchdog, 0, false)
					run.Count("history_stages_through_network", 1)
					if res.Fail != nil {
						wit["requests"] = reqStrings(reqs)
						wit["transcript"] = tailStr(res.Log, 10)
						judgeModelFail(e, res.Fail, reqs, res.FailAt, "net-", feature, fmt.Sprintf("[stage %d of %v, %s] %s", si, h, l, res.Fail.Detail), wit)
					}
				}
			}
		}
	}
}
