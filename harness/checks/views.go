//go:build verif

package checks

import (
	"math/rand"

	"verif/model"
)

// c02ViewObjects creates the non-plain objects (generated images, encrypted images) below root and
// returns them with the ViewFunc that knows their expected bytes.
func c02ViewObjects(e *Env, root string, r *rand.Rand) ([]c02Obj, model.ViewFunc) {
	return nil, model.PlainViews
}
