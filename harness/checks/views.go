//go:build verif

package checks

import (
	"bytes"
	"encoding/hex"
	"math/rand"
	"os"
	"path/filepath"
	"strings"

	"verif/model"
	"verif/refcrypt"
)

const (
	maskBegin = 0xF70
	maskEnd   = 0x1070
)

var (
	wmEnc = []byte("Dncrypted 3K BLD")
	wmDec = []byte("Encrypted 3K BLD")
)

// alt is one admissible presentation of an opened regular file.
type alt struct {
	fail  bool
	bytes []byte
	dc    [][2]int64
	kind  string
}

// tableClass classifies the region table at the start of stored: "valid", "invalid" (one of the
// unambiguous invalid classes: must be rejected) or "unjudged".
func tableClass(stored []byte) (string, []refcrypt.Region) {
	regs, err := refcrypt.ParseTable(stored)
	if err != nil {
		return "invalid", nil // table longer than the file
	}
	if len(regs) < 2 {
		return "unjudged", regs
	}
	if len(regs) > 255 {
		return "unjudged", regs
	}
	if regs[0].Start != 0 {
		return "invalid", regs
	}
	class := "valid"
	for i, r := range regs {
		if r.End < r.Start {
			return "invalid", regs
		}
		if i > 0 {
			if r.Start < regs[i-1].Start {
				return "invalid", regs
			}
			if r.Start <= regs[i-1].End {
				class = "unjudged"
			}
		}
	}
	return class, regs
}

func readKeyFile(p string) (key []byte, exists bool, wellFormed bool) {
	b, err := os.ReadFile(p)
	if err != nil {
		return nil, false, false
	}
	if len(b) < 32 {
		return nil, true, false
	}
	k, err := hex.DecodeString(string(b[:32]))
	if err != nil {
		return nil, true, false
	}
	return k, true, true
}

// decide implements the decision table of C11 for a regular file below root.
func decide(root, osPath string) []alt {
	st, err := os.Stat(osPath)
	if err != nil {
		return nil
	}
	// only the bytes around the watermark decide which transformation applies; the whole file is
	// loaded when it is small enough to hold in memory (identity of a huge file needs no bytes here)
	var stored []byte
	if st.Size() <= 256<<20 {
		stored, err = os.ReadFile(osPath)
		if err != nil {
			return nil
		}
	} else {
		f, err := os.Open(osPath)
		if err != nil {
			return nil
		}
		head := make([]byte, maskEnd)
		n, _ := f.ReadAt(head, 0)
		f.Close()
		if n == maskEnd && (bytes.Equal(head[maskBegin:maskBegin+16], wmEnc) || bytes.Equal(head[maskBegin:maskBegin+16], wmDec)) {
			return nil // huge watermarked image: not judged
		}
		ext := filepath.Ext(osPath)
		if strings.EqualFold(ext, ".iso") && strings.Contains(strings.ToLower(osPath), "/ps3iso/") {
			return nil // huge image that may have a key: not judged
		}
		return []alt{{kind: "identity"}}
	}
	identity := alt{bytes: stored, kind: "identity"}
	rel := strings.TrimPrefix(osPath, root)
	elems := strings.Split(strings.Trim(rel, "/"), "/")
	ext := filepath.Ext(osPath)
	ps3idx := -1
	nPS3 := 0
	for i, c := range elems[:len(elems)-1] {
		if asciiEqualFold(c, "ps3iso") {
			if ps3idx < 0 {
				ps3idx = i
			}
			nPS3++
		}
	}
	// (b) watermark situation
	wm := "none"
	if len(stored) >= maskEnd {
		switch {
		case bytes.Equal(stored[maskBegin:maskBegin+16], wmEnc):
			wm = "enc"
		case bytes.Equal(stored[maskBegin:maskBegin+16], wmDec):
			wm = "dec"
		}
	} else if len(stored) >= maskBegin+32 {
		if bytes.Equal(stored[maskBegin:maskBegin+16], wmEnc) || bytes.Equal(stored[maskBegin:maskBegin+16], wmDec) {
			wm = "short" // file ends inside the watermark area: statement silent
		}
	}
	masked := func(b []byte) []byte {
		o := bytes.Clone(b)
		for i := maskBegin; i < maskEnd && i < len(o); i++ {
			o[i] = 0
		}
		return o
	}
	caseB := func() []alt {
		switch wm {
		case "enc":
			cls, regs := tableClass(stored)
			switch cls {
			case "invalid":
				return []alt{{fail: true, kind: "3k3y-enc-invalid-table"}}
			case "unjudged":
				return nil
			}
			key := stored[maskBegin+16 : maskBegin+32]
			return []alt{{bytes: masked(refcrypt.Plaintext(stored, regs, key, false)), kind: "3k3y-enc"}}
		case "dec":
			return []alt{{bytes: masked(stored), kind: "3k3y-dec"}}
		case "short":
			return nil
		}
		return []alt{identity}
	}
	// malformed key file: the statement is silent; admissible {open error, identity, (b)}
	malformed := func() []alt {
		b := caseB()
		if b == nil {
			return nil
		}
		return append([]alt{{fail: true, kind: "malformed-key-refused"}, identity}, b...)
	}
	if asciiEqualFold(ext, ".iso") && ps3idx >= 0 {
		if nPS3 > 1 {
			return nil // which PS3ISO directory is "the" one is not stated
		}
		base := strings.TrimSuffix(osPath, ext)
		adj := base + ".dkey"
		redElems := append([]string{}, elems...)
		redElems[ps3idx] = "REDKEY"
		redElems[len(redElems)-1] = strings.TrimSuffix(redElems[len(redElems)-1], ext) + ".dkey"
		red := filepath.Join(append([]string{root}, redElems...)...)
		var key []byte
		src := ""
		if k, ex, ok := readKeyFile(adj); ex {
			if !ok {
				return malformed()
			}
			key, src = k, "adjacent"
		} else if k, ex, ok := readKeyFile(red); ex {
			if !ok {
				return malformed()
			}
			key, src = k, "redkey"
		}
		if key != nil {
			cls, regs := tableClass(stored)
			switch cls {
			case "invalid":
				return []alt{{fail: true, kind: "redump-invalid-table"}}
			case "unjudged":
				return nil
			}
			a := alt{bytes: refcrypt.Plaintext(stored, regs, key, false), kind: "redump-" + src}
			if wm != "none" {
				a.dc = [][2]int64{{maskBegin, maskEnd}} // key applies and watermark present: area unspecified
			}
			return []alt{a}
		}
	}
	return caseB()
}

// FullViews is the ViewFunc implementing the decision table; ambiguous situations are not judged.
func FullViews(w *model.World, osPath string, virtual int, rel string) (model.View, bool, bool) {
	if virtual != model.VirtNone {
		return isoViews(w, virtual, rel)
	}
	alts := decide(w.Root, osPath)
	if len(alts) != 1 {
		return nil, false, false
	}
	a := alts[0]
	if a.fail {
		return nil, true, true
	}
	if a.kind == "identity" {
		v, err := model.NewPlainView(osPath)
		if err != nil {
			return nil, false, false
		}
		return v, false, true
	}
	return &model.BytesView{B: a.bytes, K: a.kind, DC: a.dc}, false, true
}

// c02ViewObjects creates the non-plain objects (generated images, encrypted images) below root and
// returns them with the ViewFunc that knows their expected bytes.
func c02ViewObjects(e *Env, root string, r *rand.Rand) ([]c02Obj, model.ViewFunc) {
	var objs []c02Obj
	must(os.MkdirAll(filepath.Join(root, "PS3ISO"), 0o755))
	must(os.MkdirAll(filepath.Join(root, "REDKEY"), 0o755))
	must(os.MkdirAll(filepath.Join(root, "other"), 0o755))
	for i := 0; i < e.Pick(6, 30); i++ {
		sectors := 20 + r.Intn(200)
		c := c10Case{Key: randBytes(r, 16), Sectors: sectors, Seed: r.Int63()}
		c.Regions, c.Shape = genRegions(r, sectors)
		if i%2 == 1 && i%3 != 2 {
			// images that do not end on a sector border: the incomplete last sector is stored as it is
			c.Tail = []int{1, 9, 1000, 2047}[(i/2)%4]
		}
		stored, _ := c.build()
		name := "enc" + string(rune('a'+i%26)) + hex.EncodeToString(randBytes(r, 2))
		var rel string
		switch i % 3 {
		case 0: // adjacent key
			rel = "/PS3ISO/" + name + ".iso"
			must(os.WriteFile(filepath.Join(root, "PS3ISO", name+".dkey"), []byte(hex.EncodeToString(c.Key)), 0o644))
		case 1: // REDKEY
			rel = "/PS3ISO/" + name + ".ISO"
			must(os.WriteFile(filepath.Join(root, "REDKEY", name+".dkey"), []byte(strings.ToUpper(hex.EncodeToString(c.Key))+"\n"), 0o644))
		case 2: // 3k3y encrypted watermark, anywhere
			plain := bytes.Clone(refcrypt.Plaintext(stored, c.Regions, c.Key, false))
			regs := []refcrypt.Region{{Start: 0, End: 1}, {Start: 5, End: uint32(sectors + 3)}}
			copy(plain, make([]byte, 64))
			copy(plain, refcrypt.Table(regs))
			copy(plain[maskBegin:], wmEnc)
			copy(plain[maskBegin+16:], c.Key)
			stored = refcrypt.BuildImage(plain, regs, c.Key)
			rel = "/other/" + name + ".iso"
		}
		must(os.WriteFile(filepath.Join(root, rel), stored, 0o644))
		objs = append(objs, c02Obj{rel, int64(len(stored)), "decrypted-view"})
	}
	objs = append(objs, isoObjects(e, root, r)...)
	return objs, FullViews
}

func randBytes(r *rand.Rand, n int) []byte {
	b := make([]byte, n)
	r.Read(b)
	return b
}

// asciiEqualFold: "any case" of an ASCII name means the ASCII letters only (U+0130 or U+017F are
// not spellings of I and S).
func asciiEqualFold(a, b string) bool {
	if len(a) != len(b) {
		return false
	}
	for i := 0; i < len(a); i++ {
		x, y := a[i], b[i]
		if x >= 'A' && x <= 'Z' {
			x += 32
		}
		if y >= 'A' && y <= 'Z' {
			y += 32
		}
		if x != y {
			return false
		}
	}
	return true
}
