//go:build verif

package checks

import (
	"bytes"
	"encoding/binary"
	"encoding/hex"
	"fmt"
	"math/rand"
	"net"
	"os"
	"os/exec"
	"path/filepath"
	"regexp"
	"strings"
	"sync"
	"sync/atomic"
	"syscall"
	"time"

	"verif/host"
	"verif/refcrypt"
	"verif/tree"
	"verif/wire"
	"verif/worker"
)

// hcase is one hostile case: optional on-disk setup (already done by the generator) and a set of
// byte streams, each sent on its own connection.
type hcase struct {
	Family  string     `json:"family"`
	Name    string     `json:"name"`
	Reqs    []wire.Req `json:"requests,omitempty"`
	Streams [][]byte   `json:"streams,omitempty"`
	Note    string     `json:"note,omitempty"`
	// End is how the client leaves: "" = half-close and read everything; "close-unread" = close without
	// reading a byte (the kernel resets the connection under the server's answers); "rst" = reset
	End string `json:"end,omitempty"`
}

var numRe = regexp.MustCompile(`0x[0-9a-fA-F]+|[0-9]+`)

func crashClass(trace string) string {
	line := trace
	if i := strings.IndexByte(line, '\n'); i >= 0 {
		line = line[:i]
	}
	line = numRe.ReplaceAllString(line, "N")
	// add the first repository frame for specificity
	for _, l := range strings.Split(trace, "\n") {
		if strings.Contains(l, "ps3netsrv-go/") && strings.Contains(l, "(") && !strings.Contains(l, "verifhook") {
			fn := l[strings.LastIndex(l, "/")+1:]
			if j := strings.Index(fn, "("); j > 0 {
				fn = fn[:j]
			}
			line += " @" + fn
			break
		}
	}
	if len(line) > 110 {
		line = line[:110]
	}
	return line
}

const c04VictimName = "victim-4c7a91e2.dat"

type c04Batch struct {
	e     *Env
	root  string
	cfg   worker.Config
	tag   string
	memKB int64
	p     *host.Proc
	wal   *os.File

	victim     *wire.Client
	victimOff  int64
	victimData []byte
	victimPath string
	mu         sync.Mutex
}

func (b *c04Batch) start() {
	b.p = b.e.Worker(b.cfg, b.tag, false, b.memKB)
	if b.victimPath != "" {
		c, err := wire.Dial(b.p.HostPort(), nil, b.e.Watchdog)
		if err == nil {
			c.Send(wire.P(wire.OpOpen, b.victimPath))
			if r, st := c.ReadN(16); st == wire.Full && wire.DecodeOpen(r).Size == int64(len(b.victimData)) {
				b.victim, b.victimOff = c, 0
			} else {
				c.Close()
			}
		}
	}
}

// victimStep continues the victim's transfer by one chunk; returns a description of a disturbance.
func (b *c04Batch) victimStep() string {
	if b.victim == nil {
		return ""
	}
	n := int64(3000)
	if b.victimOff+n > int64(len(b.victimData)) {
		b.victimOff = 0
	}
	if err := b.victim.Send(wire.Crit(uint32(n), uint64(b.victimOff))); err != nil {
		return "victim connection: send failed: " + err.Error()
	}
	got, st := b.victim.ReadN(int(n))
	if st != wire.Full {
		return fmt.Sprintf("victim connection: READCRIT %d@%d answered %d bytes then %s", n, b.victimOff, len(got), st)
	}
	if !bytes.Equal(got, b.victimData[b.victimOff:b.victimOff+n]) {
		return fmt.Sprintf("victim connection: READCRIT %d@%d returned wrong bytes", n, b.victimOff)
	}
	b.victimOff += n
	return ""
}

func (b *c04Batch) stop() {
	if b.victim != nil {
		b.victim.Close()
		b.victim = nil
	}
	if b.p != nil {
		b.p.Stop()
	}
}

// runCase sends the case, then probes. It returns false when the worker had to be restarted.
func (b *c04Batch) runCase(c hcase) bool {
	run := b.e.Run
	fmt.Fprintf(b.wal, "BEGIN %s/%s\n", c.Family, c.Name)
	addr := b.p.HostPort()
	streams := c.Streams
	if len(c.Reqs) > 0 {
		var s []byte
		for _, r := range c.Reqs {
			s = append(s, r.Bytes()...)
		}
		streams = append(streams, s)
	}
	var wg sync.WaitGroup
	var stuck atomic.Int32 // streams whose connection was neither answered to the end nor closed
	for _, s := range streams {
		wg.Add(1)
		go func(s []byte) {
			defer wg.Done()
			cl, err := wire.Dial(addr, nil, 3*time.Second)
			if err != nil {
				return
			}
			defer cl.Close()
			if c.End != "" {
				// a client that walks away: the server's answers meet a closed or reset connection, every
				// write error path of every handler is taken
				cl.SendRaw(s)
				if c.End == "rst" {
					cl.Reset()
				} else {
					cl.Close()
				}
				return
			}
			done := make(chan struct{})
			go func() { cl.SendRaw(s); cl.CloseWrite(); close(done) }()
			// drain whatever comes (bounded) until the server closes. The client has half-closed, so
			// every handler that terminates ends in a close; silence is tolerated while the server is
			// still doing file-system work for somebody (ops counter moving) and for 15 s without any,
			// at most 90 s in all: then the connection counts as neither answered nor closed.
			total := 0
			buf := make([]byte, 1<<16)
			lastOps, lastChange, begin := -1, time.Now(), time.Now()
		drain:
			for total < 256<<20 {
				cl.C.SetReadDeadline(time.Now().Add(3 * time.Second))
				n, err := cl.C.Read(buf)
				total += n
				if n > 0 {
					lastChange = time.Now()
				}
				if err == nil {
					continue
				}
				if ne, ok := err.(net.Error); !ok || !ne.Timeout() {
					break // closed / reset
				}
				select {
				case <-done:
				default:
					// our own send is still in progress (the server is not reading: its business)
					if time.Since(begin) > 90*time.Second {
						stuck.Add(1)
						break drain
					}
					continue
				}
				if rep, e2 := b.p.Do(worker.Cmd{Cmd: "report"}); e2 == nil && rep.Report != nil && rep.Report.Ops != lastOps {
					lastOps, lastChange = rep.Report.Ops, time.Now()
				}
				if !b.p.Alive() {
					break
				}
				if time.Since(lastChange) > 15*time.Second || time.Since(begin) > 90*time.Second {
					stuck.Add(1)
					break
				}
			}
			cl.Close()
			<-done
		}(s)
	}
	wg.Wait()
	run.Eval(1)
	fmt.Fprintf(b.wal, "DONE %s/%s\n", c.Family, c.Name)
	wit := map[string]any{"case": trimCase(c), "worker_config": b.cfg}
	if !b.p.Alive() || b.p.CrashTrace() != "" {
		tr := b.p.CrashTrace()
		b.p.WaitExit(5 * time.Second)
		wit["exit"] = b.p.ExitString()
		wit["trace"] = tr
		run.Violate("process-died", c.Family+": "+crashClass(tr), fmt.Sprintf("[%s/%s] the server process died (%s): %s", c.Family, c.Name, b.p.ExitString(), firstLines(tr, 12)), wit)
		b.stop()
		b.start()
		return false
	}
	if stuck.Load() > 0 {
		run.Violate("neither-answered-nor-closed", c.Family, fmt.Sprintf("[%s/%s] after the client had sent everything and half-closed, the server neither answered to the end nor closed the connection (no byte and no file-system activity for 15 s, or still busy after 90 s)", c.Family, c.Name), wit)
		b.stop()
		b.start()
		return false
	}
	if err := host.Probe(addr); err != nil {
		// retry once: a probe failing on a healthy but busy server must not be a verdict
		time.Sleep(200 * time.Millisecond)
		if err2 := host.Probe(addr); err2 != nil {
			run.Violate("not-serving", c.Family, fmt.Sprintf("[%s/%s] after the case a fresh connection is not served: %v", c.Family, c.Name, err2), wit)
			b.stop()
			b.start()
			return false
		}
	}
	if d := b.victimStep(); d != "" {
		b.victim.Close()
		b.victim = nil
		// With writing enabled a (mutated) request may name the victim's file and legitimately truncate or
		// replace it: then the transfer ends because of what a client asked for, not because the server was
		// disturbed. The fixture is compared with what was written at the start; only an unchanged fixture
		// makes the failed transfer a verdict. The fixture is put back and the victim starts again.
		if cur, err := os.ReadFile(filepath.Join(b.root, filepath.FromSlash(b.victimPath))); b.cfg.AllowWrite && (err != nil || !bytes.Equal(cur, b.victimData)) {
			run.Count("victim_fixture_changed_by_a_write_request", 1)
			os.Remove(filepath.Join(b.root, filepath.FromSlash(b.victimPath)))
			os.WriteFile(filepath.Join(b.root, filepath.FromSlash(b.victimPath)), b.victimData, 0o644)
			b.stop()
			b.start()
			return false
		}
		run.Violate("victim-disturbed", c.Family, fmt.Sprintf("[%s/%s] %s", c.Family, c.Name, d), wit)
	}
	return true
}

func firstLines(s string, n int) string {
	l := strings.Split(s, "\n")
	if len(l) > n {
		l = l[:n]
	}
	return strings.Join(l, " | ")
}

func trimCase(c hcase) hcase {
	out := c
	out.Streams = nil
	for _, s := range c.Streams {
		if len(s) > 300 {
			s = s[:300]
		}
		out.Streams = append(out.Streams, s)
	}
	if len(out.Reqs) > 30 {
		out.Reqs = out.Reqs[:30]
	}
	for i := range out.Reqs {
		if len(out.Reqs[i].Payload) > 64 {
			out.Reqs[i].Payload = out.Reqs[i].Payload[:64]
		}
		if len(out.Reqs[i].Path) > 300 {
			out.Reqs[i].Path = out.Reqs[i].Path[:300]
		}
	}
	return out
}

// ---------------------------------------------------------------------------------------------
// generators

func c04ValidSession(r *rand.Rand) []wire.Req {
	paths := []string{"/PS3ISO/tail.iso", fmt.Sprintf("/PS3ISO/many%02d.iso", r.Intn(64)), fmt.Sprintf("/PS3ISO/many%02d.iso", r.Intn(64)), "/", "/file.bin", "/big.bin", "/dir", "/dir/a.txt", "/nope", "/***DVD***/dir", "/***PS3***/game", "/PS3ISO/enc.iso", "/CLOSEFILE", "/sparse9g.bin", "/k3/enc3k3y.iso"}
	var reqs []wire.Req
	for i := 0; i < 3+r.Intn(12); i++ {
		switch r.Intn(10) {
		case 0, 1:
			reqs = append(reqs, wire.P(wire.OpOpen, paths[r.Intn(len(paths))]))
		case 2:
			reqs = append(reqs, wire.Read(uint32(r.Intn(100000)), uint64(r.Intn(300000))))
		case 3:
			reqs = append(reqs, wire.Crit(uint32(r.Intn(5000)), uint64(r.Intn(5000))))
		case 4:
			reqs = append(reqs, wire.CD(uint32(r.Intn(3)), uint32(r.Intn(3))))
		case 5:
			reqs = append(reqs, wire.P(wire.OpOpenDir, paths[r.Intn(len(paths))]), wire.Bare([]wire.Op{wire.OpReadDir, wire.OpRDE, wire.OpRDE2}[r.Intn(3)]))
		case 6:
			reqs = append(reqs, wire.P(wire.OpStat, paths[r.Intn(len(paths))]))
		case 7:
			reqs = append(reqs, wire.P(wire.OpCreate, "/w/up.bin"), wire.Write(randBytes(r, r.Intn(3000))))
		case 8:
			reqs = append(reqs, wire.P([]wire.Op{wire.OpDelete, wire.OpMkdir, wire.OpRmdir}[r.Intn(3)], "/w/x"+fmt.Sprint(r.Intn(4))))
		case 9:
			reqs = append(reqs, wire.P(wire.OpDirSize, paths[r.Intn(len(paths))]))
		}
	}
	return reqs
}

func mutate(r *rand.Rand, s []byte) []byte {
	b := bytes.Clone(s)
	if len(b) == 0 {
		return b
	}
	for k := 0; k < 1+r.Intn(4); k++ {
		switch r.Intn(6) {
		case 0:
			b[r.Intn(len(b))] ^= 1 << uint(r.Intn(8))
		case 1:
			i := r.Intn(len(b))
			b[i] = []byte{0, 0xff, 0x7f, 0x80}[r.Intn(4)]
		case 2: // length field extremes in some 16-byte command
			i := (r.Intn(len(b)/16+1) * 16) % len(b)
			for j := i + 2; j < i+16 && j < len(b); j++ {
				b[j] = 0xff
			}
		case 3:
			b = b[:r.Intn(len(b))+1]
		case 4:
			i, j := r.Intn(len(b)), r.Intn(len(b))
			b = append(b[:i:i], b[j:]...)
			if len(b) == 0 {
				b = []byte{0x12}
			}
		case 5:
			b = append(b, randBytes(r, r.Intn(40))...)
		}
	}
	return b
}

func c04Hostile() []hcase {
	var cs []hcase
	add := func(name string, reqs ...wire.Req) {
		cs = append(cs, hcase{Family: "hostile-session", Name: name, Reqs: reqs})
	}
	maxPath := bytes.Repeat([]byte("A"), 65535)
	slashes := bytes.Repeat([]byte("/"), 65535)
	dots := bytes.Repeat([]byte("../"), 21845)
	for _, op := range wire.PathOps {
		add(op.String()+" 65535-byte name", wire.Req{Op: op, Path: maxPath})
		add(op.String()+" 65535 slashes", wire.Req{Op: op, Path: slashes})
		add(op.String()+" 21845 x ../", wire.Req{Op: op, Path: dots})
		add(op.String()+" NULs", wire.Req{Op: op, Path: []byte("/dir\x00/a\x00")})
		add(op.String()+" declared 65535 but short", wire.Req{Op: op, Path: []byte("/x"), DeclLen: wire.U32(65535)})
		add(op.String()+" empty path", wire.Req{Op: op, Path: nil})
		add(op.String()+" non-utf8", wire.Req{Op: op, Path: []byte("/\xff\xfe\xfd/\x80")})
	}
	big := "/sparse9g.bin"
	for _, tgt := range []string{"/file.bin", big, "/***DVD***/dir", "/PS3ISO/enc.iso", "/k3/enc3k3y.iso", "/dir"} {
		offsets := []uint64{0, 1, 1<<31 - 1, 1 << 32, 1<<63 - 1, 1 << 63, 1<<64 - 1, 9 << 30}
		for _, o := range FarOffsets() {
			offsets = append(offsets, uint64(o))
		}
		for oi, off := range offsets {
			for _, n := range []uint32{0, 1, 1<<31 - 1, 1 << 31, 1<<32 - 1, 100, 2048, 70000} {
				if oi < 8 && n >= 100 && n <= 70000 {
					continue
				}
				if oi >= 8 && (n == 0 || n >= 1<<31-1) {
					continue
				}
				if n >= 1<<31-1 && tgt != big && tgt != "/file.bin" {
					continue
				}
				add(fmt.Sprintf("READ n=%d off=%d on %s", n, off, tgt), wire.P(wire.OpOpen, tgt), wire.Read(n, off))
				add(fmt.Sprintf("READCRIT n=%d off=%d on %s", n, off, tgt), wire.P(wire.OpOpen, tgt), wire.Crit(n, off))
			}
		}
		for _, sc := range [][2]uint32{{0, 1<<32 - 1}, {1<<32 - 1, 1}, {1<<32 - 1, 1<<32 - 1}, {1 << 31, 2}, {0, 0}} {
			add(fmt.Sprintf("READCD %d,%d on %s", sc[0], sc[1], tgt), wire.P(wire.OpOpen, tgt), wire.CD(sc[0], sc[1]))
		}
	}
	// reads around the end of an encrypted image whose last sector is incomplete
	tsz := uint64(200*2048 + 100)
	for _, off := range []uint64{tsz - 1, tsz, tsz + 1, tsz + 50, tsz + 1947, tsz + 1948, tsz + 1949, tsz - 100, tsz - 101} {
		for _, n := range []uint32{1, 100, 2048, 5000} {
			add(fmt.Sprintf("READCRIT n=%d off=%d on tail.iso", n, off), wire.P(wire.OpOpen, "/PS3ISO/tail.iso"), wire.Crit(n, off))
			add(fmt.Sprintf("READ n=%d off=%d on tail.iso", n, off), wire.P(wire.OpOpen, "/PS3ISO/tail.iso"), wire.Read(n, off))
		}
	}
	for s := uint32(170); s < 180; s++ {
		add(fmt.Sprintf("READCD %d,1 on tail.iso", s), wire.P(wire.OpOpen, "/PS3ISO/tail.iso"), wire.CD(s, 1), wire.CD(s, 2))
	}
	add("WRITE declared 4GiB-1 with 10 bytes", wire.P(wire.OpCreate, "/w/huge.bin"), wire.Req{Op: wire.OpWrite, Payload: []byte("0123456789"), DeclLen: wire.U32(1<<32 - 1)})
	add("WRITE declared 2GiB with nothing", wire.Req{Op: wire.OpWrite, DeclLen: wire.U32(1 << 31)})
	add("READ without open", wire.Read(1<<31-1, 0))
	add("READCRIT without open", wire.Crit(1<<32-1, 1<<64-1))
	add("READCD without open", wire.CD(1<<32-1, 1<<32-1))
	add("RDE storm without opendir", wire.Bare(wire.OpRDE), wire.Bare(wire.OpRDE2), wire.Bare(wire.OpReadDir), wire.Bare(wire.OpRDE))
	add("OPENDIR on file then list", wire.P(wire.OpOpenDir, "/file.bin"), wire.Bare(wire.OpReadDir), wire.Bare(wire.OpRDE), wire.Bare(wire.OpRDE2))
	add("OPENDIR on image path then list", wire.P(wire.OpOpenDir, "/***DVD***/dir"), wire.Bare(wire.OpReadDir), wire.Bare(wire.OpRDE))
	// the same for directories below the first level, for both prefixes and each listing command
	for _, vp := range []string{"/***DVD***/game/PS3_GAME", "/***PS3***/game/PS3_GAME", "/***DVD***/geo", "/***DVD***/hd/names/deep/d0/d1", "/***DVD***/game/PS3_GAME/", "/***DVD***//game/PS3_GAME"} {
		for _, l := range []wire.Op{wire.OpRDE, wire.OpRDE2, wire.OpReadDir} {
			add(fmt.Sprintf("OPENDIR %s then %s", vp, l), wire.P(wire.OpOpenDir, vp), wire.Bare(l), wire.Bare(l), wire.P(wire.OpStat, "/"))
			add(fmt.Sprintf("OPENDIR / then OPENDIR %s then %s", vp, l), wire.P(wire.OpOpenDir, "/"), wire.P(wire.OpOpenDir, vp), wire.Bare(l), wire.P(wire.OpStat, "/"))
		}
	}
	// clients that walk away without reading: 64 pipelined copies of one request (after the opens that
	// give it something to answer with), then close-with-unread-data or RST
	rep := func(n int, pre []wire.Req, r wire.Req) []wire.Req {
		out := append([]wire.Req{}, pre...)
		for i := 0; i < n; i++ {
			out = append(out, r)
		}
		return out
	}
	type ab struct {
		name string
		pre  []wire.Req
		r    wire.Req
	}
	abandon := []ab{
		{"RDE without opendir", nil, wire.Bare(wire.OpRDE)},
		{"RDE2 without opendir", nil, wire.Bare(wire.OpRDE2)},
		{"READDIR without opendir", nil, wire.Bare(wire.OpReadDir)},
		{"RDE past the end", []wire.Req{wire.P(wire.OpOpenDir, "/emptydir")}, wire.Bare(wire.OpRDE)},
		{"RDE2 past the end", []wire.Req{wire.P(wire.OpOpenDir, "/emptydir")}, wire.Bare(wire.OpRDE2)},
		{"RDE of dir", []wire.Req{wire.P(wire.OpOpenDir, "/dir")}, wire.Bare(wire.OpRDE)},
		{"RDE2 of dir", []wire.Req{wire.P(wire.OpOpenDir, "/dir")}, wire.Bare(wire.OpRDE2)},
		{"OPENDIR+READDIR", nil, wire.P(wire.OpOpenDir, "/dir")},
		{"READDIR after OPENDIR", []wire.Req{wire.P(wire.OpOpenDir, "/dir")}, wire.Bare(wire.OpReadDir)},
		{"STAT", nil, wire.P(wire.OpStat, "/file.bin")},
		{"STAT missing", nil, wire.P(wire.OpStat, "/nope")},
		{"OPEN", nil, wire.P(wire.OpOpen, "/file.bin")},
		{"OPEN missing", nil, wire.P(wire.OpOpen, "/nope")},
		{"OPEN image", nil, wire.P(wire.OpOpen, "/***DVD***/dir")},
		{"OPEN encrypted", nil, wire.P(wire.OpOpen, "/PS3ISO/enc.iso")},
		{"READ", []wire.Req{wire.P(wire.OpOpen, "/big.bin")}, wire.Read(150000, 10)},
		{"READ without open", nil, wire.Read(10, 0)},
		{"READCRIT", []wire.Req{wire.P(wire.OpOpen, "/big.bin")}, wire.Crit(150000, 10)},
		{"READCD", []wire.Req{wire.P(wire.OpOpen, "/big.bin")}, wire.CD(1, 8)},
		{"READ image", []wire.Req{wire.P(wire.OpOpen, "/***DVD***/dir")}, wire.Read(100000, 30000)},
		{"DIRSIZE", nil, wire.P(wire.OpDirSize, "/dir")},
		{"DIRSIZE missing", nil, wire.P(wire.OpDirSize, "/nope")},
		{"CREATE", nil, wire.P(wire.OpCreate, "/w/ab.bin")},
		{"WRITE", []wire.Req{wire.P(wire.OpCreate, "/w/ab2.bin")}, wire.Write([]byte("0123456789"))},
		{"WRITE without create", nil, wire.Write([]byte("0123456789"))},
		{"MKDIR", nil, wire.P(wire.OpMkdir, "/w/abd")},
		{"RMDIR", nil, wire.P(wire.OpRmdir, "/w/abd")},
		{"DELETE", nil, wire.P(wire.OpDelete, "/w/nope")},
		{"unknown opcode", nil, wire.Bare(wire.Op(0x1299))},
	}
	for _, a := range abandon {
		for _, end := range []string{"close-unread", "rst"} {
			cs = append(cs, hcase{Family: "abandoned", Name: a.name + " x64 then " + end, Reqs: rep(64, a.pre, a.r), End: end})
		}
	}
	add("OPEN dir then reads", wire.P(wire.OpOpen, "/dir"), wire.Read(100, 0), wire.P(wire.OpOpen, "/dir"), wire.Crit(10, 0))
	add("OPEN dir then READCD", wire.P(wire.OpOpen, "/dir"), wire.CD(0, 1))
	add("virtual of file", wire.P(wire.OpOpen, "/***DVD***/file.bin"), wire.Read(10, 0))
	add("virtual of missing", wire.P(wire.OpOpen, "/***PS3***/nope"), wire.Read(10, 0))
	add("virtual of root", wire.P(wire.OpOpen, "/***DVD***/"), wire.Read(10, 0))
	add("virtual nested prefixes", wire.P(wire.OpOpen, "/***DVD***/***PS3***/dir"), wire.P(wire.OpOpen, "/***PS3***/***DVD***/game"))
	return cs
}

// c04Geometry: every read geometry class against generated and decrypted images.
func c04Geometry(r *rand.Rand, n int) []hcase {
	var cs []hcase
	tgts := []string{"/***DVD***/dir", "/***DVD***/geo", "/***PS3***/game", "/PS3ISO/enc.iso", "/k3/enc3k3y.iso", "/k3/dec3k3y.iso"}
	for i := 0; i < n; i++ {
		t := tgts[i%len(tgts)]
		reqs := []wire.Req{wire.P(wire.OpOpen, t)}
		for k := 0; k < 8; k++ {
			var off uint64
			switch r.Intn(5) {
			case 0:
				off = uint64(r.Intn(400)) * 2048
			case 1:
				off = uint64(r.Intn(400))*2048 + uint64(r.Intn(40)) - 20
			case 2:
				off = uint64(r.Intn(900000))
			case 3:
				off = uint64(0xF60 + r.Intn(0x120))
			case 4:
				off = uint64(60000 + r.Intn(300000))
			}
			var ln uint32
			switch r.Intn(5) {
			case 0:
				ln = uint32(1 + r.Intn(30))
			case 1:
				ln = 2048
			case 2:
				ln = uint32(2048*(1+r.Intn(40)) + r.Intn(3) - 1)
			case 3:
				ln = uint32(r.Intn(200000))
			case 4:
				ln = uint32(1 + r.Intn(4096))
			}
			if r.Intn(2) == 0 {
				reqs = append(reqs, wire.Read(ln, off))
			} else {
				reqs = append(reqs, wire.Crit(ln, off))
			}
		}
		cs = append(cs, hcase{Family: "geometry", Name: fmt.Sprintf("%s #%d", t, i), Reqs: reqs})
	}
	return cs
}

// ---- hostile on-disk content ----

func sfoMutants(r *rand.Rand, n int) map[string][]byte {
	base := makeSFO(map[string]string{"CATEGORY": "DG", "TITLE": "Some Game", "TITLE_ID": "BLES12345", "VERSION": "01.00"}, []string{"CATEGORY", "TITLE", "TITLE_ID", "VERSION"})
	out := map[string][]byte{}
	tid := func(v string) []byte {
		return makeSFO(map[string]string{"TITLE": "x", "TITLE_ID": v}, []string{"TITLE", "TITLE_ID"})
	}
	out["titleid-empty"] = tid("")
	out["titleid-1char"] = tid("A")
	out["titleid-3chars"] = tid("ABC")
	out["titleid-4chars"] = tid("ABCD")
	out["titleid-40chars"] = tid(strings.Repeat("X", 40))
	out["titleid-300chars"] = tid(strings.Repeat("Y", 300))
	for l := 0; l <= 48; l++ {
		out[fmt.Sprintf("titleid-len%02d", l)] = tid(strings.Repeat("T", l))
	}
	out["titleid-nonascii"] = tid("ÄÖÜß€1234")
	out["titleid-missing"] = makeSFO(map[string]string{"TITLE": "x"}, []string{"TITLE"})
	out["no-entries"] = makeSFO(map[string]string{}, nil)
	out["empty-file"] = []byte{}
	out["bad-magic"] = append([]byte("XPSF"), base[4:]...)
	set32 := func(b []byte, off int, v uint32) []byte {
		c := bytes.Clone(b)
		binary.LittleEndian.PutUint32(c[off:], v)
		return c
	}
	for _, v := range []uint32{0, 1, 19, 0x7fffffff, 0xffffffff, uint32(len(base)), uint32(len(base) - 1)} {
		out[fmt.Sprintf("keytable=%#x", v)] = set32(base, 8, v)
		out[fmt.Sprintf("datatable=%#x", v)] = set32(base, 12, v)
		out[fmt.Sprintf("count=%#x", v)] = set32(base, 16, v)
		// entry 2 = TITLE_ID: data_len at 20+16*2+4, data_offset at +12
		out[fmt.Sprintf("titleid-datalen=%#x", v)] = set32(base, 20+32+4, v)
		out[fmt.Sprintf("titleid-dataoff=%#x", v)] = set32(base, 20+32+12, v)
	}
	for cut := 0; cut < len(base); cut += 1 + r.Intn(7) {
		out[fmt.Sprintf("truncated@%d", cut)] = base[:cut]
	}
	for i := 0; i < n; i++ {
		out[fmt.Sprintf("mutated#%d", i)] = mutate(r, base)
	}
	// no NUL terminator in the key table
	nn := bytes.Clone(base)
	for i := 20 + 64; i < len(nn); i++ {
		if nn[i] == 0 {
			nn[i] = 'Z'
		}
	}
	out["no-nul-anywhere"] = nn
	return out
}

// c04Disk creates hostile content below root/hd and returns the cases that touch it.
func c04Disk(e *Env, root string, r *rand.Rand) []hcase {
	var cs []hcase
	hd := filepath.Join(root, "hd")
	must(os.MkdirAll(hd, 0o755))
	// PARAM.SFO family
	i := 0
	for name, sfo := range sfoMutants(r, e.Pick(150, 2000)) {
		i++
		d := fmt.Sprintf("sfo%04d", i)
		must(os.MkdirAll(filepath.Join(hd, d, "PS3_GAME"), 0o755))
		must(os.WriteFile(filepath.Join(hd, d, "PS3_GAME", "PARAM.SFO"), sfo, 0o644))
		must(os.WriteFile(filepath.Join(hd, d, "EBOOT.BIN"), tree.Content(int64(i), 3000), 0o644))
		cs = append(cs, hcase{Family: "sfo", Name: name, Reqs: []wire.Req{wire.P(wire.OpOpen, "/***PS3***/hd/"+d), wire.Read(4096, 0), wire.Crit(2048, 2048)}})
	}
	// huge declared counts backed by a file that is really that long (sparse): nothing hits EOF early
	bigBase := makeSFO(map[string]string{"CATEGORY": "DG", "TITLE": "Some Game", "TITLE_ID": "BLES12345", "VERSION": "01.00"}, []string{"CATEGORY", "TITLE", "TITLE_ID", "VERSION"})
	for bi, m := range []struct {
		name string
		off  int
		val  uint32
	}{{"titleid-datalen=0xffffffff,file=4GiB", 20 + 32 + 4, 0xffffffff}, {"titleid-datalen=0x7fffffff,file=4GiB", 20 + 32 + 4, 0x7fffffff}, {"count=0xffffffff,file=4GiB", 16, 0xffffffff}, {"count=0x0fffffff,file=4GiB", 16, 0x0fffffff}} {
		d := fmt.Sprintf("sfobig%d", bi)
		must(os.MkdirAll(filepath.Join(hd, d, "PS3_GAME"), 0o755))
		b := bytes.Clone(bigBase)
		if m.off == 16 {
			// the field that is looked for is not there: the whole declared index table is walked
			b = makeSFO(map[string]string{"CATEGORY": "DG", "TITLE": "Some Game", "VERSION": "01.00"}, []string{"CATEGORY", "TITLE", "VERSION"})
		}
		binary.LittleEndian.PutUint32(b[m.off:], m.val)
		pth := filepath.Join(hd, d, "PS3_GAME", "PARAM.SFO")
		must(os.WriteFile(pth, b, 0o644))
		must(os.Truncate(pth, 4<<30+8192))
		must(os.WriteFile(filepath.Join(hd, d, "EBOOT.BIN"), tree.Content(int64(bi), 3000), 0o644))
		cs = append(cs, hcase{Family: "sfo", Name: m.name, Reqs: []wire.Req{wire.P(wire.OpOpen, "/***PS3***/hd/"+d), wire.Read(4096, 0), wire.Crit(2048, 2048)}})
	}
	// region tables and key files below hd/PS3ISO
	pdir := filepath.Join(hd, "PS3ISO")
	must(os.MkdirAll(pdir, 0o755))
	goodKey := hex.EncodeToString(tree.Content(3, 16))
	tbl := func(count uint32, regs ...uint32) []byte {
		b := make([]byte, 8+4*len(regs))
		binary.BigEndian.PutUint32(b, count)
		for k, v := range regs {
			binary.BigEndian.PutUint32(b[8+4*k:], v)
		}
		return b
	}
	tables := map[string][]byte{
		"count0": tbl(0), "count1": tbl(1, 0, 100), "count255-short": tbl(255, 0, 1), "count-2^32-1": tbl(0xffffffff, 0, 5, 9, 20),
		"count-2^31": tbl(1<<31, 0, 5, 9, 20), "count-2^28": tbl(1<<28, 0, 5), "nonmonotonic": tbl(3, 0, 10, 5, 3, 2, 1), "beyond-file": tbl(2, 0, 2, 1<<31, 0xffffffff),
		"first-not-zero": tbl(2, 7, 9, 12, 20), "all-ff": bytes.Repeat([]byte{0xff}, 64), "valid-tiny": tbl(2, 0, 1, 3, 9),
		"huge-sectors": tbl(2, 0, 0x7fffffff, 0x80000001, 0xfffffffe), "end-lt-start": tbl(2, 0, 5, 20, 10),
	}
	ti := 0
	for name, t := range tables {
		for _, sz := range []int{len(t), 2048, 40 * 2048} {
			ti++
			img := make([]byte, max(sz, len(t)))
			copy(img, tree.Content(int64(ti), int64(len(img))))
			copy(img, t)
			if sz == len(t) {
				img = img[:len(t)]
			}
			fn := fmt.Sprintf("t%03d", ti)
			must(os.WriteFile(filepath.Join(pdir, fn+".iso"), img, 0o644))
			must(os.WriteFile(filepath.Join(pdir, fn+".dkey"), []byte(goodKey), 0o644))
			cs = append(cs, hcase{Family: "region-table", Name: fmt.Sprintf("%s size=%d", name, len(img)), Reqs: []wire.Req{wire.P(wire.OpOpen, "/hd/PS3ISO/"+fn+".iso"), wire.Read(5000, 0), wire.Crit(100, 2040), wire.CD(0, 1)}})
		}
	}
	// key files
	keys := map[string][]byte{"empty": {}, "short": []byte("0011"), "31chars": []byte(goodKey[:31]), "nonhex": []byte(strings.Repeat("zz", 16)), "huge": bytes.Repeat([]byte("ab"), 1<<19),
		"binary": tree.Content(9, 16), "nl-first": []byte("\n" + goodKey), "spaces": []byte(strings.Repeat(" ", 32))}
	valid := refcrypt.BuildImage(func() []byte {
		p := tree.Content(77, 20*2048)
		copy(p, refcrypt.Table([]refcrypt.Region{{Start: 0, End: 1}, {Start: 5, End: 30}}))
		return p
	}(), []refcrypt.Region{{Start: 0, End: 1}, {Start: 5, End: 30}}, tree.Content(3, 16))
	ki := 0
	for name, k := range keys {
		ki++
		fn := fmt.Sprintf("k%03d", ki)
		must(os.WriteFile(filepath.Join(pdir, fn+".iso"), valid, 0o644))
		must(os.WriteFile(filepath.Join(pdir, fn+".dkey"), k, 0o644))
		cs = append(cs, hcase{Family: "key-file", Name: name, Reqs: []wire.Req{wire.P(wire.OpOpen, "/hd/PS3ISO/"+fn+".iso"), wire.Read(5000, 4000), wire.Crit(3, 5000)}})
	}
	must(os.WriteFile(filepath.Join(pdir, "kd.iso"), valid, 0o644))
	must(os.MkdirAll(filepath.Join(pdir, "kd.dkey"), 0o755)) // key "file" is a directory
	cs = append(cs, hcase{Family: "key-file", Name: "dkey-is-directory", Reqs: []wire.Req{wire.P(wire.OpOpen, "/hd/PS3ISO/kd.iso"), wire.Read(100, 0)}})
	// 3k3y area with file lengths around the watermark
	k3 := filepath.Join(hd, "k3")
	must(os.MkdirAll(k3, 0o755))
	for ln := 0xF6F; ln <= 0x1071; ln += 1 + r.Intn(e.Pick(9, 2)) {
		for wi, wm := range [][]byte{wmEnc, wmDec} {
			b := tree.Content(int64(ln), int64(ln))
			copy(b, tbl(2, 0, 1, 5, 9))
			if ln > maskBegin {
				copy(b[maskBegin:], wm)
			}
			fn := fmt.Sprintf("w%d_%x.iso", wi, ln)
			must(os.WriteFile(filepath.Join(k3, fn), b, 0o644))
			cs = append(cs, hcase{Family: "3k3y-length", Name: fmt.Sprintf("wm%d len=%#x", wi, ln), Reqs: []wire.Req{wire.P(wire.OpOpen, "/hd/k3/"+fn), wire.Read(0x200, 0xF00), wire.Crit(16, 0xF80), wire.Read(100000, 0)}})
		}
	}
	// 3k3y encrypted watermark + hostile region tables
	for name, t := range tables {
		b := tree.Content(int64(len(name)), 0x2000)
		copy(b, t)
		copy(b[maskBegin:], wmEnc)
		fn := "wt_" + strings.ReplaceAll(name, "^", "") + ".iso"
		must(os.WriteFile(filepath.Join(k3, fn), b, 0o644))
		cs = append(cs, hcase{Family: "3k3y-table", Name: name, Reqs: []wire.Req{wire.P(wire.OpOpen, "/hd/k3/"+fn), wire.Read(0x200, 0xF00)}})
	}
	// names and shapes for generated images
	nd := filepath.Join(hd, "names")
	mkTree := func(rel string, files ...string) {
		must(os.MkdirAll(filepath.Join(nd, rel), 0o755))
		for k, f := range files {
			if strings.HasSuffix(f, "/") {
				must(os.MkdirAll(filepath.Join(nd, rel, f), 0o755))
				must(os.WriteFile(filepath.Join(nd, rel, f, "in.bin"), tree.Content(int64(k), 100), 0o644))
			} else {
				must(os.WriteFile(filepath.Join(nd, rel, f), tree.Content(int64(k), 100+int64(k)), 0o644))
			}
		}
	}
	type nt struct {
		rel   string
		files []string
	}
	var nts []nt
	for _, l := range []int{15, 16, 17, 31, 32, 33, 64, 110, 111, 127, 128, 200, 255} {
		nts = append(nts, nt{strings.Repeat("V", l), []string{"a.bin"}})                                            // directory (= volume) name lengths
		nts = append(nts, nt{fmt.Sprintf("fl%d", l), []string{strings.Repeat("f", l), "z.bin"}})                    // file name lengths
		nts = append(nts, nt{fmt.Sprintf("dl%d", l), []string{strings.Repeat("d", l) + "/", "z.bin"}})              // sub-directory name lengths
		nts = append(nts, nt{fmt.Sprintf("ul%d", l), []string{strings.Repeat("é", l/2), strings.Repeat("日", l/3)}}) // multi-byte names
	}
	nts = append(nts,
		nt{"collide", []string{"a?b", "a*b", "a b", "A_B", "a_b"}},
		nt{"collide-dirs", []string{"d?x/", "d*x/", "d x/"}},
		nt{"nonutf8", []string{"bad\xff\xfe", "also\x80bad/", "ok"}},
		nt{"weird", []string{";1", "a;1", ".", "..x", "-", " ", "\t", "a\nb", "***DVD***", "CLOSEFILE"}},
		nt{"empty", nil},
		nt{"onlydirs", []string{"a/", "b/", "c/"}},
		nt{"emptyfile", []string{"e0", "e1", "n"}},
	)
	for _, t := range nts {
		if t.rel == "weird" {
			t.files = t.files[:0]
			for _, f := range []string{";1", "a;1", "..x", "-", " ", "\t", "a\nb", "***DVD***", "CLOSEFILE"} {
				t.files = append(t.files, f)
			}
		}
		mkTree(t.rel, t.files...)
		for _, pre := range []string{"/***DVD***", "/***PS3***"} {
			if pre == "/***PS3***" {
				must(os.MkdirAll(filepath.Join(nd, t.rel, "PS3_GAME"), 0o755))
				must(os.WriteFile(filepath.Join(nd, t.rel, "PS3_GAME", "PARAM.SFO"), makeSFO(map[string]string{"TITLE_ID": "BCES00104"}, []string{"TITLE_ID"}), 0o644))
			}
			cs = append(cs, hcase{Family: "names", Name: pre + " " + trim40(t.rel), Reqs: []wire.Req{wire.P(wire.OpOpen, pre+"/hd/names/"+t.rel), wire.Read(70000, 0), wire.Crit(4096, 32768), wire.Read(1<<20, 60000)}})
		}
	}
	// empty files by size (truncate after content generation)
	for _, f := range []string{"e0", "e1"} {
		must(os.Truncate(filepath.Join(nd, "emptyfile", f), 0))
	}
	// deep and wide trees
	deep := filepath.Join(nd, "deep")
	cur := deep
	for d := 0; d < e.Pick(40, 120); d++ {
		cur = filepath.Join(cur, fmt.Sprintf("d%d", d))
	}
	must(os.MkdirAll(cur, 0o755))
	must(os.WriteFile(filepath.Join(cur, "bottom.bin"), []byte("bottom"), 0o644))
	wide := filepath.Join(nd, "wide")
	must(os.MkdirAll(wide, 0o755))
	for k := 0; k < e.Pick(1500, 6000); k++ {
		if k%3 == 0 {
			must(os.Mkdir(filepath.Join(wide, fmt.Sprintf("sub%05d", k)), 0o755))
		} else {
			must(os.WriteFile(filepath.Join(wide, fmt.Sprintf("f%05d", k)), []byte{byte(k)}, 0o644))
		}
	}
	for _, t := range []string{"deep", "wide"} {
		cs = append(cs, hcase{Family: "shape", Name: t, Reqs: []wire.Req{wire.P(wire.OpOpen, "/***DVD***/hd/names/"+t), wire.Read(200000, 0), wire.Crit(2048, 40000), wire.P(wire.OpDirSize, "/hd/names/"+t), wire.P(wire.OpOpenDir, "/hd/names/"+t), wire.Bare(wire.OpReadDir)}})
	}
	// special files: a named pipe nobody writes to (open(2) on it blocks), as a plain object, inside a
	// directory that is turned into an image, and in the place of PARAM.SFO
	ff := filepath.Join(hd, "fifo")
	must(os.MkdirAll(filepath.Join(ff, "game", "PS3_GAME"), 0o755))
	must(os.MkdirAll(filepath.Join(ff, "dir"), 0o755))
	must(syscall.Mkfifo(filepath.Join(ff, "pipe"), 0o644))
	must(syscall.Mkfifo(filepath.Join(ff, "dir", "inner-pipe"), 0o644))
	must(os.WriteFile(filepath.Join(ff, "dir", "file"), []byte("data"), 0o644))
	must(syscall.Mkfifo(filepath.Join(ff, "game", "PS3_GAME", "PARAM.SFO"), 0o644))
	must(os.WriteFile(filepath.Join(ff, "game", "EBOOT.BIN"), []byte("eboot"), 0o644))
	for _, op := range []wire.Op{wire.OpOpen, wire.OpOpenDir, wire.OpStat, wire.OpDirSize, wire.OpCreate, wire.OpDelete} {
		cs = append(cs, hcase{Family: "shape", Name: "fifo " + op.String(), Reqs: []wire.Req{wire.P(op, "/hd/fifo/pipe"), wire.P(wire.OpStat, "/")}})
	}
	cs = append(cs, hcase{Family: "shape", Name: "fifo inside image tree", Reqs: []wire.Req{wire.P(wire.OpOpen, "/***DVD***/hd/fifo/dir"), wire.Read(1<<20, 0), wire.P(wire.OpOpenDir, "/hd/fifo/dir"), wire.Bare(wire.OpReadDir), wire.Bare(wire.OpRDE), wire.P(wire.OpDirSize, "/hd/fifo")}})
	// ... and in the place of a key file, beside the image and in REDKEY
	must(os.MkdirAll(filepath.Join(ff, "PS3ISO"), 0o755))
	must(os.MkdirAll(filepath.Join(ff, "REDKEY"), 0o755))
	must(os.WriteFile(filepath.Join(ff, "PS3ISO", "adj.iso"), tree.Content(91, 20*2048), 0o644))
	must(syscall.Mkfifo(filepath.Join(ff, "PS3ISO", "adj.dkey"), 0o644))
	must(os.WriteFile(filepath.Join(ff, "PS3ISO", "red.iso"), tree.Content(92, 20*2048), 0o644))
	must(syscall.Mkfifo(filepath.Join(ff, "REDKEY", "red.dkey"), 0o644))
	cs = append(cs, hcase{Family: "shape", Name: "fifo as adjacent key file", Reqs: []wire.Req{wire.P(wire.OpOpen, "/hd/fifo/PS3ISO/adj.iso"), wire.Read(4096, 0), wire.P(wire.OpStat, "/")}})
	cs = append(cs, hcase{Family: "shape", Name: "fifo as REDKEY key file", Reqs: []wire.Req{wire.P(wire.OpOpen, "/hd/fifo/PS3ISO/red.iso"), wire.Read(4096, 0), wire.P(wire.OpStat, "/")}})
	cs = append(cs, hcase{Family: "shape", Name: "fifo as PARAM.SFO", Reqs: []wire.Req{wire.P(wire.OpOpen, "/***PS3***/hd/fifo/game"), wire.Read(4096, 0)}})
	// symlink loops for dir-size / listing / image scan
	lp := filepath.Join(hd, "loop")
	must(os.MkdirAll(filepath.Join(lp, "a"), 0o755))
	os.Symlink("..", filepath.Join(lp, "a", "up"))
	os.Symlink("self", filepath.Join(lp, "self"))
	cs = append(cs, hcase{Family: "shape", Name: "symlink-loop", Reqs: []wire.Req{wire.P(wire.OpDirSize, "/hd/loop"), wire.P(wire.OpOpen, "/***DVD***/hd/loop"), wire.P(wire.OpOpenDir, "/hd/loop"), wire.Bare(wire.OpReadDir), wire.P(wire.OpStat, "/hd/loop/self")}})
	return cs
}

func trim40(s string) string {
	if len(s) > 40 {
		return fmt.Sprintf("%s...(%d bytes)", s[:20], len(s))
	}
	return s
}

func C04(e *Env) {
	run := e.Run
	run.Rule = "cases: hostile inputs of six families — random byte streams, mutated valid sessions, structure-aware hostile sessions (65535-byte paths, offsets up to 2^64-1, limits/counts up to 2^32-1, on a sparse 9 GiB file, generated and decrypted images), read geometries against generated/decrypted images with odd transfer buffers, hostile on-disk content (PARAM.SFO mutants, region tables, key files, 3k3y lengths, names, tree shapes), and the same on-disk inputs given to make-iso / decrypt; after EVERY case: process alive, no crash trace, fresh connection answered, in-flight victim transfer still exact. non-trivial = distinct (family, case class) executed with the monitors attached"
	root := e.Dir("W/root")
	rng := e.Rng(4)
	must(tree.MaterializeRoot(root, sharedTree()))
	must(os.MkdirAll(filepath.Join(root, "w"), 0o755))
	must(os.MkdirAll(filepath.Join(root, "game", "PS3_GAME"), 0o755))
	must(os.WriteFile(filepath.Join(root, "game", "PS3_GAME", "PARAM.SFO"), makeSFO(map[string]string{"TITLE_ID": "BLES12345"}, []string{"TITLE_ID"}), 0o644))
	must(os.WriteFile(filepath.Join(root, "game", "EBOOT.BIN"), tree.Content(8, 70000), 0o644))
	must(tree.Materialize(root, &tree.Node{Name: "sparse9g.bin", Size: 9 << 30, Sparse: true, Seed: 5, Marks: []int64{0, 1 << 32, 9<<30 - 64}}))
	// files for geometry: a directory with boundary-sized files
	must(os.MkdirAll(filepath.Join(root, "geo"), 0o755))
	for i, sz := range []int64{1, 2047, 2048, 2049, 70000, 5} {
		must(os.WriteFile(filepath.Join(root, "geo", fmt.Sprintf("g%d.bin", i)), tree.Content(int64(i), sz), 0o644))
	}
	// encrypted images
	must(os.MkdirAll(filepath.Join(root, "PS3ISO"), 0o755))
	must(os.MkdirAll(filepath.Join(root, "k3"), 0o755))
	regs := []refcrypt.Region{{Start: 0, End: 1}, {Start: 6, End: 9}, {Start: 30, End: 400}}
	plain := tree.Content(44, 200*2048)
	copy(plain, refcrypt.Table(regs))
	key := tree.Content(45, 16)
	must(os.WriteFile(filepath.Join(root, "PS3ISO", "enc.iso"), refcrypt.BuildImage(plain, regs, key), 0o644))
	must(os.WriteFile(filepath.Join(root, "PS3ISO", "enc.dkey"), []byte(hex.EncodeToString(key)), 0o644))
	must(os.WriteFile(filepath.Join(root, "PS3ISO", "tail.iso"), append(refcrypt.BuildImage(plain, regs, key), tree.Content(46, 100)...), 0o644))
	must(os.WriteFile(filepath.Join(root, "PS3ISO", "tail.dkey"), []byte(hex.EncodeToString(key)), 0o644))
	for k := 0; k < 64; k++ {
		must(os.WriteFile(filepath.Join(root, "PS3ISO", fmt.Sprintf("many%02d.iso", k)), refcrypt.BuildImage(plain[:20*2048], regs[:2], key), 0o644))
		must(os.WriteFile(filepath.Join(root, "PS3ISO", fmt.Sprintf("many%02d.dkey", k)), []byte(hex.EncodeToString(key)), 0o644))
	}
	p3 := bytes.Clone(plain)
	copy(p3[maskBegin:], wmEnc)
	copy(p3[maskBegin+16:], key)
	must(os.WriteFile(filepath.Join(root, "k3", "enc3k3y.iso"), refcrypt.BuildImage(p3, regs, key), 0o644))
	p4 := bytes.Clone(plain)
	copy(p4[maskBegin:], wmDec)
	must(os.WriteFile(filepath.Join(root, "k3", "dec3k3y.iso"), p4, 0o644))
	// the victim transfers a file that no generated request names, so that no request — mutated ones
	// included — can legitimately change it under the victim's feet
	victimData := tree.Content(4711, 200000)
	must(os.WriteFile(filepath.Join(root, c04VictimName), victimData, 0o644))

	disk := c04Disk(e, root, rng)
	var streams []hcase
	for i := 0; i < e.Pick(4000, 300000); i++ {
		n := 1 + rng.Intn(200)
		if rng.Intn(3) == 0 {
			// start with a valid opcode so that the tail is parsed
			b := randBytes(rng, n+16)
			binary.BigEndian.PutUint16(b, uint16(0x1224+rng.Intn(15)))
			streams = append(streams, hcase{Family: "random-stream", Name: fmt.Sprintf("opcode-led #%d", i), Streams: [][]byte{b}})
		} else {
			streams = append(streams, hcase{Family: "random-stream", Name: fmt.Sprintf("pure #%d", i), Streams: [][]byte{randBytes(rng, n)}})
		}
	}
	var mutated []hcase
	for i := 0; i < e.Pick(2000, 200000); i++ {
		var s []byte
		for _, q := range c04ValidSession(rng) {
			s = append(s, q.Bytes()...)
		}
		mutated = append(mutated, hcase{Family: "mutated-session", Name: fmt.Sprintf("#%d", i), Streams: [][]byte{mutate(rng, s)}})
	}
	var bursts []hcase
	{
		var ss [][]byte
		for k := 0; k < 64; k++ {
			ss = append(ss, append(wire.P(wire.OpOpen, fmt.Sprintf("/PS3ISO/many%02d.iso", k)).Bytes(), wire.Read(5000, 3000).Bytes()...))
		}
		bursts = append(bursts, hcase{Family: "burst", Name: "64 keyed images opened at once on a cold server #0", Streams: ss})
	}
	// image builds of trees whose names the process has never seen, all at once (anything memoised per
	// name, per directory or per tree is filled concurrently here)
	for round := 0; round < e.Pick(3, 12); round++ {
		var ss [][]byte
		for k := 0; k < 24; k++ {
			d := filepath.Join(root, "fresh", fmt.Sprintf("r%02d_t%02d", round, k), "PS3_GAME", "USRDIR")
			must(os.MkdirAll(d, 0o755))
			for f := 0; f < 40; f++ {
				must(os.WriteFile(filepath.Join(d, fmt.Sprintf("n%02d_%02d_%02d_%x.bin", round, k, f, rng.Int63())), tree.Content(int64(f), int64(1+f*37)), 0o644))
			}
			must(os.WriteFile(filepath.Join(root, "fresh", fmt.Sprintf("r%02d_t%02d", round, k), "PS3_GAME", "PARAM.SFO"), makeSFO(map[string]string{"TITLE_ID": fmt.Sprintf("BLES%05d", round*100+k)}, []string{"TITLE_ID"}), 0o644))
			pre := []string{"/***DVD***", "/***PS3***"}[k%2]
			ss = append(ss, append(wire.P(wire.OpOpen, fmt.Sprintf("%s/fresh/r%02d_t%02d", pre, round, k)).Bytes(), wire.Read(70000, 30000).Bytes()...))
		}
		bursts = append(bursts, hcase{Family: "burst", Name: fmt.Sprintf("24 images of never-seen trees built at once #%d", round), Streams: ss})
	}
	for i := 0; i < e.Pick(30, 300); i++ {
		var ss [][]byte
		for k := 0; k < 40+rng.Intn(80); k++ {
			switch rng.Intn(3) {
			case 0:
				ss = append(ss, randBytes(rng, 1+rng.Intn(300)))
			case 1:
				var s []byte
				for _, q := range c04ValidSession(rng) {
					s = append(s, q.Bytes()...)
				}
				ss = append(ss, mutate(rng, s))
			default:
				var s []byte
				for _, q := range c04ValidSession(rng) {
					s = append(s, q.Bytes()...)
				}
				ss = append(ss, s)
			}
		}
		bursts = append(bursts, hcase{Family: "burst", Name: fmt.Sprintf("%d simultaneous connections #%d", len(ss), i), Streams: ss})
	}
	hostile := c04Hostile()
	geometry := c04Geometry(rng, e.Pick(600, 60000))

	wal, err := os.Create(filepath.Join(e.Scratch, "c04.wal"))
	must(err)
	defer wal.Close()
	type plan struct {
		name  string
		cases []hcase
		cfg   worker.Config
		mem   int64
	}
	const cap8g = 8 << 20 // KiB
	plans := []plan{
		{"hostile", hostile, worker.Config{Root: root, AllowWrite: true, BufSize: 65536}, cap8g},
		{"disk", disk, worker.Config{Root: root, BufSize: 65536}, cap8g},
		{"geometry-64k", geometry[:len(geometry)/3], worker.Config{Root: root, BufSize: 65536}, cap8g},
		{"geometry-1000", geometry[len(geometry)/3 : 2*len(geometry)/3], worker.Config{Root: root, BufSize: 1000}, cap8g},
		{"geometry-unpooled", geometry[2*len(geometry)/3:], worker.Config{Root: root, BufSize: 0}, cap8g},
		{"streams", streams, worker.Config{Root: root, AllowWrite: true, BufSize: 65536}, cap8g},
		{"bursts", bursts, worker.Config{Root: root, AllowWrite: true, BufSize: 65536}, cap8g},
		{"mutated", mutated, worker.Config{Root: root, AllowWrite: true, BufSize: 2048}, cap8g},
	}
	var wg sync.WaitGroup
	for pi := range plans {
		wg.Add(1)
		go func(pl plan) {
			defer wg.Done()
			w, err := os.Create(filepath.Join(e.Scratch, "c04."+pl.name+".wal"))
			must(err)
			defer w.Close()
			b := &c04Batch{e: e, root: root, cfg: pl.cfg, tag: "c04-" + pl.name, memKB: pl.mem, wal: w, victimPath: "/" + c04VictimName, victimData: victimData}
			b.start()
			defer b.stop()
			deaths := 0
			for _, c := range pl.cases {
				cls := c.Name
				if c.Family == "random-stream" || c.Family == "mutated-session" || c.Family == "geometry" || c.Family == "burst" {
					cls = strings.SplitN(c.Name, " #", 2)[0]
				}
				run.Sig("%s: %s", c.Family, trim40(cls))
				if !b.runCase(c) {
					deaths++
					if deaths > 60 {
						run.Obs("aborted_batch_"+pl.name, "more than 60 process deaths")
						return
					}
				}
			}
			run.Count("cases_"+pl.name, int64(len(pl.cases)))
			if rep, err := b.p.Do(worker.Cmd{Cmd: "goroutines"}); err == nil {
				run.Count("serveconn_goroutines_left_"+pl.name, int64(rep.ServeConn))
			}
		}(plans[pi])
	}
	wg.Wait()
	run.Sample(trimCase(hostile[0]))
	run.Sample(trimCase(disk[0]))
	run.Sample(trimCase(streams[0]))
	run.Sample(trimCase(geometry[0]))
	c04ManyClients(e, root)
	c04HugeMember(e)
	c04ExtremeTimes(e)
	c04CLI(e, root)
	run.Assume("workers run under ulimit -v 8 GiB: stands in for a machine with less memory than this 62 GiB host; count-driven allocations that would exhaust such a machine show up as fatal out-of-memory crashes")
}

// c04ManyClients: "any number of clients". The real binary runs with a small descriptor limit
// (RLIMIT_NOFILE) and more idle connections than that are opened while a victim keeps transferring:
// accept(2) then fails with EMFILE for a while. The process must survive, the victim's transfer must
// stay exact, and once the crowd has left a fresh connection must be served again.
func c04ManyClients(e *Env, root string) {
	run := e.Run
	for _, lim := range []int{48, 90} {
		p, err := host.SpawnBin("/bin/sh", []string{"-c", fmt.Sprintf("ulimit -n %d; exec \"$0\" \"$@\"", lim), e.Bin, "server", "--root=" + root, "--listen-addr=127.0.0.1:0"},
			host.Opt{Dir: e.Dir("logs"), Tag: fmt.Sprintf("c04-nofile%d", lim)}, e.Scratch, true)
		if err != nil {
			run.Inconclusive(fmt.Sprintf("many-clients: server with ulimit -n %d did not start: %v", lim, err))
			continue
		}
		addr := p.HostPort()
		want := tree.Content(4711, 200000)
		os.WriteFile(filepath.Join(root, c04VictimName), want, 0o644)
		victim, verr := wire.Dial(addr, nil, e.Watchdog)
		victimOK := func(stage string) bool {
			if verr != nil {
				return false
			}
			if stage == "before" {
				// the file is opened once: while descriptors are exhausted the victim only goes on reading
				// from the handle it already has (a *new* open may fail for lack of descriptors)
				if err := victim.Send(wire.P(wire.OpOpen, "/"+c04VictimName)); err != nil {
					return false
				}
				if b, st := victim.ReadN(16); st != wire.Full || len(b) != 16 || wire.DecodeOpen(b).Size != int64(len(want)) {
					return false
				}
			}
			victim.Send(wire.Crit(uint32(len(want)), 0))
			b, st := victim.ReadN(len(want))
			return st == wire.Full && bytes.Equal(b, want)
		}
		okBefore := victimOK("before")
		if !okBefore && p.Alive() {
			run.Inconclusive(fmt.Sprintf("many-clients: the victim's transfer did not work before the crowd arrived (ulimit -n %d)", lim))
		}
		var crowd []net.Conn
		for i := 0; i < lim+40; i++ {
			c, err := net.DialTimeout("tcp", addr, 2*time.Second)
			if err != nil {
				break
			}
			crowd = append(crowd, c)
		}
		time.Sleep(300 * time.Millisecond)
		okDuring := victimOK("during")
		alive := p.Alive()
		for _, c := range crowd {
			c.Close()
		}
		run.Eval(1)
		run.Sig("many idle clients, ulimit -n %d", lim)
		run.Count("idle_connections_opened", int64(len(crowd)))
		wit := map[string]any{"nofile_limit": lim, "idle_connections": len(crowd), "stderr_tail": tailStr(strings.Split(p.Stderr(), "\n"), 6)}
		// after the crowd left: a fresh connection must be served (a few attempts: the accept loop may
		// be backing off)
		var perr error
		for try := 0; try < 40; try++ {
			if perr = host.Probe(addr); perr == nil || !p.Alive() {
				break
			}
			time.Sleep(250 * time.Millisecond)
		}
		switch {
		case !alive || !p.Alive():
			run.Violate("process-died", "many-clients", fmt.Sprintf("with RLIMIT_NOFILE=%d, %d idle connections ended the server process (%s): %s", lim, len(crowd), p.ExitString(), firstLines(p.Stderr(), 3)), wit)
		case perr != nil:
			run.Violate("not-serving", "many-clients", fmt.Sprintf("with RLIMIT_NOFILE=%d, after %d idle connections came and went a fresh connection is not served: %v", lim, len(crowd), perr), wit)
		case okBefore && !okDuring:
			run.Violate("victim-disturbed", "many-clients", fmt.Sprintf("with RLIMIT_NOFILE=%d, an established connection's transfer failed while %d idle connections were open", lim, len(crowd)), wit)
		}
		if victim != nil {
			victim.Close()
		}
		p.Stop()
	}
}

// c04HugeMember: "content of files or directories under the root" includes sizes. A sparse member of
// 2^63-1 bytes (tmpfs, xfs, btrfs take it; ext4 stops at 16 TiB, then /dev/shm is used) must lead to an
// error or to an image, not to an allocation without bound. The image is created in a child process
// under an address-space cap (what OPEN of the ***DVD*** path does in the server), and by make-iso.
func c04HugeMember(e *Env) {
	run := e.Run
	for hi, sizes := range [][]int64{{1<<63 - 1}, {1<<63 - 2048, 4096}, {1 << 62, 1 << 62}} {
		var dir string
		for _, base := range []string{e.Scratch, "/dev/shm"} {
			d, err := os.MkdirTemp(base, "verif-c04-huge-")
			if err != nil {
				continue
			}
			defer os.RemoveAll(d)
			ok := true
			must(os.MkdirAll(filepath.Join(d, "tree"), 0o755))
			for i, sz := range sizes {
				f, err := os.Create(filepath.Join(d, "tree", fmt.Sprintf("m%d.bin", i)))
				must(err)
				if f.Truncate(sz) != nil {
					ok = false
				}
				f.Close()
			}
			if ok {
				dir = d
				break
			}
		}
		if dir == "" {
			run.Count("huge_member_not_creatable_here", 1)
			continue
		}
		run.Eval(1)
		run.Sig("huge member %d", hi)
		wit := map[string]any{"member_sizes": sizes, "directory": dir}
		if _, _, _, perr := libOpenImageCapped(dir, "tree"); perr != nil {
			run.Violate("process-died", "huge-member", fmt.Sprintf("[member sizes %v] creating the image (as OPEN of the virtual path does) under a 6 GiB address-space cap: %v", sizes, perr), wit)
		}
		if e.Bin != "" {
			cmd := exec.Command("/bin/sh", "-c", "ulimit -v 6291456; exec \"$0\" \"$@\"", e.Bin, "make-iso", filepath.Join(dir, "tree"), filepath.Join(dir, "out.iso"))
			out, _ := cmd.CombinedOutput()
			if code := cmd.ProcessState.ExitCode(); code != 0 && code != 1 || bytes.Contains(out, []byte("fatal error:")) || bytes.Contains(out, []byte("panic:")) {
				run.Violate("cli-crash", "make-iso: huge-member", fmt.Sprintf("[member sizes %v] make-iso ended with exit code %d: %s", sizes, cmd.ProcessState.ExitCode(), firstLines(string(out), 3)), wit)
			}
			os.Remove(filepath.Join(dir, "out.iso"))
		}
	}
}

// c04ExtremeTimes: modification times are on-disk content too. File systems with 64-bit timestamps
// (tmpfs, btrfs, zfs) keep years far outside the 4 digits of a volume-descriptor date and the one
// byte (years since 1900) of a directory-record date. Trees whose root, sub-directory or member
// carries such a time are turned into images (both modes, in-process with the panic recovered, then
// read in full) and given to make-iso.
func c04ExtremeTimes(e *Env) {
	run := e.Run
	secs := []int64{253402300800 /* year 10000 */, 910692730085 /* year 30828 */, -93727756800 /* year -1000 */, -62198755200 /* year -1 */, 1<<33 - 1, 1<<62 - 1, -1 << 62, -2208988801 /* 1899 */, 5680281600 /* 2150 */, 8210266876 /* 2230: years since 1900 > 255 */, 0, -1}
	var dir string
	for _, base := range []string{"/dev/shm", e.Scratch} {
		d, err := os.MkdirTemp(base, "verif-c04-times-")
		if err != nil {
			continue
		}
		defer os.RemoveAll(d)
		probe := filepath.Join(d, "probe")
		os.WriteFile(probe, nil, 0o644)
		// not os.Chtimes: it converts through nanoseconds since 1970, which overflow after year 2262
		if syscall.UtimesNano(probe, []syscall.Timespec{{Sec: secs[0]}, {Sec: secs[0]}}) == nil {
			if fi, err := os.Stat(probe); err == nil && fi.ModTime().Unix() == secs[0] {
				dir = d
				break
			}
		}
	}
	if dir == "" {
		run.Count("extreme_times_not_storable_here", 1)
		return
	}
	for si, sec := range secs {
		for _, where := range []string{"member", "subdir", "root", "sfo"} {
			tree := filepath.Join(dir, fmt.Sprintf("t%d-%s", si, where))
			must(os.MkdirAll(filepath.Join(tree, "PS3_GAME", "USRDIR"), 0o755))
			must(os.WriteFile(filepath.Join(tree, "PS3_GAME", "USRDIR", "EBOOT.BIN"), bytes.Repeat([]byte{0x5a}, 3000), 0o644))
			must(os.WriteFile(filepath.Join(tree, "PS3_GAME", "PARAM.SFO"), makeSFO(map[string]string{"TITLE_ID": "BLES12345", "TITLE": "t"}, []string{"TITLE", "TITLE_ID"}), 0o644))
			must(os.WriteFile(filepath.Join(tree, "readme.txt"), []byte("x"), 0o644))
			target := map[string]string{"member": filepath.Join(tree, "readme.txt"), "subdir": filepath.Join(tree, "PS3_GAME", "USRDIR"), "root": tree, "sfo": filepath.Join(tree, "PS3_GAME", "PARAM.SFO")}[where]
			tm := time.Unix(sec, 0)
			if err := syscall.UtimesNano(target, []syscall.Timespec{{Sec: sec}, {Sec: sec}}); err != nil {
				run.Count("extreme_time_refused_by_fs", 1)
				continue
			}
			if fi, err := os.Lstat(target); err != nil || fi.ModTime().Unix() != sec {
				run.Count("extreme_time_not_kept_by_fs", 1)
				continue
			}
			wit := map[string]any{"mtime_unix": sec, "mtime": tm.UTC().Format("2006-01-02T15:04:05Z"), "carried_by": where, "tree": tree}
			for _, ps3 := range []bool{false, true} {
				run.Eval(1)
				feat := fmt.Sprintf("mtime of %s, ps3=%v", where, ps3)
				v, _, err, perr := libOpenImage(dir, "/"+filepath.Base(tree), ps3, 0)
				switch {
				case perr != nil:
					run.Violate("panic", "extreme-mtime: "+feat, fmt.Sprintf("[mtime %s (unix %d) on the %s] creating the image (as OPEN/STAT of the virtual path does) panicked: %v", wit["mtime"], sec, where, perr), wit)
					continue
				case err != nil:
					run.Sig("extreme mtime %d %s ps3=%v refused", si, where, ps3)
					continue
				}
				st, _ := v.Stat()
				_, rerr, rperr := readAllSeq(v, 65536, st.Size())
				v.Close()
				if rperr != nil {
					run.Violate("panic", "extreme-mtime read: "+feat, fmt.Sprintf("[mtime %s (unix %d) on the %s] reading the image panicked: %v", wit["mtime"], sec, where, rperr), wit)
					continue
				}
				_ = rerr
				run.Sig("extreme mtime %d %s ps3=%v served", si, where, ps3)
			}
			if e.Bin != "" && (e.Thorough || where != "sfo") {
				run.Eval(1)
				outp := filepath.Join(dir, "out.iso")
				cmd := exec.Command(e.Bin, "make-iso", tree, outp)
				out, _ := cmd.CombinedOutput()
				if code := cmd.ProcessState.ExitCode(); code != 0 && code != 1 || bytes.Contains(out, []byte("fatal error:")) || bytes.Contains(out, []byte("panic:")) {
					run.Violate("cli-crash", "make-iso: extreme-mtime of "+where, fmt.Sprintf("[mtime %s (unix %d) on the %s] make-iso ended with exit code %d: %s", wit["mtime"], sec, where, cmd.ProcessState.ExitCode(), firstLines(string(out), 3)), wit)
				}
				os.Remove(outp)
			}
			os.RemoveAll(tree)
		}
	}
}

// c04CLI gives hostile on-disk inputs to make-iso and decrypt: an error exit, never a crash.
func c04CLI(e *Env, root string) {
	run := e.Run
	if e.Bin == "" {
		fatalf("C04 needs the CLI binary (VERIF_BIN)")
	}
	out := e.Dir("cliout")
	type cli struct {
		family, name string
		args         []string
		mustFail     bool
	}
	var list []cli
	names := filepath.Join(root, "hd", "names")
	ents, _ := os.ReadDir(names)
	for i, en := range ents {
		list = append(list, cli{"make-iso", "names/" + trim40(en.Name()), []string{"make-iso", filepath.Join(names, en.Name()), filepath.Join(out, fmt.Sprintf("n%d.iso", i))}, false})
		list = append(list, cli{"make-iso-ps3", "names/" + trim40(en.Name()), []string{"make-iso", "--ps3-mode", filepath.Join(names, en.Name()), filepath.Join(out, fmt.Sprintf("np%d.iso", i))}, false})
	}
	sfos, _ := os.ReadDir(filepath.Join(root, "hd"))
	k := 0
	for _, en := range sfos {
		if strings.HasPrefix(en.Name(), "sfo") {
			k++
			if !e.Thorough && k%4 != 0 {
				continue
			}
			list = append(list, cli{"make-iso-ps3", "sfo/" + en.Name(), []string{"make-iso", "--ps3-mode", filepath.Join(root, "hd", en.Name()), filepath.Join(out, fmt.Sprintf("s%d.iso", k))}, false})
		}
	}
	list = append(list, cli{"make-iso", "not-a-directory", []string{"make-iso", filepath.Join(root, "file.bin"), filepath.Join(out, "x1.iso")}, true})
	list = append(list, cli{"make-iso", "missing", []string{"make-iso", filepath.Join(root, "nope"), filepath.Join(out, "x2.iso")}, true})
	list = append(list, cli{"make-iso-ps3", "no-param-sfo", []string{"make-iso", "--ps3-mode", filepath.Join(root, "dir"), filepath.Join(out, "x3.iso")}, true})
	pd := filepath.Join(root, "hd", "PS3ISO")
	isos, _ := filepath.Glob(filepath.Join(pd, "*.iso"))
	for i, f := range isos {
		key := strings.TrimSuffix(f, ".iso") + ".dkey"
		list = append(list, cli{"decrypt-redump", filepath.Base(f), []string{"decrypt", "redump", f, key, filepath.Join(out, fmt.Sprintf("d%d.iso", i))}, false})
	}
	k3s, _ := filepath.Glob(filepath.Join(root, "hd", "k3", "*.iso"))
	for i, f := range k3s {
		if !e.Thorough && i%3 != 0 && !strings.Contains(f, "wt_") {
			continue
		}
		list = append(list, cli{"decrypt-3k3y", filepath.Base(f), []string{"decrypt", "3k3y", f, filepath.Join(out, fmt.Sprintf("k%d.iso", i))}, false})
	}
	list = append(list, cli{"decrypt-3k3y", "plain-file", []string{"decrypt", "3k3y", filepath.Join(root, "file.bin"), filepath.Join(out, "x4.iso")}, true})
	list = append(list, cli{"decrypt-redump", "missing-key", []string{"decrypt", "redump", filepath.Join(root, "PS3ISO", "enc.iso"), filepath.Join(root, "nokey"), filepath.Join(out, "x5.iso")}, true})
	ParallelDo(len(list), 8, func(i int) {
		c := list[i]
		cmd := exec.Command("/bin/sh", "-c", "ulimit -v 8388608; exec \"$0\" \"$@\"", e.Bin)
		cmd.Args = append(cmd.Args, c.args...)
		cmd.Env = append(os.Environ(), "HOME="+e.Dir("clihome"), "TZ=UTC")
		var ob bytes.Buffer
		cmd.Stdout, cmd.Stderr = &ob, &ob
		done := make(chan error, 1)
		must(cmd.Start())
		go func() { done <- cmd.Wait() }()
		var werr error
		select {
		case werr = <-done:
		case <-time.After(120 * time.Second):
			cmd.Process.Kill()
			<-done
			run.Inconclusive(fmt.Sprintf("CLI %v did not finish within 120 s", c.args))
			return
		}
		_ = werr
		run.Eval(1)
		run.Sig("cli %s: %s", c.family, strings.SplitN(c.name, "/", 2)[0])
		code := cmd.ProcessState.ExitCode()
		outS := ob.String()
		wit := map[string]any{"args": c.args, "exit_code": code, "output": firstLines(outS, 25)}
		if loc := regexp.MustCompile(`(?m)^(panic: |fatal error: |goroutine \d+ \[running\])`).FindStringIndex(outS); loc != nil || code == 2 || code < 0 {
			tr := outS
			if loc != nil {
				tr = outS[loc[0]:]
			}
			run.Violate("cli-crash", c.family+": "+crashClass(tr), fmt.Sprintf("[%s %s] exit code %d with a crash instead of an error: %s", c.family, c.name, code, firstLines(tr, 10)), wit)
			return
		}
		if c.mustFail && code == 0 {
			run.Violate("cli-accepts-invalid", c.family+"/"+c.name, fmt.Sprintf("[%s %s] invalid input but exit code 0", c.family, c.name), wit)
		}
		// outputs are removed as soon as judged (disk space)
		for _, a := range c.args {
			if strings.HasPrefix(a, out) {
				os.Remove(a)
			}
		}
	})
	run.Count("cli_invocations", int64(len(list)))
}
