//go:build verif

package checks

import (
	"time"
	"math"
	"fmt"
	"math/rand"
	"os"
	"path/filepath"

	"verif/host"
	"verif/model"
	"verif/tree"
	"verif/wire"
	"verif/worker"
)

type c02Obj struct {
	rel  string
	size int64
	kind string
}

func sizeClassB(n int64) string {
	switch {
	case n == 0:
		return "0"
	case n < 2048:
		return "<2K"
	case n%2048 == 0 && n <= 1<<20:
		return "k*2K"
	case n <= 70000:
		return "~64K"
	case n <= 1<<21:
		return "~1M"
	case n < 1<<32:
		return "<4G"
	}
	return ">4G"
}

func offClass(off, size int64) string {
	switch {
	case off == 0:
		return "0"
	case off == size:
		return "=size"
	case off >= 1<<40 && off > size:
		return "far-beyond"
	case off > size:
		return ">size"
	case off == size-1:
		return "size-1"
	case off%2048 == 0:
		return "aligned"
	case off >= 1<<32:
		return ">4G"
	}
	return "inside"
}

func limClass(lim, remain int64) string {
	switch {
	case lim == 0:
		return "0"
	case remain <= 0:
		return "beyond"
	case lim > remain:
		return "crossEOF"
	case lim == remain:
		return "toEOF"
	case lim > 65536:
		return ">buf"
	}
	return "inside"
}

// c02Pairs returns boundary and random (offset, limit) pairs for an object of the given size.
func c02Pairs(r *rand.Rand, size int64, nRandom int, full bool) [][2]int64 {
	offs := []int64{0, 1, size - 1, size, size + 1, 2047, 2048, 2049, 65535, 65536, 65537, size / 2, size - 2048, size - 65536}
	lims := []int64{0, 1, 2, 2047, 2048, 2049, 65535, 65536, 65537, size, size + 1, 1 << 20}
	if size > 1<<32 {
		offs = append(offs, 1<<32-1, 1<<32, 1<<32+1, 1<<32-70000, size-3,
			size-1<<32, size-1<<32-1, size-1<<32-1000, size-1<<32+1, size-1<<32-70000) // exactly / a little more than 4 GiB left
	}
	var out [][2]int64
	for _, o := range offs {
		if o < 0 {
			continue
		}
		for _, l := range lims {
			if l > 64<<20 {
				l = 1 << 20
			}
			if full || r.Intn(3) == 0 {
				out = append(out, [2]int64{o, l})
			}
		}
	}
	// far beyond the object: nothing is stored there whatever sector arithmetic the view uses
	far := FarOffsets()
	for k := 0; k < 6; k++ {
		o := far[r.Intn(len(far))]
		if full {
			o = far[(k*17+int(size))%len(far)]
		}
		out = append(out, [2]int64{o, []int64{1, 100, 2048, 70000}[r.Intn(4)]})
	}
	for i := 0; i < nRandom; i++ {
		o := r.Int63n(size + 10)
		l := r.Int63n(200000)
		if r.Intn(4) == 0 {
			l = r.Int63n(3 << 20)
		}
		out = append(out, [2]int64{o, l})
	}
	return out
}

func C02(e *Env) {
	run := e.Run
	run.Rule = "cases: one READ or READCRIT per (object, offset, limit, command, transfer-buffer size); objects: plain files of boundary sizes, a sparse >4 GiB file with markers, generated images and decrypted views; pairs from boundary sets (0,1,size+-1,2048k+-1,65536+-1,...) and random; interleaved with STAT/OPENDIR/listing requests and re-opens; every announced size/mtime/count and every data byte compared with the harness's own copy; non-trivial = distinct (object kind, size class, offset class, limit class, command, buffer size)"
	root := e.Dir("W/root")
	rng := e.Rng(2)
	var objs []c02Obj
	sizes := append([]int64{}, tree.BoundarySizes...)
	sizes = append(sizes, 1<<20+3)
	for i := 0; i < e.Pick(60, 1500); i++ {
		sizes = append(sizes, rng.Int63n(400000))
	}
	must(os.MkdirAll(filepath.Join(root, "files"), 0o755))
	for i, sz := range sizes {
		rel := fmt.Sprintf("/files/f%03d_%d.bin", i, sz)
		must(os.WriteFile(filepath.Join(root, rel), tree.Content(e.Seed*7+int64(i), sz), 0o644))
		t := int64(1_400_000_000 + i*1000)
		os.Chtimes(filepath.Join(root, rel), timeUnix(t), timeUnix(t))
		objs = append(objs, c02Obj{rel, sz, "plain"})
	}
	bigSize := int64(5)<<30 + 12345
	big := &tree.Node{Name: "big_sparse.bin", Size: bigSize, Sparse: true, Seed: 99,
		Marks: []int64{0, 1<<32 - 32, 1 << 32, 1<<32 + 5000, bigSize - 64, 1<<31 - 10, 3 << 30}}
	must(tree.Materialize(root, big))
	objs = append(objs, c02Obj{"/big_sparse.bin", bigSize, "plain"})
	extra, views := c02ViewObjects(e, root, rng)
	objs = append(objs, extra...)

	bufSizes := []int64{65536, 0, 1000, 2048, 1 << 20}
	if !e.Thorough {
		bufSizes = []int64{65536, 1000, 0}
	}
	type target struct {
		p    *host.Proc
		w    *model.World
		name string
		buf  int64
	}
	var targets []target
	for _, bs := range bufSizes {
		p := e.Worker(worker.Config{Root: root, BufSize: bs}, fmt.Sprintf("c02-b%d", bs), false, 0)
		defer p.Stop()
		addr := p.HostPort()
		targets = append(targets, target{p, &model.World{Root: root, Views: views, Probe: func() error { return host.Probe(addr) }}, "lib", bs})
	}
	type sess struct {
		obj  c02Obj
		reqs []wire.Req
		tgt  int
	}
	var list []sess
	misc := []wire.Req{wire.P(wire.OpStat, "/files"), wire.P(wire.OpOpenDir, "/files"), wire.Bare(wire.OpRDE), wire.P(wire.OpStat, "/big_sparse.bin"), wire.P(wire.OpDirSize, "/nonexistent")}
	for oi, ob := range objs {
		for ti := range targets {
			if !e.Thorough && ti > 0 && oi%len(targets) != ti {
				continue
			}
			pairs := c02Pairs(rng, ob.size, e.Pick(30, 120), e.Thorough || oi%8 == 0)
			reqs := []wire.Req{wire.P(wire.OpOpen, ob.rel)}
			var unsat []wire.Req
			for _, pr := range pairs {
				off, lim := pr[0], pr[1]
				reqs = append(reqs, wire.Read(uint32(lim), uint64(off)))
				remain := ob.size - off
				run.Sig("%s %s off=%s lim=%s READ buf=%d", ob.kind, sizeClassB(ob.size), offClass(off, ob.size), limClass(lim, remain), targets[ti].buf)
				if off+lim <= ob.size {
					reqs = append(reqs, wire.Crit(uint32(lim), uint64(off)))
					run.Sig("%s %s off=%s lim=%s READCRIT buf=%d", ob.kind, sizeClassB(ob.size), offClass(off, ob.size), limClass(lim, remain), targets[ti].buf)
				} else if len(unsat) < 3 {
					unsat = append(unsat, wire.Crit(uint32(lim), uint64(off)))
				}
				if rng.Intn(10) == 0 {
					reqs = append(reqs, misc[rng.Intn(len(misc))])
				}
				if rng.Intn(25) == 0 {
					reqs = append(reqs, wire.P(wire.OpOpen, ob.rel)) // re-open
				}
			}
			// offsets with the top bit set: the request's offset field is unsigned; as a signed position such
			// an offset is negative, or wraps to a position inside the object when it is taken modulo 2^64
			for _, uo := range []uint64{1 << 63, 1<<63 + 1, 1<<63 + 2048, 1<<63 + uint64(ob.size)/2, math.MaxUint64, math.MaxUint64 - 2047, math.MaxUint64 - uint64(ob.size), math.MaxUint64 - uint64(ob.size)/2} {
				if !e.Thorough && rng.Intn(3) != 0 {
					continue
				}
				lim := []uint32{1, 2048, 70000}[rng.Intn(3)]
				reqs = append(reqs, wire.Read(lim, uo))
				run.Sig("%s %s off=top-bit-set lim=%d READ buf=%d", ob.kind, sizeClassB(ob.size), lim, targets[ti].buf)
				if len(unsat) < 5 && rng.Intn(2) == 0 {
					unsat = append(unsat, wire.Crit(lim, uo))
				}
			}
			list = append(list, sess{ob, reqs, ti})
			// sequential chain: each ordinary read starts exactly where the previous one ended, with
			// critical reads, CD reads and re-opens elsewhere in between (position caches must not leak)
			if ob.size > 0 {
				chain := []wire.Req{wire.P(wire.OpOpen, ob.rel)}
				pos := int64(0)
				if ob.size > 1<<30 {
					pos = 1<<32 - 70000
				}
				for k := 0; k < e.Pick(12, 40) && pos < ob.size; k++ {
					n := int64(1 + rng.Intn(70000))
					chain = append(chain, wire.Read(uint32(n), uint64(pos)))
					pos += min(n, ob.size-pos)
					switch rng.Intn(4) {
					case 0:
						o := rng.Int63n(ob.size)
						chain = append(chain, wire.Crit(uint32(min(ob.size-o, int64(1+rng.Intn(5000)))), uint64(o)))
					case 1:
						if ob.size > 24+2352+2048 {
							chain = append(chain, wire.CD(uint32(rng.Int63n((ob.size-24-2048)/2352)), 1))
						}
					case 2:
						chain = append(chain, wire.Read(uint32(1+rng.Intn(3000)), uint64(rng.Int63n(ob.size))), wire.P(wire.OpStat, ob.rel))
					}
				}
				list = append(list, sess{ob, chain, ti})
				run.Sig("%s %s sequential-chain buf=%d", ob.kind, sizeClassB(ob.size), targets[ti].buf)
			}
			for _, u := range unsat {
				list = append(list, sess{ob, []wire.Req{wire.P(wire.OpOpen, ob.rel), wire.Read(10, 0), u}, ti})
				run.Sig("%s %s unsatisfiable READCRIT buf=%d", ob.kind, sizeClassB(ob.size), targets[ti].buf)
			}
		}
	}
	// spy-off control: a sample of sessions against the real binary (no spy file system at all)
	if e.Bin != "" {
		bp, err := host.SpawnBin(e.Bin, []string{"server", "--root=" + root, "--listen-addr=127.0.0.1:0"}, host.Opt{Dir: e.Dir("logs"), Tag: "c02-bin"}, e.Scratch, true)
		must(err)
		defer bp.Stop()
		addr := bp.HostPort()
		targets = append(targets, target{bp, &model.World{Root: root, Views: views, Probe: func() error { return host.Probe(addr) }}, "bin", 65536})
		n := len(list)
		for i := 0; i < n; i += e.Pick(6, 3) {
			s := list[i]
			s.tgt = len(targets) - 1
			list = append(list, s)
		}
	}
	ParallelDo(len(list), 8, func(i int) {
		s := list[i]
		t := targets[s.tgt]
		res := RunLockstep(t.p.HostPort(), t.w, s.reqs, e.Watchdog, 0, false)
		run.Eval(len(s.reqs) - 1)
		if res.Fail != nil {
			wit := map[string]any{"object": s.obj, "target": t.name, "buffer_size": t.buf, "requests": trimReqs(s.reqs), "failed_at": res.FailAt, "failed_request": reqAt(s.reqs, res.FailAt), "transcript": tailStr(res.Log, 10)}
			judgeModelFail(e, res.Fail, s.reqs, res.FailAt, "", res.Fail.Feature, fmt.Sprintf("[%s %s size %d via %s buf=%d] %s", s.obj.kind, s.obj.rel, s.obj.size, t.name, t.buf, res.Fail.Detail), wit)
			return
		}
		run.Count("bytes_compared", res.Oracle.BytesCompared)
		run.Count("sessions_"+t.name, 1)
		if i%max(1, len(list)/8) == 0 {
			run.Sample(map[string]any{"object": s.obj, "target": t.name, "buffer_size": t.buf, "requests": trimReqs(s.reqs)})
		}
	})
	// "after a file under the root is opened, the announced size ... are the file's": of the file that the
	// path names at that open. Between two opens of one path on one connection the file is replaced the
	// way tools do it (write a temporary file, rename it over the name: another inode), made longer,
	// shorter, and put back; every open must announce and every read must serve what is there now.
	must(os.MkdirAll(filepath.Join(root, "repl"), 0o755))
	for ti, t := range targets {
		for k := 0; k < e.Pick(3, 12); k++ {
			name := fmt.Sprintf("repl/r%d_%d.bin", ti, k)
			osp := filepath.Join(root, name)
			sizes := []int64{13, 4800, 70001, 1, 2048, 100000}
			must(os.WriteFile(osp, tree.Content(int64(9000+k), sizes[k%len(sizes)]), 0o644))
			reqs := []wire.Req{wire.P(wire.OpOpen, "/"+name), wire.Read(1<<20, 0), wire.P(wire.OpOpen, "/"+name), wire.Read(1<<20, 0), wire.Crit(1, 0),
				wire.P(wire.OpOpen, "/"+name), wire.Read(100, 5), wire.P(wire.OpStat, "/"+name), wire.P(wire.OpOpen, "/"+name), wire.Read(1<<20, 0)}
			step := 0
			res := RunLockstepOpt(t.p.HostPort(), t.w, reqs, e.Watchdog, LockOpt{OnStep: func(i int, r wire.Req, t0, t1 time.Time) {
				if i+1 < len(reqs) && reqs[i+1].Op == wire.OpOpen { // only between the last use of one open and the next open
					step++
					tmp := osp + ".tmp"
					must(os.WriteFile(tmp, tree.Content(int64(9100+10*k+step), sizes[(k+step)%len(sizes)]), 0o644))
					old := time.Unix(1500000000+int64(1000*step), 0)
					must(os.Chtimes(tmp, old, old))
					must(os.Rename(tmp, osp))
				}
			}})
			run.Eval(len(reqs))
			run.Sig("plain replaced-between-opens %s", t.name)
			if res.Fail != nil {
				wit := map[string]any{"object": name, "target": t.name, "requests": trimReqs(reqs), "failed_at": res.FailAt, "failed_request": reqAt(reqs, res.FailAt), "transcript": tailStr(res.Log, 10), "note": "before every OPEN but the first the file was replaced by rename (new inode, other size and mtime)"}
				judgeModelFail(e, res.Fail, reqs, res.FailAt, "", "replaced-between-opens", fmt.Sprintf("[file replaced by rename between two opens of %s on one connection, via %s] %s", name, t.name, res.Fail.Detail), wit)
			}
		}
	}
	run.Obs("objects", len(objs))
	run.Obs("buffer_sizes", bufSizes)
	run.Obs("sessions", len(list))
	for _, t := range targets {
		CrashCheck(e, t.p, "c02 "+t.name, nil)
	}
	run.Assume("limits <= 64 MiB per READ (the statement's limit < 2^31 is exercised up to that size)")
}

func reqAt(r []wire.Req, i int) string {
	if i >= 0 && i < len(r) {
		return r[i].String()
	}
	return "fence"
}
