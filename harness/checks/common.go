//go:build verif

// Package checks contains one driver per property; each runs the real code under a workload and
// applies its oracle to what it observed.
package checks

import (
	"bytes"
	"fmt"
	"math/rand"
	"net"
	"os"
	"path/filepath"
	"runtime"
	"sort"
	"strconv"
	"strings"
	"sync"
	"time"

	"verif/ev"
	"verif/host"
	"verif/model"
	"verif/wire"
	"verif/worker"
)

type Env struct {
	Prop, Tier string
	Thorough   bool
	Scratch    string // fresh scratch directory (removed by the check script)
	VH         string // this binary
	VHRace     string // race build of this binary ("" if not built)
	Bin        string // real CLI binary
	BinRace    string
	Run        *ev.Run
	Seed       int64
	Watchdog   time.Duration
	Replay     string
}

func NewEnv(prop, tier, level string) *Env {
	e := &Env{Prop: prop, Tier: tier, Thorough: tier == "thorough", Scratch: os.Getenv("VERIF_SCRATCH"),
		VH: os.Getenv("VERIF_VH"), VHRace: os.Getenv("VERIF_VH_RACE"), Bin: os.Getenv("VERIF_BIN"),
		BinRace: os.Getenv("VERIF_BIN_RACE"), Seed: ev.Seed(), Watchdog: 10 * time.Second}
	if e.VH == "" {
		e.VH, _ = os.Executable()
	}
	if e.Scratch == "" {
		d, err := os.MkdirTemp("/var/tmp", "verif.")
		if err != nil {
			panic(err)
		}
		e.Scratch = d
	}
	if s := os.Getenv("VERIF_WATCHDOG_MS"); s != "" {
		if v, err := strconv.Atoi(s); err == nil {
			e.Watchdog = time.Duration(v) * time.Millisecond
		}
	}
	e.Run = ev.NewRun(prop, tier, level)
	return e
}

func (e *Env) Rng(salt int64) *rand.Rand { return rand.New(rand.NewSource(e.Seed*1000003 + salt)) }

func (e *Env) Pick(quick, thorough int) int {
	if e.Thorough {
		return thorough
	}
	return quick
}

func (e *Env) Dir(name string) string {
	d := filepath.Join(e.Scratch, name)
	if err := os.MkdirAll(d, 0o755); err != nil {
		panic(err)
	}
	return d
}

func (e *Env) Worker(cfg worker.Config, tag string, race bool, memCapKiB int64) *host.Proc {
	bin := e.VH
	if race {
		if e.VHRace == "" {
			fatalf("race build of the harness was not provided (VERIF_VH_RACE)")
		}
		bin = e.VHRace
	}
	p, err := host.SpawnWorker(cfg, host.Opt{Bin: bin, Dir: e.Dir("logs"), Tag: tag, Race: race, MemCapKiB: memCapKiB})
	if err != nil {
		fatalf("cannot start worker: %v", err)
	}
	return p
}

func fatalf(f string, a ...any) {
	fmt.Fprintf(os.Stderr, "HARNESS-ERROR: "+f+"\n", a...)
	os.Exit(3)
}

func must(err error) {
	if err != nil {
		_, file, line, _ := runtime.Caller(1)
		fatalf("%s:%d: %v", filepath.Base(file), line, err)
	}
}

// recTransport records the response bytes of each step on top of a wire.Client.
type recTransport struct {
	c    *wire.Client
	cur  []byte
	keep bool
}

func (t *recTransport) Send(b []byte) error { return t.c.SendRaw(b) }
func (t *recTransport) ReadN(n int) ([]byte, wire.ReadStatus) {
	b, st := t.c.ReadN(n)
	if t.keep {
		t.cur = append(t.cur, b...)
	}
	return b, st
}
func (t *recTransport) ExpectEOF() ([]byte, wire.ReadStatus) {
	b, st := t.c.ExpectEOF()
	if t.keep {
		t.cur = append(t.cur, b...)
	}
	return b, st
}

type SessionResult struct {
	Fail     *model.Fail
	FailAt   int // request index (len(reqs) = fence)
	Resp     [][]byte
	ClosedAt int // index of the request after which the server closed (-1: stayed open until the end)
	Oracle   *model.Oracle
	Log      []string
}

// LockOpt are the optional knobs of RunLockstepOpt.
type LockOpt struct {
	Chunk    int
	KeepResp bool
	NoFence  bool // do not send the model's own final fence request
	// OnStep, if set, is called after every request with its start and end instants.
	OnStep func(i int, r wire.Req, t0, t1 time.Time)
	Local  net.Addr
}

// RunLockstep drives one session in lock-step under the oracle.
func RunLockstep(addr string, w *model.World, reqs []wire.Req, watchdog time.Duration, chunk int, keepResp bool) SessionResult {
	return RunLockstepOpt(addr, w, reqs, watchdog, LockOpt{Chunk: chunk, KeepResp: keepResp})
}

func RunLockstepOpt(addr string, w *model.World, reqs []wire.Req, watchdog time.Duration, opt LockOpt) SessionResult {
	chunk, keepResp := opt.Chunk, opt.KeepResp
	res := SessionResult{ClosedAt: -1, FailAt: -1}
	c, err := wire.Dial(addr, opt.Local, watchdog)
	if err != nil {
		res.Fail = &model.Fail{Rule: "dial", Feature: "connect", Detail: err.Error(), Inconclusive: true}
		return res
	}
	defer c.Close()
	c.Chunk = chunk
	if pr := host.ProcAt(addr); pr != nil {
		c.Busy = pr.BusyFunc()
	}
	t := &recTransport{c: c, keep: keepResp}
	o := model.NewOracle(w, t)
	res.Oracle = o
	for i, r := range reqs {
		t.cur = nil
		t0 := time.Now()
		f := o.Step(r)
		if opt.OnStep != nil {
			opt.OnStep(i, r, t0, time.Now())
		}
		if keepResp {
			res.Resp = append(res.Resp, t.cur)
		}
		if f != nil {
			res.Fail, res.FailAt = f, i
			res.Log = c.Log
			return res
		}
		if o.Closed {
			res.ClosedAt = i
			if o.ClosedEarlier && i > 0 {
				res.ClosedAt = i - 1
			}
			break
		}
	}
	if !o.Closed && !opt.NoFence {
		t.cur = nil
		if f := o.Finish(c.CloseWrite); f != nil {
			res.Fail, res.FailAt = f, len(reqs)
		}
	}
	res.Log = c.Log
	if res.Fail == nil && len(o.Uploads) > 0 {
		c.Close()
		if f := o.VerifyUploads(5 * time.Second); f != nil {
			res.Fail, res.FailAt = f, len(reqs)
		}
	}
	return res
}

// abortFn is set by Main: it reports that the campaign already recorded plenty of violations.
var abortFn func() bool

// ParallelDo runs fn(i) for i in [0,n) on k goroutines.
func ParallelDo(n, k int, fn func(i int)) {
	if k < 1 {
		k = 1
	}
	var wg sync.WaitGroup
	ch := make(chan int, 64)
	for g := 0; g < k; g++ {
		wg.Add(1)
		go func() {
			defer wg.Done()
			for i := range ch {
				if abortFn != nil && abortFn() {
					continue
				}
				fn(i)
			}
		}()
	}
	for i := 0; i < n; i++ {
		ch <- i
	}
	close(ch)
	wg.Wait()
}

func reqStrings(reqs []wire.Req) []string {
	out := make([]string, len(reqs))
	for i, r := range reqs {
		out[i] = r.String()
	}
	return out
}

// maskTimes zeroes the time fields of a recorded response so that two runs can be compared.
func maskTimes(op wire.Op, resp []byte) []byte {
	b := bytes.Clone(resp)
	z := func(from, to int) {
		for i := from; i < to && i < len(b); i++ {
			b[i] = 0
		}
	}
	switch op {
	case wire.OpStat:
		z(8, 32)
	case wire.OpOpen:
		z(8, 16)
	case wire.OpRDE2:
		z(8, 32)
	case wire.OpReadDir:
		for off := 8; off+wire.SzDirEnt <= len(b); off += wire.SzDirEnt {
			z(off+8, off+16)
		}
	}
	return b
}

// CrashCheck inspects a worker after a batch: it must be alive, without crash trace, and answer a probe.
func CrashCheck(e *Env, p *host.Proc, what string, witness any) bool {
	if !p.Alive() || p.CrashTrace() != "" {
		e.Run.Violate("process-died", what, fmt.Sprintf("server process %s; trace: %s", p.ExitString(), p.CrashTrace()), witness)
		return false
	}
	if err := host.Probe(p.HostPort()); err != nil {
		e.Run.Violate("not-serving", what, err.Error(), witness)
		return false
	}
	return true
}

func timeUnix(s int64) time.Time { return time.Unix(s, 0) }

// raceKey summarises a race report by the innermost repository function of each of its two access
// stacks (line numbers stripped), so that one defect keeps one key from run to run.
func raceKey(block string) string {
	var keys []string
	inAccess := false
	got := false
	for _, l := range strings.Split(block, "\n") {
		t := strings.TrimSpace(l)
		switch {
		case strings.HasPrefix(t, "Write at") || strings.HasPrefix(t, "Read at") || strings.HasPrefix(t, "Previous write at") || strings.HasPrefix(t, "Previous read at"):
			inAccess, got = true, false
		case strings.HasPrefix(t, "Goroutine ") || t == "":
			inAccess = false
		case inAccess && !got && strings.Contains(t, "ps3netsrv-go/") && strings.HasSuffix(t, ")") && !strings.Contains(t, "verifhook"):
			fn := t[strings.LastIndex(t, "/")+1:]
			if i := strings.Index(fn, "("); i > 0 {
				fn = fn[:i]
			}
			keys = append(keys, fn)
			got = true
		}
	}
	if len(keys) == 0 {
		// no repository frame: name the first frame of the report
		for _, l := range strings.Split(block, "\n") {
			t := strings.TrimSpace(l)
			if strings.HasSuffix(t, ")") && strings.Contains(t, ".") && !strings.HasPrefix(t, "Write") && !strings.HasPrefix(t, "Read") {
				return "non-repo:" + t
			}
		}
		return "unparsed"
	}
	sort.Strings(keys)
	return strings.Join(keys, " <-> ")
}

func dedupeRaces(blocks []string) []string {
	seen := map[string]bool{}
	var out []string
	for _, b := range blocks {
		k := raceKey(b)
		if !seen[k] {
			seen[k] = true
			out = append(out, b)
		}
	}
	return out
}

var framingRules = map[string]bool{"short-response": true, "stray-bytes": true, "desync": true, "unexpected-close": true,
	"no-response": true, "not-closed": true, "result-code": true, "closefile": true}

func opIn(op wire.Op, ops ...wire.Op) bool {
	for _, o := range ops {
		if op == o {
			return true
		}
	}
	return false
}

// inScope tells whether a failure of the shared wire reference model is a violation of the property
// the running check decides. The model judges every answer; a check only claims the part of it that
// its own property states, so that a defect belonging to another property is left to that property's
// check (it is counted in the evidence as "other_property_failures_not_judged").
func inScope(prop string, f *model.Fail, reqs []wire.Req, failAt int) bool {
	idx := failAt
	if idx >= len(reqs) {
		idx = len(reqs) - 1 // the fence: attributed to the last request of the session
	}
	var op wire.Op
	if idx >= 0 && idx < len(reqs) {
		op = reqs[idx].Op
	}
	rule := f.Rule
	switch prop {
	case "C02", "C09", "C11":
		return opIn(op, wire.OpOpen, wire.OpRead, wire.OpReadCrit) &&
			(framingRules[rule] || rule == "read-announce" || rule == "wrong-bytes" || rule == "open-size" || rule == "open-truth" || rule == "open-virtual" || rule == "read-nofile")
	case "C03":
		if framingRules[rule] || rule == "read-nofile" || rule == "write-nofile" {
			return true
		}
		if rule == "listing" {
			switch f.Feature {
			case "end-marker", "empty-name", "no-open-dir", "isdir-byte":
				return true
			}
		}
		// an OPEN answered with a size for a path this very connection has removed before: the connection's
		// read-file state survived what should have replaced it (the truth of OPEN answers in general is
		// C02's and C06's business, this one is the state machine's)
		if rule == "open-truth" && op == wire.OpOpen {
			for j := 0; j < idx; j++ {
				if reqs[j].Op == wire.OpDelete && bytes.Equal(reqs[j].Path, reqs[idx].Path) {
					return true
				}
			}
		}
		return false
	case "C05":
		if opIn(op, wire.OpCreate, wire.OpWrite, wire.OpDelete, wire.OpMkdir, wire.OpRmdir) {
			return true
		}
		switch rule {
		case "write-gate", "virtual-write", "create-truth", "create-effect", "write-nofile", "write-result", "upload-content", "remove-truth", "remove-root", "mkdir-truth", "mkdir-effect", "collateral-change":
			return true
		}
		return false
	case "C06":
		return opIn(op, wire.OpStat, wire.OpOpenDir, wire.OpReadDir, wire.OpRDE, wire.OpRDE2, wire.OpDirSize)
	case "C17":
		return opIn(op, wire.OpReadCD, wire.OpOpen)
	}
	return true
}

// judgeModelFail files a model failure under the running property, or counts it as out of scope.
func judgeModelFail(e *Env, f *model.Fail, reqs []wire.Req, failAt int, rulePrefix, feature, detail string, wit any) {
	if f.Inconclusive {
		e.Run.Inconclusive(f.Error())
		return
	}
	if !inScope(e.Prop, f, reqs, failAt) {
		e.Run.Count("other_property_failures_not_judged", 1)
		e.Run.Count("not_judged:"+f.Rule, 1)
		return
	}
	e.Run.Violate(rulePrefix+f.Rule, feature, detail, wit)
}

// FarOffsets are positions far beyond any stored object at which sector or byte arithmetic of a
// narrower integer type would wrap: 2048·2^31 (a signed 32-bit sector count), 2048·2^32, their
// neighbours and small multiples, and some powers of two up to 2^62. Nothing is stored there, so the
// only correct answers are "no bytes".
func FarOffsets() []int64 {
	var out []int64
	for _, base := range []int64{1 << 42, 1 << 43, 3 << 42, 1 << 44, 5 << 43, 1 << 31 * 2352, 1 << 32 * 2352} {
		for _, d := range []int64{-70000, -4096, -2049, -2048, -100, -1, 0, 1, 100, 2047, 2048, 4096, 65536} {
			out = append(out, base+d)
		}
	}
	out = append(out, 1<<40, 1<<48, 1<<52+1, 1<<53+1, 1<<62, 1<<62+2048, 1<<63-2049, 1<<63-2048, 1<<63-1)
	return out
}
