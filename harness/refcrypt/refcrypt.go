// Package refcrypt is the independent reference for PS3 disc image encryption: AES block
// primitive + explicit CBC XOR chain (no cipher.NewCBC*), key derivation with the published
// constants, IV = 12 zero bytes || BE32(sector). It also builds encrypted test images.
//
// Region semantics (psdevwiki "Bluray disc / Encryption", original ps3netsrv, and the repository's
// own PS3-mode writer which emits {0, volumeSize-1} for a fully plain disc): the table in sector 0
// lists PLAIN regions {first sector, last sector} with an INCLUSIVE end; the sectors strictly
// between the end of one plain region and the start of the next are encrypted.
package refcrypt

import (
	"bytes"
	"crypto/aes"
	"encoding/binary"
	"encoding/hex"
	"fmt"
	"os"
	"os/exec"
)

const Sector = 2048

var (
	keyData1 = mustHex("380bcf0b53455b3c7817ab4fa3ba90ed")
	ivData1  = mustHex("69474772af6fdab342743aefaa186287")
)

func mustHex(s string) []byte {
	b, err := hex.DecodeString(s)
	if err != nil {
		panic(err)
	}
	return b
}

// DeriveKey returns the image key for a 16-byte disc key ("data1").
func DeriveKey(disc []byte) []byte {
	c, _ := aes.NewCipher(keyData1)
	in := make([]byte, 16)
	for i := range in {
		in[i] = disc[i] ^ ivData1[i]
	}
	out := make([]byte, 16)
	c.Encrypt(out, in)
	return out
}

func sectorIV(sector uint32) []byte {
	iv := make([]byte, 16)
	binary.BigEndian.PutUint32(iv[12:], sector)
	return iv
}

// DecryptSector decrypts one 2048-byte sector in place semantics (returns a new slice).
func DecryptSector(key []byte, sector uint32, ct []byte) []byte {
	c, _ := aes.NewCipher(key)
	prev := sectorIV(sector)
	out := make([]byte, len(ct))
	tmp := make([]byte, 16)
	for off := 0; off+16 <= len(ct); off += 16 {
		c.Decrypt(tmp, ct[off:off+16])
		for i := 0; i < 16; i++ {
			out[off+i] = tmp[i] ^ prev[i]
		}
		prev = ct[off : off+16]
	}
	return out
}

// EncryptSector is the inverse of DecryptSector.
func EncryptSector(key []byte, sector uint32, pt []byte) []byte {
	c, _ := aes.NewCipher(key)
	prev := sectorIV(sector)
	out := make([]byte, len(pt))
	tmp := make([]byte, 16)
	for off := 0; off+16 <= len(pt); off += 16 {
		for i := 0; i < 16; i++ {
			tmp[i] = pt[off+i] ^ prev[i]
		}
		c.Encrypt(out[off:off+16], tmp)
		prev = out[off : off+16]
	}
	return out
}

type Region struct{ Start, End uint32 } // plain region, inclusive end

// Table encodes the region table as stored at the beginning of sector 0.
func Table(regs []Region) []byte {
	b := make([]byte, 8+8*len(regs))
	binary.BigEndian.PutUint32(b, uint32(len(regs)))
	for i, r := range regs {
		binary.BigEndian.PutUint32(b[8+8*i:], r.Start)
		binary.BigEndian.PutUint32(b[12+8*i:], r.End)
	}
	return b
}

// ParseTable reads the region table from the first bytes of an image.
func ParseTable(b []byte) ([]Region, error) {
	if len(b) < 8 {
		return nil, fmt.Errorf("short")
	}
	n := binary.BigEndian.Uint32(b)
	if uint64(len(b)) < 8+8*uint64(n) {
		return nil, fmt.Errorf("table longer than data")
	}
	regs := make([]Region, n)
	for i := range regs {
		regs[i] = Region{binary.BigEndian.Uint32(b[8+8*i:]), binary.BigEndian.Uint32(b[12+8*i:])}
	}
	return regs, nil
}

// Encrypted tells whether a sector is encrypted under the table.
func Encrypted(regs []Region, sector uint32) bool {
	for i := 0; i+1 < len(regs); i++ {
		if sector > regs[i].End && sector < regs[i+1].Start {
			return true
		}
	}
	return false
}

// BuildImage turns a plaintext image (whose first bytes already hold the table) into the stored
// (partly encrypted) image. Only whole sectors are encrypted; a trailing partial sector is stored as is.
func BuildImage(plain []byte, regs []Region, discKey []byte) []byte {
	key := DeriveKey(discKey)
	out := bytes.Clone(plain)
	n := len(plain) / Sector
	for i := 0; i+1 < len(regs); i++ {
		for s := uint64(regs[i].End) + 1; s < uint64(regs[i+1].Start) && s < uint64(n); s++ {
			copy(out[s*Sector:], EncryptSector(key, uint32(s), plain[s*Sector:(s+1)*Sector]))
		}
	}
	return out
}

// Plaintext computes the reference plaintext of a stored image: encrypted whole sectors decrypted,
// everything else as stored; with clear the region table bytes are zeroed.
func Plaintext(stored []byte, regs []Region, discKey []byte, clear bool) []byte {
	key := DeriveKey(discKey)
	out := bytes.Clone(stored)
	n := len(stored) / Sector
	for i := 0; i+1 < len(regs); i++ {
		for s := uint64(regs[i].End) + 1; s < uint64(regs[i+1].Start) && s < uint64(n); s++ {
			copy(out[s*Sector:], DecryptSector(key, uint32(s), stored[s*Sector:(s+1)*Sector]))
		}
	}
	if clear {
		for i := 0; i < 8+8*len(regs) && i < len(out); i++ {
			out[i] = 0
		}
	}
	return out
}

// SelfCheck cross-checks DeriveKey and DecryptSector against the openssl CLI (when present) and
// round-trips Encrypt/Decrypt. It returns a description of what was anchored.
func SelfCheck() (string, error) {
	disc := mustHex("00112233445566778899aabbccddeeff")
	key := DeriveKey(disc)
	pt := make([]byte, Sector)
	for i := range pt {
		pt[i] = byte(i*7 + i/256)
	}
	ct := EncryptSector(key, 0x12345, pt)
	if !bytes.Equal(DecryptSector(key, 0x12345, ct), pt) {
		return "", fmt.Errorf("refcrypt round trip failed")
	}
	path, err := exec.LookPath("openssl")
	if err != nil {
		return "round-trip only (openssl CLI not found)", nil
	}
	run := func(args []string, in []byte) ([]byte, error) {
		f, err := os.CreateTemp("/var/tmp", "refcrypt.")
		if err != nil {
			return nil, err
		}
		defer os.Remove(f.Name())
		f.Write(in)
		f.Close()
		cmd := exec.Command(path, append(args, "-in", f.Name())...)
		return cmd.Output()
	}
	// key derivation: AES-128-CBC encrypt of the disc key
	o, err := run([]string{"enc", "-aes-128-cbc", "-e", "-nopad", "-K", hex.EncodeToString(keyData1), "-iv", hex.EncodeToString(ivData1)}, disc)
	if err != nil {
		return "", fmt.Errorf("openssl enc failed: %v", err)
	}
	if !bytes.Equal(o, key) {
		return "", fmt.Errorf("key derivation differs from openssl: %x vs %x", key, o)
	}
	o, err = run([]string{"enc", "-aes-128-cbc", "-d", "-nopad", "-K", hex.EncodeToString(key), "-iv", hex.EncodeToString(sectorIV(0x12345))}, ct)
	if err != nil {
		return "", fmt.Errorf("openssl dec failed: %v", err)
	}
	if !bytes.Equal(o, pt) {
		return "", fmt.Errorf("sector decryption differs from openssl")
	}
	return "key derivation and sector decryption equal to openssl enc -aes-128-cbc", nil
}
