// Package ev holds the verdict discipline shared by all checks: case counting, distinct
// signatures, violations, known findings, replay files and the evidence file.
package ev

import (
	"encoding/json"
	"fmt"
	"os"
	"path/filepath"
	"sort"
	"strconv"
	"strings"
	"sync"
	"time"
)

var VerifDir = func() string {
	if d := os.Getenv("VERIF_DIR"); d != "" {
		return d
	}
	return "/verif"
}()

type Violation struct {
	Property string `json:"property"`
	Rule     string `json:"rule"`    // id of the oracle rule that fired
	Feature  string `json:"feature"` // the specific triggering feature (known-finding key)
	Detail   string `json:"detail"`
	Replay   string `json:"replay"`
	Known    bool   `json:"known"`
}

type Finding struct {
	Status   string `json:"status"` // open | fixed
	Property string `json:"property"`
	Rule     string `json:"rule,omitempty"`
	Feature  string `json:"feature,omitempty"`
	Commit   string `json:"commit,omitempty"`
	What     string `json:"what"`
}

type Run struct {
	Prop, Tier string
	Seed       int64
	Level      string
	start      time.Time

	mu           sync.Mutex
	evals        int
	sigs         map[string]int
	samples      []any
	Observed     map[string]any
	Counters     map[string]int64
	Assumptions  []string
	viol         []Violation
	replayCount  map[string]int
	inconclusive int
	Rule         string
	Exhaustive   bool
	findings     []Finding
	Floors       []string // descriptions of missed observation floors
	MaxSamples   int
}

func Seed() int64 {
	if s := os.Getenv("VERIF_SEED"); s != "" {
		if v, err := strconv.ParseInt(s, 10, 64); err == nil {
			return v
		}
	}
	return 1
}

func NewRun(prop, tier, level string) *Run {
	r := &Run{Prop: prop, Tier: tier, Seed: Seed(), Level: level, start: time.Now(), sigs: map[string]int{},
		Observed: map[string]any{}, Counters: map[string]int64{}, replayCount: map[string]int{}, MaxSamples: 12}
	b, err := os.ReadFile(filepath.Join(VerifDir, "known_findings.json"))
	if err == nil {
		var kf struct {
			Findings []Finding `json:"findings"`
		}
		if err := json.Unmarshal(b, &kf); err != nil {
			fmt.Fprintln(os.Stderr, "known_findings.json unreadable:", err)
			os.Exit(3)
		}
		r.findings = kf.Findings
	}
	return r
}

// Eval counts one executed case.
func (r *Run) Eval(n int) { r.mu.Lock(); r.evals += n; r.mu.Unlock() }

// Sig records the signature of a case that exercised the non-trivial side of the property.
func (r *Run) Sig(format string, a ...any) {
	s := fmt.Sprintf(format, a...)
	r.mu.Lock()
	r.sigs[s]++
	r.mu.Unlock()
}

func (r *Run) Count(key string, n int64) { r.mu.Lock(); r.Counters[key] += n; r.mu.Unlock() }

func (r *Run) Counter(key string) int64 { r.mu.Lock(); defer r.mu.Unlock(); return r.Counters[key] }

func (r *Run) Obs(key string, v any) { r.mu.Lock(); r.Observed[key] = v; r.mu.Unlock() }

func (r *Run) Sample(v any) {
	r.mu.Lock()
	if len(r.samples) < r.MaxSamples {
		r.samples = append(r.samples, v)
	}
	r.mu.Unlock()
}

func (r *Run) Inconclusive(what string) {
	r.mu.Lock()
	r.inconclusive++
	r.mu.Unlock()
	fmt.Printf("INCONCLUSIVE property=%s %s\n", r.Prop, what)
}

func (r *Run) Assume(s string) { r.mu.Lock(); r.Assumptions = append(r.Assumptions, s); r.mu.Unlock() }

func (r *Run) Floor(ok bool, what string) {
	if !ok {
		r.mu.Lock()
		r.Floors = append(r.Floors, what)
		r.mu.Unlock()
	}
}

// TooMany tells that enough violations were recorded: remaining cases of the campaign are skipped
// (each hang-type violation costs a watchdog period).
func (r *Run) TooMany() bool {
	r.mu.Lock()
	defer r.mu.Unlock()
	n := 0
	for _, v := range r.viol {
		if !v.Known {
			n++
		}
	}
	return n >= 40
}

func (r *Run) NViolations() int { r.mu.Lock(); defer r.mu.Unlock(); return len(r.viol) }

// NUnknown returns the number of violations not covered by an open known finding.
func (r *Run) NUnknown() int {
	r.mu.Lock()
	defer r.mu.Unlock()
	n := 0
	for _, v := range r.viol {
		if !v.Known {
			n++
		}
	}
	return n
}

func (r *Run) known(rule, feature string) *Finding {
	for i := range r.findings {
		f := &r.findings[i]
		if f.Status == "open" && f.Property == r.Prop && f.Rule == rule && f.Feature == feature {
			return f
		}
	}
	return nil
}

// Violate records a violation. replay is any JSON-serialisable witness.
func (r *Run) Violate(rule, feature, detail string, replay any) {
	r.mu.Lock()
	defer r.mu.Unlock()
	key := rule + "|" + feature
	r.replayCount[key]++
	v := Violation{Property: r.Prop, Rule: rule, Feature: feature, Detail: detail}
	if kf := r.known(rule, feature); kf != nil {
		v.Known = true
		if r.replayCount[key] == 1 {
			fmt.Printf("KNOWN-FINDING: property=%s %s/%s: %s\n", r.Prop, rule, feature, kf.What)
		}
	}
	if r.replayCount[key] <= 3 {
		dir := filepath.Join(VerifDir, "replays", r.Prop)
		os.MkdirAll(dir, 0o755)
		name := fmt.Sprintf("%s-%s-%d.json", sanitize(rule), sanitize(feature), r.replayCount[key])
		path := filepath.Join(dir, name)
		b, _ := json.MarshalIndent(map[string]any{"property": r.Prop, "rule": rule, "feature": feature, "detail": detail,
			"seed": r.Seed, "tier": r.Tier, "witness": replay}, "", " ")
		os.WriteFile(path, b, 0o644)
		v.Replay = path
		if !v.Known {
			fmt.Printf("VIOLATION property=%s replay=%s\n", r.Prop, path)
			fmt.Printf("  rule=%s feature=%s: %s\n", rule, feature, truncate(detail, 600))
		}
	}
	if len(r.viol) < 2000 {
		r.viol = append(r.viol, v)
	}
}

func truncate(s string, n int) string {
	if len(s) > n {
		return s[:n] + "..."
	}
	return s
}

func sanitize(s string) string {
	s = strings.Map(func(r rune) rune {
		if r >= 'a' && r <= 'z' || r >= 'A' && r <= 'Z' || r >= '0' && r <= '9' || r == '-' || r == '_' {
			return r
		}
		return '_'
	}, s)
	if len(s) > 60 {
		s = s[:60]
	}
	return s
}

// Finish writes the evidence file and returns the process exit code.
func (r *Run) Finish() int {
	r.mu.Lock()
	defer r.mu.Unlock()
	unknown, knownN := 0, 0
	byRule := map[string]int{}
	for _, v := range r.viol {
		if v.Known {
			knownN++
		} else {
			unknown++
		}
		byRule[v.Rule+"|"+v.Feature]++
	}
	sigList := make([]string, 0, len(r.sigs))
	for s := range r.sigs {
		sigList = append(sigList, s)
	}
	sort.Strings(sigList)
	if len(sigList) > 60 {
		sigList = sigList[:60]
	}
	samples := r.samples
	if len(samples) == 0 {
		samples = []any{"(no sample recorded)"}
	}
	r.Observed["counters"] = r.Counters
	r.Observed["inconclusive"] = r.inconclusive
	r.Observed["violations_by_rule"] = byRule
	r.Observed["known_finding_hits"] = knownN
	r.Observed["signature_examples"] = sigList
	cov := map[string]any{
		"evaluations":         r.evals,
		"distinct_nontrivial": len(r.sigs),
		"rule":                r.Rule,
		"samples":             samples,
		"observed":            r.Observed,
	}
	if r.Exhaustive {
		cov["exhaustive"] = true
	}
	evd := map[string]any{
		"property_id": r.Prop, "tier": r.Tier, "seed": r.Seed, "level": r.Level, "coverage": cov,
		"assumptions": r.Assumptions, "wall_s": time.Since(r.start).Seconds(), "violations": unknown,
	}
	if r.Assumptions == nil {
		evd["assumptions"] = []string{}
	}
	b, _ := json.MarshalIndent(evd, "", " ")
	os.MkdirAll(filepath.Join(VerifDir, "evidence"), 0o755)
	if os.Getenv("VERIF_NO_EVIDENCE") == "" {
		if err := os.WriteFile(filepath.Join(VerifDir, "evidence", r.Prop+".json"), b, 0o644); err != nil {
			fmt.Fprintln(os.Stderr, "cannot write evidence:", err)
			return 3
		}
	}
	fmt.Printf("SUMMARY property=%s tier=%s seed=%d evaluations=%d distinct=%d violations=%d known=%d inconclusive=%d wall=%.1fs\n",
		r.Prop, r.Tier, r.Seed, r.evals, len(r.sigs), unknown, knownN, r.inconclusive, time.Since(r.start).Seconds())
	if unknown > 0 {
		return 1
	}
	if len(r.Floors) > 0 {
		for _, f := range r.Floors {
			fmt.Printf("FLOOR-MISSED property=%s %s\n", r.Prop, f)
		}
		return 3
	}
	return 0
}
