//go:build verif

// Package worker hosts the real server (pkg/server + internal/handler + pkg/fs through the
// verifhook shim) inside a child process, wired like cmd/ps3netsrv-go/server.go but with the
// spy file system slipped under BasePathFs and an optional spy listener.
package worker

import (
	"bufio"
	"encoding/json"
	"fmt"
	"io"
	"log/slog"
	"net"
	"os"
	"runtime"
	"runtime/pprof"
	"strings"
	"time"

	"github.com/spf13/afero"
	"golang.org/x/net/netutil"

	"github.com/xakep666/ps3netsrv-go/pkg/iprange"
	"github.com/xakep666/ps3netsrv-go/pkg/verifhook"

	"verif/spyfs"
)

type Config struct {
	Root          string        `json:"root"`
	AllowWrite    bool          `json:"allow_write"`
	BufSize       int64         `json:"buf_size"`
	ReadTimeoutMs int64         `json:"read_timeout_ms"`
	Faults        []spyfs.Fault `json:"faults,omitempty"`
	KeepLog       bool          `json:"keep_log,omitempty"`
	ShuffleSeed   int64         `json:"shuffle_seed,omitempty"`
	GoMaxProcs    int           `json:"gomaxprocs,omitempty"`
	Log           string        `json:"log,omitempty"` // "", "debug" (formatted to io.Discard), "stderr"
	MaxClients    int           `json:"max_clients,omitempty"`
	Whitelist     string        `json:"whitelist,omitempty"`
	Listen        string        `json:"listen,omitempty"` // default 127.0.0.1:0
	WriteChunk    int           `json:"write_chunk,omitempty"`
	NoSpy         bool          `json:"no_spy,omitempty"`
}

type Cmd struct {
	Cmd         string        `json:"cmd"`
	Faults      []spyfs.Fault `json:"faults,omitempty"`
	KeepLog     bool          `json:"keep_log,omitempty"`
	ShuffleSeed int64         `json:"shuffle_seed,omitempty"`
}

type Reply struct {
	OK         bool          `json:"ok"`
	Err        string        `json:"err,omitempty"`
	Port       int           `json:"port,omitempty"`
	Addr       string        `json:"addr,omitempty"`
	Report     *spyfs.Report `json:"report,omitempty"`
	ServeConn  int           `json:"serve_conn,omitempty"`
	Goroutines int           `json:"goroutines,omitempty"`
	Accepted   int64         `json:"accepted,omitempty"`
}

type chunkConn struct {
	net.Conn
	k int
}

func (c chunkConn) Write(p []byte) (int, error) {
	n := 0
	for len(p) > 0 {
		e := min(c.k, len(p))
		m, err := c.Conn.Write(p[:e])
		n += m
		if err != nil {
			return n, err
		}
		p = p[e:]
		runtime.Gosched()
	}
	return n, nil
}

type chunkListener struct {
	net.Listener
	k int
}

func (l chunkListener) Accept() (net.Conn, error) {
	c, err := l.Listener.Accept()
	if err != nil {
		return nil, err
	}
	return chunkConn{c, l.k}, nil
}

// Main is the worker process entry point: first stdin line is the Config.
func Main() {
	in := bufio.NewReaderSize(os.Stdin, 1<<20)
	out := json.NewEncoder(os.Stdout)
	line, err := in.ReadBytes('\n')
	if err != nil {
		fmt.Fprintln(os.Stderr, "worker: no config:", err)
		os.Exit(4)
	}
	var cfg Config
	if err := json.Unmarshal(line, &cfg); err != nil {
		fmt.Fprintln(os.Stderr, "worker: bad config:", err)
		os.Exit(4)
	}
	if cfg.GoMaxProcs > 0 {
		runtime.GOMAXPROCS(cfg.GoMaxProcs)
	}

	var h slog.Handler
	switch cfg.Log {
	case "debug":
		h = slog.NewTextHandler(io.Discard, &slog.HandlerOptions{Level: slog.LevelDebug})
	case "stderr":
		h = slog.NewTextHandler(os.Stderr, &slog.HandlerOptions{Level: slog.LevelDebug})
	default:
		h = slog.NewTextHandler(io.Discard, &slog.HandlerOptions{Level: slog.LevelError + 4})
	}
	slog.SetDefault(slog.New(verifhook.WrapSlogHandler(h)))

	var spy *spyfs.Spy
	var base afero.Fs
	if cfg.NoSpy {
		base = afero.NewBasePathFs(afero.NewOsFs(), cfg.Root)
	} else {
		spy = spyfs.New(afero.NewOsFs(), cfg.Root)
		spy.Reset(cfg.Faults, cfg.KeepLog, cfg.ShuffleSeed)
		base = afero.NewBasePathFs(spy, cfg.Root)
	}
	srv := verifhook.NewServer(verifhook.NewHandler(base, cfg.AllowWrite, cfg.BufSize),
		time.Duration(cfg.ReadTimeoutMs)*time.Millisecond, slog.Default())

	addr := cfg.Listen
	if addr == "" {
		addr = "127.0.0.1:0"
	}
	network := "tcp4"
	if strings.HasPrefix(addr, "[") {
		network = "tcp"
	}
	ln, err := net.Listen(network, addr)
	if err != nil {
		out.Encode(Reply{Err: err.Error()})
		os.Exit(4)
	}
	port := ln.Addr().(*net.TCPAddr).Port
	laddr := ln.Addr().String()
	// same composition order as cmd/ps3netsrv-go/server.go
	if cfg.MaxClients > 0 {
		ln = netutil.LimitListener(ln, cfg.MaxClients)
	}
	if cfg.Whitelist != "" {
		r, err := iprange.ParseIPRange(cfg.Whitelist)
		if err != nil {
			out.Encode(Reply{Err: "whitelist: " + err.Error()})
			os.Exit(4)
		}
		ln = iprange.FilterListener(ln, r, false)
	}
	if cfg.WriteChunk > 0 {
		ln = chunkListener{ln, cfg.WriteChunk}
	}
	go func() {
		err := srv.Serve(ln)
		fmt.Fprintln(os.Stderr, "worker: Serve returned:", err)
		os.Exit(5)
	}()
	out.Encode(Reply{OK: true, Port: port, Addr: laddr})

	for {
		line, err := in.ReadBytes('\n')
		if err != nil {
			os.Exit(0) // driver went away
		}
		var c Cmd
		if err := json.Unmarshal(line, &c); err != nil {
			out.Encode(Reply{Err: err.Error()})
			continue
		}
		switch c.Cmd {
		case "report":
			if spy == nil {
				out.Encode(Reply{OK: true})
				continue
			}
			r := spy.Report()
			out.Encode(Reply{OK: true, Report: &r})
		case "plan":
			if spy != nil {
				spy.Reset(c.Faults, c.KeepLog, c.ShuffleSeed)
			}
			out.Encode(Reply{OK: true})
		case "goroutines":
			var sb strings.Builder
			pprof.Lookup("goroutine").WriteTo(&sb, 2)
			out.Encode(Reply{OK: true, ServeConn: strings.Count(sb.String(), ").serveConn("), Goroutines: runtime.NumGoroutine()})
		case "quit":
			out.Encode(Reply{OK: true})
			os.Exit(0)
		default:
			out.Encode(Reply{Err: "unknown cmd"})
		}
	}
}
