//go:build verif

package main

import (
	"fmt"
	"os"

	"verif/checks"
	"verif/worker"
)

func main() {
	if len(os.Args) < 2 {
		fmt.Fprintln(os.Stderr, "usage: vh worker | vh check <Cxx> <quick|thorough> [--replay file]")
		os.Exit(2)
	}
	switch os.Args[1] {
	case "worker":
		worker.Main()
	case "check":
		if len(os.Args) < 4 {
			fmt.Fprintln(os.Stderr, "usage: vh check <Cxx> <quick|thorough>")
			os.Exit(2)
		}
		os.Exit(checks.Main(os.Args[2], os.Args[3], os.Args[4:]))
	case "probe-image":
		checks.ProbeImage(os.Args[2], os.Args[3])
	default:
		fmt.Fprintln(os.Stderr, "unknown subcommand")
		os.Exit(2)
	}
}
