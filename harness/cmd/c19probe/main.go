//go:build verif

package main

import (
	"os"

	"verif/checks"
)

func main() {
	tier := "quick"
	if len(os.Args) > 1 {
		tier = os.Args[1]
	}
	e := checks.NewEnv("C19", tier, "exploration")
	checks.C19(e)
	code := e.Run.Finish()
	os.RemoveAll(e.Scratch)
	os.Exit(code)
}
