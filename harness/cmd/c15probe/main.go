//go:build verif

package main

import (
	"os"

	"verif/checks"
)

func main() {
	tier := "quick"
	if len(os.Args) > 1 {
		tier = os.Args[1]
	}
	e := checks.NewEnv("C15", tier, "exploration")
	checks.C15(e)
	os.Exit(e.Run.Finish())
}
