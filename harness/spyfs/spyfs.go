// Package spyfs wraps an afero.Fs with a ledger of open handles, an audit of every path that
// reaches the OS layer, a deterministic fault plan and optional shuffling of directory listings.
// All shadow state is updated under one mutex together with the event it records.
package spyfs

import (
	"fmt"
	"io"
	iofs "io/fs"
	"math/rand"
	"os"
	"path/filepath"
	"runtime"
	"sort"
	"strings"
	"sync"
	"syscall"
	"time"

	"github.com/spf13/afero"
)

// Fault kinds.
const (
	FEIO     = "eio"     // the operation fails with EIO (not performed; Close is performed but reports EIO)
	FShort   = "short"   // a Read/ReadAt returns fewer bytes than asked (>=1), no error
	// FShortQuiet: a positional read of at least one sector returns fewer bytes than asked and *no* error —
	// outside io.ReaderAt's contract, but what file systems behind afero adapters (network, archive,
	// overlay back ends) do; smaller positional reads (format probes) are left alone
	FShortQuiet = "short-quiet"
	FDelay   = "delay"   // sleep DelayMs before performing
	FYield   = "yield"   // runtime.Gosched() before performing
	FENOENT  = "enoent"  // fails with ENOENT
	FZeroEOF = "zeroeof" // a Read returns (0, io.EOF) early -- NOT used as a legal fault, kept for experiments
)

type Fault struct {
	Index   int    `json:"index"`           // 1-based operation index (counted over all ops since last Reset)
	Kind    string `json:"kind"`            //
	OpKind  string `json:"op,omitempty"`    // if set, Index counts only operations of this kind
	K       int    `json:"k,omitempty"`     // short read: bytes to return (clamped to [1,n-1])
	DelayMs int    `json:"ms,omitempty"`    //
	Every   bool   `json:"every,omitempty"` // apply to every matching op (Index ignored)
}

type OpRec struct {
	I        int    `json:"i"`
	Kind     string `json:"kind"`
	Path     string `json:"path"`
	N        int    `json:"n,omitempty"`
	Err      string `json:"err,omitempty"`
	Injected string `json:"inj,omitempty"`
}

type Report struct {
	Ops         int            `json:"ops"`
	ByKind      map[string]int `json:"by_kind"`
	Opens       int            `json:"opens"`
	Closes      int            `json:"closes"`
	Open        []string       `json:"open"` // names of handles still open
	Escapes     []string       `json:"escapes"`
	Fired       []OpRec        `json:"fired"`
	Log         []OpRec        `json:"log,omitempty"`
	Paths       int            `json:"paths"`
	DoubleClose int            `json:"double_close"`
}

type Spy struct {
	inner afero.Fs
	root  string // cleaned OS path every name must stay under

	mu       sync.Mutex
	n        int
	byKind   map[string]int
	plan     []Fault
	fired    []OpRec
	log      []OpRec
	keepLog  bool
	nextID   int
	open     map[int]string
	opens    int
	closes   int
	dblClose int
	escapes  []string
	paths    int
	shuffle  *rand.Rand
}

func New(inner afero.Fs, root string) *Spy {
	return &Spy{inner: inner, root: filepath.Clean(root), byKind: map[string]int{}, open: map[int]string{}}
}

// Reset clears counters, the ledger statistics (not the open set) and installs a new plan.
func (s *Spy) Reset(plan []Fault, keepLog bool, shuffleSeed int64) {
	s.mu.Lock()
	defer s.mu.Unlock()
	s.n = 0
	s.byKind = map[string]int{}
	s.plan = plan
	s.fired = nil
	s.log = nil
	s.keepLog = keepLog
	s.escapes = nil
	s.paths = 0
	s.opens, s.closes, s.dblClose = 0, 0, 0
	s.open = map[int]string{}
	if shuffleSeed != 0 {
		s.shuffle = rand.New(rand.NewSource(shuffleSeed))
	} else {
		s.shuffle = nil
	}
}

func (s *Spy) Report() Report {
	s.mu.Lock()
	defer s.mu.Unlock()
	r := Report{Ops: s.n, ByKind: map[string]int{}, Opens: s.opens, Closes: s.closes, Paths: s.paths, DoubleClose: s.dblClose}
	for k, v := range s.byKind {
		r.ByKind[k] = v
	}
	for _, n := range s.open {
		r.Open = append(r.Open, n)
	}
	sort.Strings(r.Open)
	r.Escapes = append(r.Escapes, s.escapes...)
	r.Fired = append(r.Fired, s.fired...)
	r.Log = append(r.Log, s.log...)
	return r
}

// op registers one operation and returns the fault to apply (nil = none).
func (s *Spy) op(kind, path string) (*Fault, int) {
	s.mu.Lock()
	s.n++
	s.byKind[kind]++
	i := s.n
	ik := s.byKind[kind]
	var hit *Fault
	for k := range s.plan {
		f := &s.plan[k]
		if f.OpKind != "" && f.OpKind != kind {
			continue
		}
		idx := i
		if f.OpKind != "" {
			idx = ik
		}
		if f.Every || f.Index == idx {
			hit = f
			break
		}
	}
	if hit != nil {
		s.fired = append(s.fired, OpRec{I: i, Kind: kind, Path: path, Injected: hit.Kind})
	}
	if s.keepLog && len(s.log) < 20000 {
		r := OpRec{I: i, Kind: kind, Path: path}
		if hit != nil {
			r.Injected = hit.Kind
		}
		s.log = append(s.log, r)
	}
	s.mu.Unlock()
	if hit != nil {
		switch hit.Kind {
		case FDelay:
			time.Sleep(time.Duration(hit.DelayMs) * time.Millisecond)
			return nil, i
		case FYield:
			runtime.Gosched()
			return nil, i
		}
	}
	return hit, i
}

func (s *Spy) audit(name string) {
	c := filepath.Clean(name)
	s.mu.Lock()
	s.paths++
	if c != s.root && !strings.HasPrefix(c, s.root+string(filepath.Separator)) {
		if len(s.escapes) < 100 {
			s.escapes = append(s.escapes, c)
		}
	}
	s.mu.Unlock()
}

func faultErr(f *Fault) error {
	if f == nil {
		return nil
	}
	switch f.Kind {
	case FEIO:
		return syscall.EIO
	case FENOENT:
		return syscall.ENOENT
	}
	return nil
}

func (s *Spy) wrap(f afero.File, name string) afero.File {
	s.mu.Lock()
	s.nextID++
	id := s.nextID
	s.open[id] = name
	s.opens++
	s.mu.Unlock()
	return &File{File: f, s: s, id: id, name: name}
}

func (s *Spy) Name() string { return "spyfs" }

func (s *Spy) Create(name string) (afero.File, error) {
	s.audit(name)
	if f, _ := s.op("create", name); faultErr(f) != nil {
		return nil, &os.PathError{Op: "create", Path: name, Err: faultErr(f)}
	}
	f, err := s.inner.Create(name)
	if err != nil {
		return nil, err
	}
	return s.wrap(f, name), nil
}

func (s *Spy) Open(name string) (afero.File, error) {
	s.audit(name)
	if f, _ := s.op("open", name); faultErr(f) != nil {
		return nil, &os.PathError{Op: "open", Path: name, Err: faultErr(f)}
	}
	f, err := s.inner.Open(name)
	if err != nil {
		return nil, err
	}
	return s.wrap(f, name), nil
}

func (s *Spy) OpenFile(name string, flag int, perm os.FileMode) (afero.File, error) {
	s.audit(name)
	kind := "open"
	if flag&(os.O_WRONLY|os.O_RDWR|os.O_CREATE|os.O_TRUNC|os.O_APPEND) != 0 {
		kind = "openw"
	}
	if f, _ := s.op(kind, name); faultErr(f) != nil {
		return nil, &os.PathError{Op: "open", Path: name, Err: faultErr(f)}
	}
	f, err := s.inner.OpenFile(name, flag, perm)
	if err != nil {
		return nil, err
	}
	return s.wrap(f, name), nil
}

func (s *Spy) Mkdir(name string, perm os.FileMode) error {
	s.audit(name)
	if f, _ := s.op("mkdir", name); faultErr(f) != nil {
		return &os.PathError{Op: "mkdir", Path: name, Err: faultErr(f)}
	}
	return s.inner.Mkdir(name, perm)
}

func (s *Spy) MkdirAll(name string, perm os.FileMode) error {
	s.audit(name)
	if f, _ := s.op("mkdirall", name); faultErr(f) != nil {
		return &os.PathError{Op: "mkdir", Path: name, Err: faultErr(f)}
	}
	return s.inner.MkdirAll(name, perm)
}

func (s *Spy) Remove(name string) error {
	s.audit(name)
	if f, _ := s.op("remove", name); faultErr(f) != nil {
		return &os.PathError{Op: "remove", Path: name, Err: faultErr(f)}
	}
	return s.inner.Remove(name)
}

func (s *Spy) RemoveAll(name string) error {
	s.audit(name)
	if f, _ := s.op("removeall", name); faultErr(f) != nil {
		return &os.PathError{Op: "removeall", Path: name, Err: faultErr(f)}
	}
	return s.inner.RemoveAll(name)
}

func (s *Spy) Rename(o, n string) error {
	s.audit(o)
	s.audit(n)
	if f, _ := s.op("rename", o); faultErr(f) != nil {
		return &os.PathError{Op: "rename", Path: o, Err: faultErr(f)}
	}
	return s.inner.Rename(o, n)
}

func (s *Spy) Stat(name string) (os.FileInfo, error) {
	s.audit(name)
	if f, _ := s.op("stat", name); faultErr(f) != nil {
		return nil, &os.PathError{Op: "stat", Path: name, Err: faultErr(f)}
	}
	return s.inner.Stat(name)
}

func (s *Spy) LstatIfPossible(name string) (os.FileInfo, bool, error) {
	s.audit(name)
	if f, _ := s.op("lstat", name); faultErr(f) != nil {
		return nil, false, &os.PathError{Op: "lstat", Path: name, Err: faultErr(f)}
	}
	if l, ok := s.inner.(afero.Lstater); ok {
		return l.LstatIfPossible(name)
	}
	fi, err := s.inner.Stat(name)
	return fi, false, err
}

func (s *Spy) SymlinkIfPossible(o, n string) error {
	s.audit(n)
	if l, ok := s.inner.(afero.Linker); ok {
		return l.SymlinkIfPossible(o, n)
	}
	return &os.LinkError{Op: "symlink", Old: o, New: n, Err: afero.ErrNoSymlink}
}

func (s *Spy) ReadlinkIfPossible(n string) (string, error) {
	s.audit(n)
	if l, ok := s.inner.(afero.LinkReader); ok {
		return l.ReadlinkIfPossible(n)
	}
	return "", &os.PathError{Op: "readlink", Path: n, Err: afero.ErrNoReadlink}
}

func (s *Spy) Chmod(name string, mode os.FileMode) error {
	s.audit(name)
	s.op("chmod", name)
	return s.inner.Chmod(name, mode)
}

func (s *Spy) Chown(name string, uid, gid int) error {
	s.audit(name)
	s.op("chown", name)
	return s.inner.Chown(name, uid, gid)
}

func (s *Spy) Chtimes(name string, a, m time.Time) error {
	s.audit(name)
	s.op("chtimes", name)
	return s.inner.Chtimes(name, a, m)
}

// File wraps an afero.File.
type File struct {
	afero.File
	s      *Spy
	id     int
	name   string
	closed bool
}

func (f *File) Close() error {
	flt, _ := f.s.op("close", f.name)
	f.s.mu.Lock()
	if _, ok := f.s.open[f.id]; ok {
		delete(f.s.open, f.id)
		f.s.closes++
	} else {
		f.s.dblClose++
	}
	f.s.mu.Unlock()
	err := f.File.Close()
	if e := faultErr(flt); e != nil {
		return &os.PathError{Op: "close", Path: f.name, Err: e}
	}
	return err
}

func (f *File) Read(p []byte) (int, error) {
	flt, _ := f.s.op("read", f.name)
	if e := faultErr(flt); e != nil {
		return 0, &os.PathError{Op: "read", Path: f.name, Err: e}
	}
	if flt != nil && flt.Kind == FShort && len(p) > 1 {
		k := flt.K
		if k < 1 {
			k = 1
		}
		if k > len(p)-1 {
			k = len(p) - 1
		}
		return f.File.Read(p[:k])
	}
	return f.File.Read(p)
}

func (f *File) ReadAt(p []byte, off int64) (int, error) {
	flt, _ := f.s.op("readat", f.name)
	if e := faultErr(flt); e != nil {
		return 0, &os.PathError{Op: "read", Path: f.name, Err: e}
	}
	if flt != nil && flt.Kind == FShortQuiet && len(p) >= 2048 {
		k := min(max(flt.K, 1), len(p)-1)
		return f.File.ReadAt(p[:k], off)
	}
	// io.ReaderAt must return a non-nil error when n < len(p): the legal short ReadAt is the one of a
	// file that has become shorter — k bytes and io.EOF, as the OS reports it
	if flt != nil && flt.Kind == FShort && len(p) > 1 {
		k := flt.K
		if k < 1 {
			k = 1
		}
		if k > len(p)-1 {
			k = len(p) - 1
		}
		n, err := f.File.ReadAt(p[:k], off)
		if err == nil {
			err = io.EOF
		}
		return n, err
	}
	return f.File.ReadAt(p, off)
}

func (f *File) Seek(off int64, whence int) (int64, error) {
	flt, _ := f.s.op("seek", f.name)
	if e := faultErr(flt); e != nil {
		return 0, &os.PathError{Op: "seek", Path: f.name, Err: e}
	}
	return f.File.Seek(off, whence)
}

func (f *File) Write(p []byte) (int, error) {
	flt, _ := f.s.op("write", f.name)
	if e := faultErr(flt); e != nil {
		return 0, &os.PathError{Op: "write", Path: f.name, Err: e}
	}
	return f.File.Write(p)
}

func (f *File) WriteAt(p []byte, off int64) (int, error) {
	flt, _ := f.s.op("writeat", f.name)
	if e := faultErr(flt); e != nil {
		return 0, &os.PathError{Op: "write", Path: f.name, Err: e}
	}
	return f.File.WriteAt(p, off)
}

func (f *File) WriteString(str string) (int, error) { return f.Write([]byte(str)) }

func (f *File) Stat() (os.FileInfo, error) {
	flt, _ := f.s.op("fstat", f.name)
	if e := faultErr(flt); e != nil {
		return nil, &os.PathError{Op: "stat", Path: f.name, Err: e}
	}
	return f.File.Stat()
}

func (f *File) Readdir(n int) ([]os.FileInfo, error) {
	flt, _ := f.s.op("readdir", f.name)
	if e := faultErr(flt); e != nil {
		return nil, &os.PathError{Op: "readdir", Path: f.name, Err: e}
	}
	r, err := f.File.Readdir(n)
	f.s.mu.Lock()
	if f.s.shuffle != nil && n <= 0 {
		f.s.shuffle.Shuffle(len(r), func(i, j int) { r[i], r[j] = r[j], r[i] })
	}
	f.s.mu.Unlock()
	return r, err
}

func (f *File) Readdirnames(n int) ([]string, error) {
	flt, _ := f.s.op("readdirnames", f.name)
	if e := faultErr(flt); e != nil {
		return nil, &os.PathError{Op: "readdirnames", Path: f.name, Err: e}
	}
	r, err := f.File.Readdirnames(n)
	f.s.mu.Lock()
	if f.s.shuffle != nil && n <= 0 {
		f.s.shuffle.Shuffle(len(r), func(i, j int) { r[i], r[j] = r[j], r[i] })
	}
	f.s.mu.Unlock()
	return r, err
}

func (f *File) ReadDir(n int) ([]iofs.DirEntry, error) {
	f.s.op("readdir", f.name)
	if rdf, ok := f.File.(iofs.ReadDirFile); ok {
		return rdf.ReadDir(n)
	}
	return nil, fmt.Errorf("ReadDir unsupported")
}

func (f *File) Truncate(sz int64) error {
	flt, _ := f.s.op("truncate", f.name)
	if e := faultErr(flt); e != nil {
		return &os.PathError{Op: "truncate", Path: f.name, Err: e}
	}
	return f.File.Truncate(sz)
}

func (f *File) Sync() error { f.s.op("sync", f.name); return f.File.Sync() }

var (
	_ afero.Fs      = (*Spy)(nil)
	_ afero.Lstater = (*Spy)(nil)
	_ afero.File    = (*File)(nil)
)
