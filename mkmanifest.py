#!/usr/bin/env python3
"""Regenerates /verif/MANIFEST.json from the table below (run after adding/removing a check)."""
import json, os, subprocess

HERE = os.path.dirname(os.path.abspath(__file__))

# id -> (level, technique, level text, level note, design ref)
CHECKS = {
 "C01": ("exploration", "runtime monitoring: spy-fs path audit + strace syscall path audit + sentinel-tree snapshots + wire reference model (clamp-or-nonexistent) + A/B differential on outside changes",
         "Real server (library wiring and the CLI binary) driven with a path grammar over all 8 path opcodes; every OS-level path operand observed must lie inside the root, the sentinel tree around the root must be bit-identical afterwards, and every answer to an escaping path must equal the clamped or the non-existent answer. Held on the executions listed in the evidence.",
         "Trusted: the harness path grammar, strace, ext4; trees contain no symlinks (outside the claim).", "4/C01"),
 "C02": ("exploration", "runtime monitoring: wire-level reference comparator (announced size/mtime, READ count + bytes, READCRIT bytes / prefix-then-EOF) over plain files, generated images and decrypted views",
         "Every response byte of open/read/read-critical sessions against the real server is compared with an independent copy of the object (disk bytes, ISO layout map, reference AES) for boundary and random (offset,limit) pairs and several transfer-buffer sizes.",
         "Trusted: harness wire codec, reference decryptor (anchored on openssl), ISO layout reader; limits < 2^31 and <= 64 MiB per READ.", "4/C02"),
 "C03": ("exploration", "runtime monitoring: sequential protocol reference model with admissible sets checked online against lock-step sessions; bounded-exhaustive sequences + scripted cross-state histories + random sessions + truncation matrix; differential re-delivery (pipelined / byte-wise); CPU-progress-aware watchdog",
         "Bounded-exhaustive over all request sequences up to length k of a 38-symbol alphabet in both write modes, plus random sessions up to 60 requests and every truncation point of every alphabet request; each response byte must be explained by the model, the stream must stay in sync (fence request), and the same session delivered pipelined or byte-by-byte must yield the same stream.",
         "Trusted: the harness codec and model (Appendix B of DESIGN.md); watchdog 10 s with liveness probe decides hangs.", "4/C03"),
 "C04": ("exploration", "runtime monitoring: process monitor (exit status, panic/fatal traces), liveness probe, victim connection and a neither-answered-nor-closed verdict (tied to file-system activity) under hostile streams, read geometries, hostile on-disk content (incl. named pipes, sparse files with huge declared sizes), descriptor exhaustion; CLI tools exit status; image creation probed in a memory-capped child",
         "Random, mutated and structure-aware hostile sessions and hostile on-disk inputs against worker processes hosting the real server (memory-capped) and against the real CLI tools; the process must survive, keep serving a fresh probe and an in-flight victim transfer; tools must exit by error, not crash.",
         "Assumes an 8 GiB address-space cap stands in for a small machine; trusted: process monitor.", "4/C04"),
 "C05": ("exploration", "runtime monitoring: wire reference model for mutating opcodes + full root snapshot diff + disk read-back of uploads; direct library calls on view objects",
         "Sessions mixing all opcodes in both write modes; with writing off the root snapshot must be unchanged and every mutating request answered -1; with writing on the on-disk result must equal the uploaded payloads / named effect and answers must be truthful; view objects must refuse writes.",
         "Trusted: harness snapshots (sha256 of content, mode, size), model.", "4/C05"),
 "C06": ("exploration", "runtime monitoring: wire reference comparator of listings (multiset), stat and dir-size against the harness's own lstat/stat walk",
         "Generated directory shapes incl. symlinks, long and non-ASCII names and thousands of entries; all three listing commands and their interleavings, STAT and DIRSIZE of every path.",
         "Trusted: harness walk via raw syscalls; atime compared with tolerance.", "4/C06"),
 "C07": ("exploration", "runtime monitoring: independent tolerant ISO9660/Joliet reader decodes every produced image (library, network, make-iso) and compares the file multiset with the source tree; where installed, libarchive bsdtar as a second third-party decoder (Joliet extraction byte-compared, primary listing)",
         "Random trees (depth, fan-out, boundary sizes, empty files/dirs, sparse >4 GiB files, shuffled readdir order) in both modes; both hierarchies must contain exactly the source tree with exact sizes and bytes.",
         "Trusted: the harness ISO reader anchored on a third-party image shipped in the repository's testdata.", "4/C07"),
 "C08": ("exploration", "runtime monitoring: strict structural validator (only the invariants the statement lists, V01-V11) over every produced image",
         "Same images as C07 plus hostile names; each listed invariant is checked on every image for which creation succeeds.",
         "Trusted: the validator (anchored on the third-party image for the generic subset).", "4/C08"),
 "C09": ("exploration", "runtime monitoring: call-level monitor of Read/Seek/ReadAt against the canonical sequential image and a cursor model; exhaustive small scope + random op sequences",
         "All trees of <=k boundary-sized files x all offset/length pairs from structural boundaries +-1 (exhaustive), plus random operation sequences; each call's (n, err, bytes) checked.",
         "Trusted: the sequential image as canonical (its content is C07/C08's business).", "4/C09"),
 "C10": ("exploration", "runtime monitoring: byte comparator of the decrypting view against an independent AES-CBC reference for random keys, region tables and access patterns incl. injected short reads",
         "Random (key, region table, content) triples, Read/Seek/ReadAt sequences with unaligned offsets, short reads of the underlying file at arbitrary cuts, both header-clearing settings, via library, network and decrypt tool.",
         "Trusted: refcrypt (self-checked against the openssl CLI); region semantics: table entries are plain regions with inclusive end.", "4/C10"),
 "C11": ("exploration", "runtime monitoring: decision-table oracle over the full finite product of layouts, bytes read through FS.Open and the server compared with the selected transformation",
         "The finite product dir-name case x extension case x nesting x key situation x watermark x length is enumerated completely through the library; a sample/all through the network.",
         "Trusted: decision table transcribed from the statement; refcrypt.", "4/C11"),
 "C12": ("exploration", "Go race detector on the real server and binary under concurrent sessions + per-client wire reference model (non-interference) + overlap counter",
         "2..64 concurrent oracle-checked sessions over shared data, the same generated image and private writable subtrees under several GOMAXPROCS, with churn and injected yields; zero race reports and every client stream equal to its sequential prediction.",
         "Trusted: Go race detector (reports only races that happen in the run); overlap floor enforced.", "4/C12"),
 "C13": ("fault_enumeration", "fault enumeration at the file-system seam (EIO / ENOENT / short read / failing close at every operation index, cold-start runs, healthy replay) with handle ledger, goroutine profile (progress-aware wait) and wire prefix rule",
         "For each scenario a recording run counts the K file-system operations, then one run per index with an injected fault; ledger must balance, serveConn goroutines return to baseline, responses must be fault-free, failure code or correct prefix + EOF, and a fresh connection must be served.",
         "Trusted: spyfs ledger (single mutex), goroutine profile text; single faults exhaustive per scenario, pairs sampled.", "4/C13"),
 "C14": ("exploration", "runtime differential monitor: ParseIPRange/Contains against an independent netip/big reference over generated specs and probes; exhaustive membership for small blocks",
         "Every prefix length, all contiguous and many non-contiguous masks, ranges, bad inputs; probes at borders; exhaustive over all addresses of small blocks.",
         "Trusted: refip written from the statement on net/netip + math/big.", "4/C14"),
 "C15": ("exploration", "runtime monitoring: offline checker over a recorded client event log (max overlap of certainly-served intervals, logical-step silence of waiting clients, recovery) on library listeners and the binary",
         "Clients bound to many 127/8 source addresses against whitelists; N in 1..8 with random arrival/departure orders incl. rejected arrivals; at most N served at once, outsiders get no byte and are closed, capacity recovers.",
         "Trusted: event log from one monotonic clock; no wall-clock verdicts except generous watchdogs (inconclusive).", "4/C15"),
 "C16": ("exploration", "runtime monitoring in virtual time: real server inside a testing/synctest bubble (fake clock) with exact cut-instant oracle; real binary with --read-timeout as plumbing check",
         "Silent / stalled-at-every-byte / spaced-request scenarios on the fake clock with zero tolerance; ledger and goroutines after the cut; binary idle cut and active survival with wide tolerances.",
         "Trusted: go1.26.8 testing/synctest semantics; net.Pipe deadlines.", "4/C16"),
 "C17": ("exploration", "runtime monitoring: wire reference comparator of READCD against slices of harness-synthesised raw CD images for all 7 sector sizes and both signatures",
         "Images for each sector size x signature x size class around the detection window; (start,count) incl. count 0 and ranges crossing EOF; re-opening images of different sector size on one connection.",
         "Trusted: harness image synthesiser and sector-size rule transcribed from the statement.", "4/C17"),
 "C18": ("exploration", "runtime monitoring: masked byte diff of images of one unchanged tree across successive, cross-connection and concurrent opens (race build), library vs network vs make-iso",
         "For random trees, several opens of the same unchanged directory must give equal size and equal bytes outside the volume timestamps and PS3 sector-1 filler.",
         "Trusted: mask = exactly the fields the statement exempts.", "4/C18"),
 "C19": ("exploration", "runtime monitoring: behaviour probes of the real binary per (setting, channel) and flag-vs-channel conflicts; exit status for malformed values",
         "Each setting through each channel must show its observable effect; a flag must win over env/ini; malformed security-relevant values must stop start-up.",
         "Trusted: probes (marker files, connect, MKDIR result, log format).", "4/C19"),
 "C20": ("exploration", "runtime monitoring: three-way byte comparison (tool output, server view, reference) + snapshot of the output location before/after each tool invocation + strace-timed adversary that creates the output between the tool's lookup and its open",
         "make-iso output equals the served image (masked); decrypt output equals the reference plaintext with cleared header, to file and stdout; served back unchanged; existing outputs never modified.",
         "Trusted: C18 mask, refcrypt, snapshots.", "4/C20"),
}

IMPLEMENTED = [l.strip() for l in open(os.path.join(HERE, "implemented.txt")) if l.strip() and not l.startswith("#")]
NA_REASON = {}

def main():
    hooks_commits = subprocess.run(["git", "-C", "/repo", "log", "--format=%h", "--grep=^verif:"], capture_output=True, text=True).stdout.split()
    checks = []
    for pid in sorted(CHECKS):
        if pid not in IMPLEMENTED:
            continue
        level, tech, text, note, ref = CHECKS[pid]
        checks.append({
            "property_id": pid,
            "quick_cmd": f"./check {pid} quick",
            "thorough_cmd": f"./check {pid} thorough",
            "evidence_file": f"/verif/evidence/{pid}.json",
            "replay_cmd_template": f"./check {pid} quick --replay {{path}}",
            "engine": "vh",
            "level_claimed": {"category": level, "text": text, "design_ref": "DESIGN.md section " + ref},
            "level_note": note,
            "technique": tech,
        })
    na = [{"property_id": pid, "reason": NA_REASON.get(pid, "check not implemented yet in this snapshot of /verif (work in progress; the design in DESIGN.md section 4 applies)")}
          for pid in sorted(CHECKS) if pid not in IMPLEMENTED]
    m = {
        "version": 1,
        "setup_cmd": "./setup.sh",
        "hooks": {
            "guard": "verif",
            "enable": "go build -tags verif (the harness module /verif/harness replaces github.com/xakep666/ps3netsrv-go with /repo and imports pkg/verifhook)",
            "baseline_off_cmd": "cd /repo && GOFLAGS=-mod=mod GOPROXY=off GOSUMDB=off GOTOOLCHAIN=local go test -vet=off -count=1 -timeout 25m ./...",
            "source_commits": hooks_commits,
            "add_only": True,
        },
        "engines": [{"name": "vh", "path": "/verif/harness", "serves_properties": IMPLEMENTED,
                     "kind_free_text": "Go harness: workload drivers, worker process hosting the real server (spy file system, spy listener), wire reference model, ISO reader/validator, reference AES, reference IP ranges, evidence writer"}],
        "checks": checks,
        "notes": "Technique family: runtime monitoring and sanitizers. Every check rebuilds from /repo's working tree (./check). Known findings: /verif/known_findings.json.",
        "not_applicable": na,
    }
    json.dump(m, open(os.path.join(HERE, "MANIFEST.json"), "w"), indent=1)
    print("checks:", [c["property_id"] for c in checks], "na:", len(na))

main()
