//go:build verif

// Package vtime checks property C16 (read timeout) on the fake clock of testing/synctest: the REAL
// server (pkg/server through pkg/verifhook) runs inside a bubble over net.Pipe connections, whose
// deadlines fire on the bubble's clock, so the oracle is exact (never early; late by at most cutGrace): a connection that
// does not complete its next request is closed at exactly t0+T, where t0 is the instant the server
// began waiting for that request; a connection that completes requests more often than T is never
// closed. Violations go to the JSON report (env VTIME_REPORT); the Go test fails only on harness
// trouble, so that a crash/deadlock of the code under test is distinguishable from a finding.
package vtime

import (
	"encoding/binary"
	"encoding/json"
	"errors"
	"fmt"
	"io"
	"log/slog"
	"math/rand"
	"net"
	"os"
	"sort"
	"strconv"
	"sync"
	"sync/atomic"
	"testing"
	"testing/synctest"
	"time"

	"github.com/spf13/afero"

	"github.com/xakep666/ps3netsrv-go/pkg/verifhook"
)

// ---------------------------------------------------------------- wire (re-encoded by hand)

const (
	opOpen    = 0x1224
	opOpenDir = 0x122a
	opStat    = 0x1230
	opRead    = 0x1227
	opCrit    = 0x1225
	opReadCD  = 0x1226
	opCreate  = 0x1228
	opWrite   = 0x1229

	szOpen    = 16
	szOpenDir = 4
	szStat    = 33
)

func encode(op uint16, path string) []byte {
	b := make([]byte, 16, 16+len(path))
	binary.BigEndian.PutUint16(b[0:], op)
	binary.BigEndian.PutUint16(b[2:], uint16(len(path)))
	return append(b, path...)
}

func encodeReadCD(start, count uint32) []byte {
	b := make([]byte, 16)
	binary.BigEndian.PutUint16(b[0:], opReadCD)
	binary.BigEndian.PutUint32(b[4:], start)
	binary.BigEndian.PutUint32(b[8:], count)
	return b
}

func encodeRead(op uint16, n uint32, off uint64) []byte {
	b := make([]byte, 16)
	binary.BigEndian.PutUint16(b[0:], op)
	binary.BigEndian.PutUint32(b[4:], n)
	binary.BigEndian.PutUint64(b[8:], off)
	return b
}

// ---------------------------------------------------------------- ledger file system

type ledger struct {
	opens, closes, doubleCloses atomic.Int64
}

type countFs struct {
	afero.Fs
	led *ledger
}

type countFile struct {
	afero.File
	led    *ledger
	closed atomic.Bool
}

func (f *countFile) Close() error {
	if f.closed.Swap(true) {
		f.led.doubleCloses.Add(1)
	} else {
		f.led.closes.Add(1)
	}
	return f.File.Close()
}

func (c *countFs) wrap(f afero.File, err error) (afero.File, error) {
	if err != nil {
		return f, err
	}
	c.led.opens.Add(1)
	return &countFile{File: f, led: c.led}, nil
}

func (c *countFs) Open(name string) (afero.File, error) { return c.wrap(c.Fs.Open(name)) }
func (c *countFs) OpenFile(name string, flag int, perm os.FileMode) (afero.File, error) {
	return c.wrap(c.Fs.OpenFile(name, flag, perm))
}
func (c *countFs) Create(name string) (afero.File, error) { return c.wrap(c.Fs.Create(name)) }

// ---------------------------------------------------------------- in-memory listener

type memAddr struct{}

func (memAddr) Network() string { return "mem" }
func (memAddr) String() string  { return "mem" }

type memListener struct {
	ch   chan net.Conn
	done chan struct{}
	once sync.Once
}

func newMemListener() *memListener {
	return &memListener{ch: make(chan net.Conn), done: make(chan struct{})}
}

func (l *memListener) Accept() (net.Conn, error) {
	select {
	case c := <-l.ch:
		return c, nil
	case <-l.done:
		return nil, net.ErrClosed
	}
}
func (l *memListener) Close() error   { l.once.Do(func() { close(l.done) }); return nil }
func (l *memListener) Addr() net.Addr { return memAddr{} }

// ---------------------------------------------------------------- scenarios

type partial struct {
	AtNs int64 `json:"at_ns"` // offset from t0
	N    int   `json:"n"`     // bytes written at that instant
}

type scenario struct {
	ID     int       `json:"id"`
	Kind   string    `json:"kind"`
	TNs    int64     `json:"T_ns"`
	T      string    `json:"T"`
	Held   bool      `json:"held,omitempty"`    // OPENDIR "/" and OPEN "/f" first
	Reads  bool      `json:"reads,omitempty"`   // then READ, READCRIT on /f and OPENDIR of the regular file /f (data-transfer and refused-open history)
	K      int       `json:"k,omitempty"`       // complete STAT requests before the silence / stall
	GapsNs []int64   `json:"gaps_ns,omitempty"` // client think time before each of the k requests (< T)
	Pos    int       `json:"pos,omitempty"`     // bytes of the stalled request that are delivered (0 = none)
	Writes []partial `json:"writes,omitempty"`  // how the Pos bytes are delivered
	DNs    int64     `json:"d_ns,omitempty"`    // active: spacing of requests
	N      int       `json:"n,omitempty"`       // active: number of requests
	Path   string    `json:"path,omitempty"`    // path of the STAT requests
	Idle   string    `json:"idle,omitempty"`    // disabled: length of the silence
	Mask   int       `json:"held_mask,omitempty"` // with Held: which handles (1 directory, 2 file, 4 write file; 0 = directory + file)
	Ann    uint32    `json:"announced,omitempty"` // stalled inside the payload of a WRITE that announced this many bytes
	Op     string    `json:"op,omitempty"`      // active: what the requests are (default stat; crit, cd, read, mix need Held)
	LateNs int64     `json:"late_ns,omitempty"` // active: the server goroutine is held this long between reading a command and reading its path (busy scheduler)
}

type violation struct {
	Rule     string    `json:"rule"`
	Feature  string    `json:"feature"`
	Detail   string    `json:"detail"`
	Scenario *scenario `json:"scenario"`
}

type sample struct {
	Scenario  *scenario `json:"scenario"`
	T0Ns      int64     `json:"t0_ns"` // offsets from the start of the bubble
	ExpectNs  int64     `json:"expected_cut_ns"`
	CutNs     int64     `json:"observed_cut_ns"` // -1: not cut
	Answered  int       `json:"answered"`
	Opens     int64     `json:"opens"`
	Closes    int64     `json:"closes_after_cut"`
	Violation string    `json:"violation,omitempty"`
}

type report struct {
	Seed             int64          `json:"seed"`
	Tier             string         `json:"tier"`
	Scenarios        int            `json:"scenarios"`
	ByKind           map[string]int `json:"by_kind"`
	VirtualSeconds   float64        `json:"virtual_seconds"`
	RequestsAnswered int64          `json:"requests_answered"`
	CutsObserved     int64          `json:"cuts_observed"`
	HeldHandlesCut   int64          `json:"handles_held_at_cut"`
	ViolationsTotal  int            `json:"violations_total"`
	ViolationCounts  map[string]int `json:"violation_counts"`
	Violations       []violation    `json:"violations"`
	Samples          []sample       `json:"samples"`
	WallSeconds      float64        `json:"wall_seconds"`
}

const statPathLen = 20
const existingPath = "/dir/abcdefghijklmno" // 20 bytes, exists

func randPath(r *rand.Rand) string {
	if r.Intn(3) == 0 {
		return existingPath
	}
	const al = "abcdefghijklmnopqrstuvwxyz0123456789._-"
	b := make([]byte, statPathLen)
	b[0] = '/'
	for i := 1; i < statPathLen; i++ {
		b[i] = al[r.Intn(len(al))]
	}
	return string(b)
}

func randGaps(r *rand.Rand, k int, T time.Duration) []int64 {
	g := make([]int64, k)
	for i := range g {
		switch r.Intn(6) {
		case 0:
			g[i] = 0
		case 1:
			g[i] = int64(T) - 1
		default:
			g[i] = r.Int63n(int64(T))
		}
	}
	return g
}

// randWrites splits pos bytes into 1..4 chunks delivered at sorted random instants in [0,T).
func randWrites(r *rand.Rand, pos int, T time.Duration) []partial {
	c := 1 + r.Intn(min(pos, 4))
	cuts := map[int]bool{}
	for len(cuts) < c-1 {
		cuts[1+r.Intn(pos-1)] = true
	}
	var bounds []int
	for b := range cuts {
		bounds = append(bounds, b)
	}
	bounds = append(bounds, pos)
	sort.Ints(bounds)
	at := make([]int64, c)
	for i := range at {
		at[i] = r.Int63n(int64(T))
	}
	sort.Slice(at, func(i, j int) bool { return at[i] < at[j] })
	if r.Intn(8) == 0 {
		at[c-1] = int64(T) - 1 // last partial byte one nanosecond before the deadline
	}
	if r.Intn(8) == 0 {
		at[0] = 0
	}
	sort.Slice(at, func(i, j int) bool { return at[i] < at[j] })
	w := make([]partial, c)
	prev := 0
	for i := range w {
		w[i] = partial{AtNs: at[i], N: bounds[i] - prev}
		prev = bounds[i]
	}
	return w
}

func stallKind(pos int) string {
	if pos <= 15 {
		return "stall-cmd"
	}
	return "stall-path"
}

var timeouts = []time.Duration{100 * time.Millisecond, time.Second, 10 * time.Minute}

func genScenarios(r *rand.Rand, thorough bool) []*scenario {
	pick := func(q, t int) int {
		if thorough {
			return t
		}
		return q
	}
	var out []*scenario
	add := func(s *scenario, T time.Duration) {
		s.ID = len(out)
		s.TNs, s.T = int64(T), T.String()
		out = append(out, s)
	}
	for _, T := range timeouts {
		// (1) silent after connect
		for i := 0; i < pick(10, 100); i++ {
			add(&scenario{Kind: "silent-connect"}, T)
		}
		// (2) silent after k complete requests
		for _, k := range []int{1, 5} {
			for i := 0; i < pick(50, 500); i++ {
				add(&scenario{Kind: fmt.Sprintf("silent-after-%d", k), K: k, GapsNs: randGaps(r, k, T), Path: randPath(r)}, T)
			}
		}
		// (3) stalled after every byte position of the command (1..15) and of the path (16..35)
		for pos := 1; pos <= 16+statPathLen-1; pos++ {
			for i := 0; i < pick(22, 230); i++ {
				k := []int{0, 0, 1, 3}[r.Intn(4)]
				add(&scenario{Kind: stallKind(pos), K: k, GapsNs: randGaps(r, k, T), Pos: pos, Writes: randWrites(r, pos, T), Path: randPath(r)}, T)
			}
		}
		// (3c) stalled inside the payload of a WRITE (any announced length: the request is incomplete all the same)
		for _, ann := range []uint32{100, 65536, 1 << 20, 1<<32 - 1} {
			for i := 0; i < pick(4, 20); i++ {
				k := []int{0, 1}[r.Intn(2)]
				pos := 16 + r.Intn(64)
				add(&scenario{Kind: fmt.Sprintf("stall-write-payload-%d", ann), Ann: ann, K: k, GapsNs: randGaps(r, k, T), Pos: pos, Writes: randWrites(r, pos, T), Path: randPath(r)}, T)
			}
		}
		// (3b) trickle: one byte every 0.3T, in the command or in the path
		for i := 0; i < pick(20, 200); i++ {
			step := int64(T) * 3 / 10
			phase := r.Int63n(step)
			if i == 0 {
				phase = step - 1
			}
			k := []int{0, 1, 3}[r.Intn(3)]
			s := &scenario{K: k, GapsNs: randGaps(r, k, T), Path: randPath(r)}
			if i%2 == 0 {
				s.Kind = "trickle-cmd"
			} else {
				s.Kind = "trickle-path"
				s.Writes = append(s.Writes, partial{AtNs: 0, N: 16})
				s.Pos = 16
			}
			for at := phase; at < int64(T); at += step {
				s.Writes = append(s.Writes, partial{AtNs: at, N: 1})
				s.Pos++
			}
			add(s, T)
		}
		// (4) active connection, then silent
		for _, pm := range []int64{100, 500, 800, 990} {
			n := pick(2000, 10000)
			if T > time.Second {
				n = pick(300, 1000)
			}
			for i := 0; i < pick(2, 5); i++ {
				nn := n
				if i > 0 {
					nn = n/2 + r.Intn(n/2)
				}
				sc := &scenario{Kind: fmt.Sprintf("active-0.%03dT", pm), DNs: int64(T) / 1000 * pm, N: nn, Path: randPath(r)}
				if i%2 == 1 {
					sc.Kind += "-after-reads"
					sc.Held, sc.Reads = true, true
				}
				add(sc, T)
			}
		}
		// (4b) active on a busy server: every request is complete in the server's hands at d < T, but the
		// goroutine is scheduled late between the command header and the path (d + late > T)
		for _, pl := range [][2]int64{{800, 300}, {500, 600}, {990, 20}, {100, 950}} {
			for i := 0; i < pick(2, 6); i++ {
				n := pick(40, 400)
				sc := &scenario{Kind: fmt.Sprintf("active-0.%03dT-server-late-0.%03dT", pl[0], pl[1]), DNs: int64(T) / 1000 * pl[0], LateNs: int64(T) / 1000 * pl[1], N: n/2 + r.Intn(n/2), Path: randPath(r)}
				if i%2 == 1 {
					sc.Held, sc.Reads = true, true
				}
				add(sc, T)
			}
		}
		// (4c) active connection made of reads of the open file (what a console playing an image sends:
		// nothing but critical reads, for hours), then silent
		for _, op := range []string{"crit", "cd", "read", "mix"} {
			for _, pm := range []int64{500, 990} {
				n := pick(300, 3000)
				if T > time.Second {
					n = pick(100, 500)
				}
				add(&scenario{Kind: fmt.Sprintf("active-%s-0.%03dT", op, pm), Op: op, DNs: int64(T) / 1000 * pm, N: n/2 + r.Intn(n/2), Held: true, Reads: pm == 990, Path: randPath(r)}, T)
			}
		}
		// (5) open file and open directory held when the cut happens
		for i := 0; i < pick(50, 500); i++ {
			k := r.Intn(4)
			s := &scenario{Kind: "held-silent", Held: true, Mask: []int{3, 1, 2, 4, 5, 6, 7}[i%7], Reads: i%4 >= 2, K: k, GapsNs: randGaps(r, k, T), Path: randPath(r)}
			if i%2 == 1 {
				s.Kind = "held-stall"
				s.Pos = 1 + r.Intn(16+statPathLen-1)
				s.Writes = randWrites(r, s.Pos, T)
			}
			add(s, T)
		}
	}
	// (6) timeout disabled
	for i := 0; i < pick(20, 200); i++ {
		s := &scenario{Kind: "disabled-silent", Idle: "24h0m0s", K: r.Intn(3), Path: randPath(r), Held: i%4 == 3}
		s.GapsNs = randGaps(r, s.K, time.Hour)
		if i%2 == 1 {
			s.Kind = "disabled-stall"
			s.Pos = 1 + r.Intn(16+statPathLen-1)
		}
		add(s, 0)
	}
	return out
}

// ---------------------------------------------------------------- running one scenario in a bubble

type readRes struct {
	at  time.Time
	n   int
	err error
}

type outcome struct {
	viol      []violation
	answered  int
	cuts      int
	heldAtCut int64
	virtual   time.Duration
	smp       sample
	trouble   []string // harness trouble (fails the test)
}

type runner struct {
	sc    *scenario
	T     time.Duration
	epoch time.Time
	cli   net.Conn
	led   *ledger
	out   *outcome
}

func (x *runner) violate(rule, format string, a ...any) {
	d := fmt.Sprintf(format, a...)
	x.out.viol = append(x.out.viol, violation{Rule: rule, Feature: x.sc.Kind, Detail: d, Scenario: x.sc})
	if x.out.smp.Violation == "" {
		x.out.smp.Violation = rule + ": " + d
	}
}

func (x *runner) rel(t time.Time) time.Duration { return t.Sub(x.epoch) }

func sleepUntil(t time.Time) {
	if d := time.Until(t); d > 0 {
		time.Sleep(d)
	}
}

func isClosed(err error) bool {
	return errors.Is(err, io.EOF) || errors.Is(err, io.ErrClosedPipe) || errors.Is(err, io.ErrUnexpectedEOF)
}

// request sends one complete request and reads its fixed-size response.
// stage: "" ok, "write"/"read" = where it failed.
func (x *runner) request(req []byte, respLen int) (resp []byte, stage string, err error) {
	if _, err = x.cli.Write(req); err != nil {
		return nil, "write", err
	}
	resp = make([]byte, respLen)
	n, err := io.ReadFull(x.cli, resp)
	if err != nil {
		return resp[:n], "read", err
	}
	x.out.answered++
	return resp, "", nil
}

// failedRequest classifies a request that was not answered on a connection that had the right to live.
func (x *runner) failedRequest(rule string, what string, stage string, got int, err error, sinceLast time.Duration) {
	if isClosed(err) {
		x.violate(rule, "%s: connection found closed by the server at %s of the request (%d response bytes), %v after the previous response (T=%v, bubble time %v): %v",
			what, stage, got, sinceLast, x.T, x.rel(time.Now()), err)
		return
	}
	x.violate("no-answer", "%s: %s failed after %d response bytes, %v after the previous response (T=%v): %v", what, stage, got, sinceLast, x.T, err)
}

// awaitCut is the oracle of the non-trivial side: the server started to wait for a request at t0;
// the client delivers only the given partial writes of req (possibly none) and the connection must
// be observed closed at exactly t0+T, with every file handle of the connection released.
// cutGrace is how long after t0+T the close may be observed and still count as "cut after T": a
// twentieth of T, at most 20 ms (virtual time: nothing but the server's own decisions can delay it).
func cutGrace(T time.Duration) time.Duration { return min(T/20, 20*time.Millisecond) }

func (x *runner) awaitCut(t0 time.Time, req []byte, writes []partial) {
	T := x.T
	want := t0.Add(T)
	x.out.smp.T0Ns, x.out.smp.ExpectNs, x.out.smp.CutNs = int64(x.rel(t0)), int64(x.rel(want)), -1
	resCh := make(chan readRes, 1)
	go func() {
		var b [64]byte
		n, err := x.cli.Read(b[:])
		resCh <- readRes{time.Now(), n, err}
	}()
	opensBefore := x.led.opens.Load() - x.led.closes.Load()
	judge := func(r readRes, delivered int) {
		x.out.smp.CutNs = int64(x.rel(r.at))
		switch {
		case r.n > 0:
			x.violate("unexpected-bytes", "server sent %d bytes although only %d of %d request bytes were delivered", r.n, delivered, len(req))
		case !isClosed(r.err):
			x.violate("cut-late", "client read ended with %v at t0+%v instead of a close at t0+T (T=%v)", r.err, r.at.Sub(t0), T)
		case r.at.Before(want):
			x.violate("cut-early", "connection closed at t0+%v, %v before t0+T (T=%v, t0=%v after start, %d/%d request bytes delivered)",
				r.at.Sub(t0), want.Sub(r.at), T, x.rel(t0), delivered, len(req))
		case r.at.After(want.Add(cutGrace(T))):
			x.violate("cut-late", "connection closed at t0+%v, %v after t0+T (T=%v, t0=%v after start, %d/%d request bytes delivered)",
				r.at.Sub(t0), r.at.Sub(want), T, x.rel(t0), delivered, len(req))
		default:
			x.out.cuts++
			x.out.heldAtCut += opensBefore
		}
		// resources of the connection are released once it is cut
		synctest.Wait()
		o, c := x.led.opens.Load(), x.led.closes.Load()
		x.out.smp.Opens, x.out.smp.Closes = o, c
		if o != c {
			x.violate("leak", "after the cut at t0+%v: %d files opened, %d closed (handles held before the cut: %d)", r.at.Sub(t0), o, c, opensBefore)
		}
	}
	off := 0
	for _, w := range writes {
		sleepUntil(t0.Add(time.Duration(w.AtNs)))
		select {
		case r := <-resCh:
			judge(r, off)
			return
		default:
		}
		if _, err := x.cli.Write(req[off : off+w.N]); err != nil {
			synctest.Wait()
			select {
			case r := <-resCh:
				judge(r, off)
			default:
				x.violate("cut-early", "partial write of %d bytes at t0+%v failed (%v) but the client read did not see a close", w.N, time.Duration(w.AtNs), err)
			}
			return
		}
		off += w.N
	}
	sleepUntil(want)
	synctest.Wait()
	select {
	case r := <-resCh:
		judge(r, off)
		return
	default:
	}
	// the statement says when the connection is due, not how many instructions the closing may take: a
	// server that re-checks for bytes which arrived in time before it gives up is on time as well
	sleepUntil(want.Add(cutGrace(T)))
	synctest.Wait()
	select {
	case r := <-resCh:
		judge(r, off)
		return
	default:
	}
	// still open after t0+T (+grace): how late?
	sleepUntil(t0.Add(3 * T))
	synctest.Wait()
	select {
	case r := <-resCh:
		x.out.smp.CutNs = int64(x.rel(r.at))
		x.violate("cut-late", "connection still open at t0+T; closed only at t0+%v (T=%v, t0=%v after start, %d/%d request bytes delivered, err=%v)",
			r.at.Sub(t0), T, x.rel(t0), off, len(req), r.err)
	default:
		x.violate("cut-late", "connection still open at t0+3T (T=%v, t0=%v after start, %d/%d request bytes delivered)", T, x.rel(t0), off, len(req))
	}
}

var fileContent = make([]byte, 8192)

var discard = slog.New(slog.NewTextHandler(io.Discard, nil))

func runScenario(t *testing.T, sc *scenario) *outcome {
	out := &outcome{smp: sample{Scenario: sc, CutNs: -1}}
	T := time.Duration(sc.TNs)
	epoch := time.Now()
	led := &ledger{}
	mem := afero.NewMemMapFs()
	// 8 KiB: the server probes offset 0xF70 of every file it opens, and a memfs ReadAt beyond the end
	// reports ErrUnexpectedEOF (not EOF as an OS file does), which would make OPEN fail
	for _, f := range []string{"/root/f", "/root" + existingPath, "/root/dir/other.bin"} {
		if err := afero.WriteFile(mem, f, fileContent, 0o644); err != nil {
			out.trouble = append(out.trouble, "memfs: "+err.Error())
			return out
		}
	}
	spy := &countFs{Fs: mem, led: led}
	mask := sc.Mask
	if sc.Held && mask == 0 {
		mask = 3
	}
	srv := verifhook.NewServer(verifhook.NewHandler(afero.NewBasePathFs(spy, "/root"), mask&4 != 0, 65536), T, discard)
	ln := newMemListener()
	served := make(chan error, 1)
	go func() { served <- srv.Serve(ln) }()
	cli, sconn := net.Pipe()
	x := &runner{sc: sc, T: T, epoch: epoch, cli: cli, led: led, out: out}
	// far-away safety net: a hang of the server becomes a client timeout instead of a bubble deadlock
	cli.SetDeadline(epoch.Add(50000 * time.Hour))
	ln.ch <- sconn
	synctest.Wait()
	t0 := time.Now() // the server armed its first deadline at this instant

	finish := func() {
		cli.Close()
		ln.Close()
		synctest.Wait()
		select {
		case <-served:
		default:
			out.trouble = append(out.trouble, "Serve did not return after the listener was closed")
		}
		if o, c := led.opens.Load(), led.closes.Load(); o != c && len(out.viol) == 0 {
			x.violate("leak", "after the connection ended: %d files opened, %d closed", o, c)
		}
		out.virtual = time.Since(epoch)
		out.smp.Answered = out.answered
	}
	defer finish()

	liveRule := "cut-early"
	if T == 0 {
		liveRule = "disabled-cut"
	}
	stat := encode(opStat, sc.Path)

	if sc.Held {
		want := int64(0)
		if mask&1 != 0 {
			want++
			resp, stage, err := x.request(encode(opOpenDir, "/"), szOpenDir)
			if err != nil {
				x.failedRequest(liveRule, "OPENDIR /", stage, len(resp), err, 0)
				return out
			}
			if binary.BigEndian.Uint32(resp) != 0 {
				out.trouble = append(out.trouble, fmt.Sprintf("OPENDIR / refused: %x", resp))
				return out
			}
		}
		if mask&2 != 0 {
			want++
			resp, stage, err := x.request(encode(opOpen, "/f"), szOpen)
			if err != nil {
				x.failedRequest(liveRule, "OPEN /f", stage, len(resp), err, 0)
				return out
			}
			if int64(binary.BigEndian.Uint64(resp)) != int64(len(fileContent)) {
				out.trouble = append(out.trouble, fmt.Sprintf("OPEN /f refused: %x", resp))
				return out
			}
		}
		if mask&4 != 0 {
			want++
			resp, stage, err := x.request(encode(opCreate, "/w.bin"), 4)
			if err != nil {
				x.failedRequest(liveRule, "CREATE /w.bin", stage, len(resp), err, 0)
				return out
			}
			if binary.BigEndian.Uint32(resp) != 0 {
				out.trouble = append(out.trouble, fmt.Sprintf("CREATE /w.bin refused: %x", resp))
				return out
			}
		}
		if held := led.opens.Load() - led.closes.Load(); held != want {
			out.trouble = append(out.trouble, fmt.Sprintf("expected %d handles held after the opens (mask %d), ledger says %d", want, mask, held))
			return out
		}
		if sc.Reads && mask&2 != 0 {
			for _, rq := range []struct {
				b []byte
				n int
				w string
			}{{encodeRead(opRead, 100, 0), 104, "READ 100@0"}, {encodeRead(opCrit, 64, 5), 64, "READCRIT 64@5"}, {encode(opOpenDir, "/f"), szOpenDir, "OPENDIR of a regular file"}} {
				resp, stage, err := x.request(rq.b, rq.n)
				if err != nil {
					x.failedRequest(liveRule, rq.w, stage, len(resp), err, 0)
					return out
				}
			}
		}
		t0 = time.Now()
	}

	// k complete requests, each after a think time < T
	for i := 0; i < sc.K; i++ {
		gap := time.Duration(sc.GapsNs[i])
		sleepUntil(t0.Add(gap))
		resp, stage, err := x.request(stat, szStat)
		if err != nil {
			x.failedRequest(liveRule, fmt.Sprintf("request %d/%d", i+1, sc.K), stage, len(resp), err, gap)
			return out
		}
		t0 = time.Now()
	}

	switch {
	case T == 0:
		// disabled: a long silence (possibly in the middle of a request) must not end the connection
		idle, _ := time.ParseDuration(sc.Idle)
		if sc.Pos > 0 {
			if _, err := cli.Write(stat[:sc.Pos]); err != nil {
				x.violate("disabled-cut", "partial write failed with the timeout disabled: %v", err)
				return out
			}
		}
		time.Sleep(idle)
		resp, stage, err := x.request(stat[sc.Pos:], szStat)
		if err != nil {
			x.failedRequest("disabled-cut", fmt.Sprintf("request after %v of silence with %d request bytes pending", idle, sc.Pos), stage, len(resp), err, idle)
			return out
		}
		out.smp.T0Ns = int64(x.rel(t0))
		return out

	case sc.N > 0:
		// active: requests every d < T, for many multiples of T
		if sc.LateNs > 0 {
			// a busy server: its goroutine gets the CPU again only LateNs after it has read the command
			// header; the complete request was delivered in one write at d < T all the same
			verifhook.SetAfterCommandReadHook(func() { time.Sleep(time.Duration(sc.LateNs)) })
			defer verifhook.SetAfterCommandReadHook(nil)
		}
		d := time.Duration(sc.DNs)
		for i := 0; i < sc.N; i++ {
			sleepUntil(t0.Add(d))
			req, want := stat, szStat
			op := sc.Op
			if op == "mix" {
				op = []string{"crit", "stat", "cd", "read"}[i%4]
			}
			switch op {
			case "crit":
				req, want = encodeRead(opCrit, 64, uint64(i%4096)), 64
			case "cd":
				req, want = encodeReadCD(uint32(i%2), 1), 2048
			case "read":
				req, want = encodeRead(opRead, 100, uint64(i%4096)), 104
			}
			resp, stage, err := x.request(req, want)
			if err != nil {
				rule := "active-cut"
				x.failedRequest(rule, fmt.Sprintf("request %d/%d spaced %v (connection age %v = %.1f T)", i+1, sc.N, d, x.rel(time.Now()), float64(x.rel(time.Now()))/float64(T)),
					stage, len(resp), err, d)
				return out
			}
			t0 = time.Now()
		}
		x.awaitCut(t0, nil, nil)
		return out

	default:
		req := stat
		if sc.Ann > 0 {
			req = make([]byte, 16+100)
			binary.BigEndian.PutUint16(req[0:], opWrite)
			binary.BigEndian.PutUint32(req[4:], sc.Ann)
		}
		x.awaitCut(t0, req, sc.Writes)
		return out
	}
}

// ---------------------------------------------------------------- the test

func TestC16(t *testing.T) {
	slog.SetDefault(discard)
	seed := int64(1)
	if s := os.Getenv("VERIF_SEED"); s != "" {
		v, err := strconv.ParseInt(s, 10, 64)
		if err != nil {
			t.Fatalf("VERIF_SEED: %v", err)
		}
		seed = v
	}
	tier := os.Getenv("VERIF_TIER")
	if tier == "" {
		tier = "quick"
	}
	if tier != "quick" && tier != "thorough" {
		t.Fatalf("VERIF_TIER=%q", tier)
	}
	repPath := os.Getenv("VTIME_REPORT")
	if repPath == "" {
		t.Fatalf("VTIME_REPORT is not set")
	}
	os.Remove(repPath)
	start := time.Now()
	scs := genScenarios(rand.New(rand.NewSource(seed)), tier == "thorough")
	if only := os.Getenv("VTIME_ONLY"); only != "" { // replay of one scenario id
		id, err := strconv.Atoi(only)
		if err != nil || id < 0 || id >= len(scs) {
			t.Fatalf("VTIME_ONLY=%q", only)
		}
		scs = scs[id : id+1]
	}
	rep := report{Seed: seed, Tier: tier, ByKind: map[string]int{}, ViolationCounts: map[string]int{}, Violations: []violation{}, Samples: []sample{}}
	sampled := map[string]int{}
	var virtual time.Duration
	for _, sc := range scs {
		var out *outcome
		synctest.Test(t, func(t *testing.T) { out = runScenario(t, sc) })
		if out == nil {
			t.Fatalf("scenario %d did not complete", sc.ID)
		}
		for _, tr := range out.trouble {
			t.Errorf("scenario %d (%s T=%s): %s", sc.ID, sc.Kind, sc.T, tr)
		}
		key := sc.Kind + " T=" + sc.T
		rep.Scenarios++
		rep.ByKind[key]++
		rep.RequestsAnswered += int64(out.answered)
		rep.CutsObserved += int64(out.cuts)
		rep.HeldHandlesCut += out.heldAtCut
		virtual += out.virtual
		for _, v := range out.viol {
			rep.ViolationsTotal++
			rep.ViolationCounts[v.Rule+"|"+v.Feature]++
			if rep.ViolationCounts[v.Rule+"|"+v.Feature] <= 5 && len(rep.Violations) < 400 {
				rep.Violations = append(rep.Violations, v)
			}
		}
		if sampled[key] == 0 || (len(out.viol) > 0 && sampled[key] < 2) {
			sampled[key]++
			if len(rep.Samples) < 80 {
				rep.Samples = append(rep.Samples, out.smp)
			}
		}
	}
	rep.VirtualSeconds = virtual.Seconds()
	rep.WallSeconds = time.Since(start).Seconds()
	b, err := json.MarshalIndent(rep, "", " ")
	if err != nil {
		t.Fatalf("report: %v", err)
	}
	if err := os.WriteFile(repPath, b, 0o644); err != nil {
		t.Fatalf("report: %v", err)
	}
	t.Logf("scenarios=%d requests=%d cuts=%d violations=%d virtual=%.0fs wall=%.1fs", rep.Scenarios, rep.RequestsAnswered, rep.CutsObserved,
		rep.ViolationsTotal, rep.VirtualSeconds, rep.WallSeconds)
}
