#!/bin/bash
# mutate.sh <patch> <Cxx> [tier]  -- self-validation only (never a registered command):
# applies a patch to a scratch copy of /repo and runs the check against the copy.
set -u
PATCH="$(readlink -f "$1")"; PROP="$2"; TIER="${3:-quick}"
D="$(mktemp -d /var/tmp/mut.XXXXXX)"
trap 'rm -rf "$D"' EXIT
rsync -a --exclude .git /repo/ "$D/repo/"
( cd "$D/repo" && patch -p1 -s < "$PATCH" ) || { echo "PATCH-FAILED $PATCH"; exit 2; }
( cd "$D/repo" && GOFLAGS=-mod=mod GOPROXY=off GOSUMDB=off GOTOOLCHAIN=local go build ./... ) || { echo "MUTANT-DOES-NOT-COMPILE"; exit 2; }
VERIF_REPO="$D/repo" VERIF_NO_EVIDENCE=1 /verif/check "$PROP" "$TIER" 2>&1 | grep -E "^(VIOLATION|KNOWN-FINDING|SUMMARY|FLOOR|HARNESS|BUILD)" | head -8
echo "exit=${PIPESTATUS[0]}"
