#!/bin/bash
# MANIFEST.setup_cmd: builds the harness once from files on disk (offline) to warm the build cache
# and to fail early if the toolchain or module cache is unusable. Every check rebuilds what it
# needs from /repo's current working tree anyway.
set -e
export GOFLAGS=-mod=mod GOPROXY=off GOSUMDB=off GOTOOLCHAIN=local
cd "$(dirname "$0")/harness"
mkdir -p ../.build ../evidence
go build -tags verif -o ../.build/vh.setup ./cmd/vh
go build -tags verif -race -o ../.build/vh-race.setup ./cmd/vh
(cd /repo && go build -o /verif/.build/ps3netsrv-go.setup ./cmd/ps3netsrv-go)
rm -f ../.build/*.setup
echo "setup ok"
